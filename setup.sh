#!/bin/bash
# Build the Lean development (model, specification, proofs, driver) from files on disk only.
set -e
cd "$(dirname "$0")"
/venv/bin/python -c "import networkx" 2>/dev/null || /venv/bin/pip install --no-index --find-links /opt/veriftools/wheels networkx >/dev/null
/venv/bin/python -c "from harness import translate_flags, translate_config, translate_wiring; translate_flags.regenerate(); translate_config.regenerate(); translate_wiring.regenerate()" >/dev/null
cd lean
lake build 2>&1 | grep -v "^✔" | tail -20
test -x .lake/build/bin/pta_driver
