"""Third translator (DESIGN 11.3f): regenerate lean/Generated/Wiring.lean from the Python source of the two entry points
(src/pytestarch/pytestarch.py) on every run.

What is extracted is DATA FLOW, not text: for each of the two delegating calls

  * get_evaluable_architecture_for_module_objects(...)  ->  get_evaluable_architecture(...)
  * get_evaluable_architecture(...)                      ->  generate_graph(...)

and for every parameter of the callee, the set of parameters of the caller its argument is computed from (positional and
keyword arguments are resolved against the callee's signature; local variables are followed through their assignments; an
assignment under `if` keeps the old dependencies and adds those of the test), together with the default value (source text)
of every optional parameter of the two public entry points and the literal DEFAULT_EXCLUSIONS.

`Pta.C04.generated_wiring_agree` (PtaProofs/Props/Tables.lean, `decide`) states that these tables equal the wiring the model
assumes (PtaModel/Wiring.lean): every option reaches the scan unchanged and un-swapped, both entry points have the same
defaults.  Rewrites that keep the data flow (dirname computed differently, keyword instead of positional arguments, helper
variables) leave the theorem true; a dropped, swapped or re-defaulted option breaks it.
Anything outside the accepted shape -> "untranslatable" (the generated file is left as it is; the correspondence runs of
C04 / C13 remain the tie)."""
from __future__ import annotations

import ast
import os

from .proto import VERIF

REPO = os.environ.get("VERIF_REPO", "/repo")
OUT = os.path.join(VERIF, "lean", "Generated", "Wiring.lean")


class Untranslatable(Exception):
    pass


def _params(fn: ast.FunctionDef):
    a = fn.args
    if a.vararg or a.kwarg or a.posonlyargs:
        raise Untranslatable(f"{fn.name}: *args / **kwargs / positional-only parameters")
    names = [x.arg for x in a.args] + [x.arg for x in a.kwonlyargs]
    defaults = {}
    for x, d in zip(a.args[len(a.args) - len(a.defaults):], a.defaults):
        defaults[x.arg] = ast.unparse(d)
    for x, d in zip(a.kwonlyargs, a.kw_defaults):
        if d is not None:
            defaults[x.arg] = ast.unparse(d)
    return names, defaults


def _deps(e, env):
    out = set()
    for n in ast.walk(e):
        if isinstance(n, ast.Name) and n.id in env:
            out |= env[n.id]
    return out


def _flow(fn: ast.FunctionDef, callee_name: str, callee_params):
    """dependencies of every argument of the (single) `return callee(...)` of fn on fn's parameters"""
    names, _ = _params(fn)
    env = {n: {n} for n in names}
    result = []

    def run(stmts, control):
        for st in stmts:
            if isinstance(st, ast.Expr) and isinstance(st.value, ast.Constant):
                continue
            if isinstance(st, ast.If):
                c = control | _deps(st.test, env)
                if all(isinstance(x, ast.Raise) for x in st.body) and not st.orelse:
                    continue                      # a guard: decides whether the call happens, not what is passed
                run(st.body, c)
                run(st.orelse, c)
            elif isinstance(st, (ast.Assign, ast.AnnAssign)):
                tgts = st.targets if isinstance(st, ast.Assign) else [st.target]
                if len(tgts) != 1 or not isinstance(tgts[0], ast.Name) or st.value is None:
                    raise Untranslatable(f"{fn.name}: assignment target {ast.unparse(st)[:80]}")
                t = tgts[0].id
                new = _deps(st.value, env) | control
                env[t] = (new | env.get(t, set())) if control else new
            elif isinstance(st, ast.Return):
                call = st.value
                if not (isinstance(call, ast.Call) and isinstance(call.func, ast.Name) and call.func.id == callee_name):
                    raise Untranslatable(f"{fn.name}: return is not a call of {callee_name}")
                if any(isinstance(a, ast.Starred) for a in call.args) or any(k.arg is None for k in call.keywords):
                    raise Untranslatable(f"{fn.name}: star arguments")
                if len(call.args) > len(callee_params):
                    raise Untranslatable(f"{fn.name}: too many positional arguments")
                bound = {}
                for p, a in zip(callee_params, call.args):
                    bound[p] = _deps(a, env) | control
                for k in call.keywords:
                    if k.arg not in callee_params or k.arg in bound:
                        raise Untranslatable(f"{fn.name}: keyword {k.arg}")
                    bound[k.arg] = _deps(k.value, env) | control
                result.append(bound)
            else:
                raise Untranslatable(f"{fn.name}: statement {type(st).__name__}")

    run(fn.body, set())
    if len(result) != 1:
        raise Untranslatable(f"{fn.name}: expected exactly one delegating return, found {len(result)}")
    return [(p, sorted(result[0].get(p, ["<default>"]))) for p in callee_params]


def _lean_str(s: str) -> str:
    return '"' + s.replace("\\", "\\\\").replace('"', '\\"') + '"'


def _lean_flow(rows):
    return "[" + ", ".join("(" + _lean_str(p) + ", [" + ", ".join(_lean_str(d) for d in ds) + "])" for p, ds in rows) + "]"


def _lean_pairs(rows):
    return "[" + ", ".join("(" + _lean_str(a) + ", " + _lean_str(b) + ")" for a, b in rows) + "]"


def translate() -> str:
    src_e = open(os.path.join(REPO, "src/pytestarch/pytestarch.py")).read()
    src_g = open(os.path.join(REPO, "src/pytestarch/eval_structure_generation/graph_generation/graph_generator.py")).read()
    mod = ast.parse(src_e)
    fns = {n.name: n for n in mod.body if isinstance(n, ast.FunctionDef)}
    gfn = next(n for n in ast.parse(src_g).body if isinstance(n, ast.FunctionDef) and n.name == "generate_graph")
    entry, objs = fns["get_evaluable_architecture"], fns["get_evaluable_architecture_for_module_objects"]
    entry_params, entry_defaults = _params(entry)
    objs_params, objs_defaults = _params(objs)
    graph_params, _ = _params(gfn)
    default_excl = None
    for st in mod.body:
        if isinstance(st, ast.Assign) and len(st.targets) == 1 and isinstance(st.targets[0], ast.Name) and st.targets[0].id == "DEFAULT_EXCLUSIONS":
            v = st.value
            if isinstance(v, (ast.Tuple, ast.List)) and all(isinstance(x, ast.Constant) and isinstance(x.value, str) for x in v.elts):
                default_excl = [x.value for x in v.elts]
    if default_excl is None:
        raise Untranslatable("DEFAULT_EXCLUSIONS is not a literal tuple of strings")
    out = [
        "/- GENERATED by harness/translate_wiring.py from /repo's src/pytestarch/pytestarch.py (and the signature of generate_graph).",
        "   Do not edit. -/",
        "namespace Generated",
        "",
        "/-- parameters of `get_evaluable_architecture`, in order -/",
        "def entryParams : List String := [" + ", ".join(_lean_str(p) for p in entry_params) + "]",
        "/-- default values (source text) of the optional parameters of `get_evaluable_architecture` -/",
        "def entryDefaults : List (String × String) := " + _lean_pairs([(p, entry_defaults[p]) for p in entry_params if p in entry_defaults]),
        "/-- default values of the optional parameters of `get_evaluable_architecture_for_module_objects` -/",
        "def moduleObjectsDefaults : List (String × String) := " + _lean_pairs([(p, objs_defaults[p]) for p in objs_params if p in objs_defaults]),
        "/-- `DEFAULT_EXCLUSIONS` -/",
        "def defaultExclusions : List String := [" + ", ".join(_lean_str(x) for x in default_excl) + "]",
        "/-- for every parameter of `get_evaluable_architecture`: the parameters of the module-object entry point its argument is computed from -/",
        "def moduleObjectsFlow : List (String × List String) := " + _lean_flow(_flow(objs, "get_evaluable_architecture", entry_params)),
        "/-- for every parameter of `generate_graph`: the parameters of `get_evaluable_architecture` its argument is computed from -/",
        "def generateGraphFlow : List (String × List String) := " + _lean_flow(_flow(entry, "generate_graph", graph_params)),
        "",
        "end Generated",
        "",
    ]
    return "\n".join(out)


def regenerate() -> dict:
    try:
        text = translate()
    except (Untranslatable, StopIteration, KeyError, SyntaxError, OSError) as e:
        return {"status": "untranslatable", "why": f"{type(e).__name__}: {e}"}
    old = open(OUT).read() if os.path.exists(OUT) else None
    if old != text:
        os.makedirs(os.path.dirname(OUT), exist_ok=True)
        with open(OUT, "w") as f:
            f.write(text)
        return {"status": "regenerated", "changed": True}
    return {"status": "regenerated", "changed": False}


if __name__ == "__main__":
    print(translate())
