"""Source fingerprints: which Python files of the repository differ from the tree the model was written against.

`srcmap.json` (committed, regenerated with `python -m harness.srcmap --write` whenever the model is brought up to date
with a new commit of the repository) holds, per file under src/pytestarch, the SHA-256 of its AST with docstrings removed
(so comments, formatting and docstrings do not count). A check uses the difference only to decide HOW HARD to search:
when a file a property is anchored in has changed, the correspondence / failing-input search of that property runs with
larger streams (see Ctx.size). A changed fingerprint is never reported as a violation by itself."""
from __future__ import annotations

import ast
import hashlib
import json
import os
import sys

from .proto import VERIF

MAP = os.path.join(VERIF, "srcmap.json")


def _strip_docstrings(tree: ast.AST) -> ast.AST:
    for node in ast.walk(tree):
        if isinstance(node, (ast.Module, ast.ClassDef, ast.FunctionDef, ast.AsyncFunctionDef)):
            body = node.body
            if body and isinstance(body[0], ast.Expr) and isinstance(getattr(body[0], "value", None), ast.Constant) \
                    and isinstance(body[0].value.value, str):
                node.body = body[1:] or [ast.Pass()]
    return tree


def fingerprint(path: str) -> str:
    try:
        src = open(path, encoding="utf-8").read()
        tree = _strip_docstrings(ast.parse(src))
        return hashlib.sha256(ast.dump(tree, include_attributes=False).encode()).hexdigest()
    except SyntaxError:
        return "syntax-error"


def current(repo: str) -> dict:
    base = os.path.join(repo, "src", "pytestarch")
    out = {}
    for root, dirs, files in os.walk(base):
        dirs[:] = sorted(d for d in dirs if d != "__pycache__")
        for f in sorted(files):
            if f.endswith(".py"):
                p = os.path.join(root, f)
                out[os.path.relpath(p, repo)] = fingerprint(p)
    return out


def changed(repo: str) -> list[str]:
    """files added, removed or changed (AST-wise) relative to the committed map"""
    if not os.path.exists(MAP):
        return []
    want = json.load(open(MAP))["files"]
    have = current(repo)
    return sorted(k for k in set(want) | set(have) if want.get(k) != have.get(k))


def anchors(prop: str) -> set[str]:
    for l in open(os.path.join(VERIF, "properties.jsonl")):
        p = json.loads(l)
        if p["id"] == prop:
            return set(p["anchors"]["files"])
    return set()


if __name__ == "__main__":
    repo = os.environ.get("VERIF_REPO") or "/repo"
    if "--write" in sys.argv:
        import subprocess

        head = subprocess.run(["git", "-C", repo, "rev-parse", "HEAD"], capture_output=True, text=True).stdout.strip()
        json.dump({"repo_head": head, "files": current(repo)}, open(MAP, "w"), indent=1, sort_keys=True)
        print("wrote", MAP, head)
    else:
        print(changed(repo))
