"""./check Cxx --replay <replay file>

A replay file (written under replays/ by a failing check) holds the minimal input in line-protocol form, the
observations (implementation / model / specification) and, where the case is a rule on a literal graph, a
stand-alone Python snippet. Replaying means:

  1. print what the file recorded;
  2. if the file carries a `python` snippet, run it against the CURRENT working tree of the repository and show
     what the implementation does now; if it carries a `replay_cmd`, run that;
  3. feed the recorded protocol line to the current Lean driver and show the model / specification answers;
  4. re-run the check that produced the file with the recorded tier and seed (every random choice derives from
     the seed, so the same stream is regenerated) and report whether a violation is still found.

Exit code: 1 if the violation reproduces (step 4 exits 1), 0 if it does not, 2 on infrastructure errors."""
from __future__ import annotations

import json
import os
import subprocess
import sys

from .proto import VERIF, run_driver


def replay(prop: str, path: str) -> int:
    if not os.path.isabs(path):
        path = os.path.join(VERIF, path)
    try:
        doc = json.load(open(path))
    except Exception as e:  # noqa: BLE001
        print(f"INFRA-ERROR cannot read replay file {path}: {e}", file=sys.stderr)
        return 2
    print(f"replay {os.path.relpath(path, VERIF)}: property={doc.get('property')} kind={doc.get('kind')} "
          f"tier={doc.get('tier')} seed={doc.get('seed')}")
    for k in ("what", "theorem", "line", "impl", "model", "spec", "witness"):
        if doc.get(k) is not None:
            print(f"  recorded {k}: {str(doc[k])[:600]}")
    repo = os.environ.get("VERIF_REPO") or "/repo"
    env = dict(os.environ, PYTHONPATH=os.pathsep.join([os.path.join(repo, "src"), VERIF]))
    if doc.get("python"):
        p = subprocess.run(["/venv/bin/python", "-c", doc["python"]], cwd=VERIF, env=env, capture_output=True, text=True)
        tail = (p.stdout + p.stderr).strip().split("\n")[-6:]
        print(f"  python snippet on the current tree: rc={p.returncode}")
        for t in tail:
            print("    " + t[:300])
    if doc.get("replay_cmd"):
        p = subprocess.run(doc["replay_cmd"], shell=True, cwd=VERIF, env=env, capture_output=True, text=True)
        print(f"  replay_cmd rc={p.returncode}: {(p.stdout + p.stderr).strip()[-600:]}")
    if doc.get("line"):
        try:
            print("  driver now: " + run_driver([doc["line"]])[0][:800])
        except Exception as e:  # noqa: BLE001
            print(f"  driver not available: {e}")
    env2 = dict(os.environ, VERIF_SEED=str(doc.get("seed", 0)))
    tier = doc.get("tier") or "quick"
    p = subprocess.run([os.path.join(VERIF, "check"), prop, "--tier", tier], cwd=VERIF, env=env2, capture_output=True, text=True)
    lines = [l for l in p.stdout.split("\n") if l.startswith(("VIOLATION", "KNOWN-FINDING", "[" + prop))]
    for l in lines:
        print("  " + l)
    print(f"  re-run of ./check {prop} --tier {tier} with seed {doc.get('seed', 0)}: exit {p.returncode} "
          f"({'violation reproduces' if p.returncode == 1 else 'no violation' if p.returncode == 0 else 'infrastructure error'})")
    return p.returncode if p.returncode in (0, 1) else 2
