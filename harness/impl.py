"""Implementation side of the correspondence harness: imports the real package from the
current working tree of the repository (VERIF_REPO, default /repo) and offers small helpers to
build graphs, rules, layer rules, project trees, and to canonicalise outcomes.

Run under /venv/bin/python (the repository's interpreter)."""
from __future__ import annotations

import os
import re
import shutil
import sys
import tempfile
from pathlib import Path

REPO = os.environ.get("VERIF_REPO", "/repo")
SRC = os.path.join(REPO, "src")
if sys.path[0] != SRC:
    sys.path.insert(0, SRC)
os.environ.setdefault("MPLBACKEND", "Agg")

import warnings  # noqa: E402

warnings.showwarning = lambda *a, **k: None  # the deprecated-decorator re-enables DeprecationWarning on every call

import pytestarch  # noqa: E402

assert os.path.realpath(pytestarch.__file__).startswith(os.path.realpath(SRC)), (
    pytestarch.__file__,
    SRC,
)

from pytestarch import (  # noqa: E402
    DiagramRule,
    LayeredArchitecture,
    LayerRule,
    Rule,
    get_evaluable_architecture,
)
from pytestarch.diagram_extension.diagram_parser import PumlParser  # noqa: E402
from pytestarch.diagram_extension.exceptions import PumlParsingError  # noqa: E402
from pytestarch.eval_structure.evaluable_architecture import (  # noqa: E402
    LayerMapping,
    ModuleNameFilter,
    ModuleNameRegexFilter,
    ParentModuleNameFilter,
)
from pytestarch.eval_structure.evaluable_graph import EvaluableArchitectureGraph  # noqa: E402
from pytestarch.eval_structure.exceptions import ImpossibleMatch, LayerMismatch  # noqa: E402
from pytestarch.eval_structure.networkxgraph import NetworkxGraph  # noqa: E402
from pytestarch.eval_structure_generation.file_import.import_types import (  # noqa: E402
    AbsoluteImport,
)
from pytestarch.query_language.exceptions import ImproperlyConfigured  # noqa: E402
from pytestarch.rule_assessment.exceptions import RuleInconsistency  # noqa: E402
from pytestarch.utils.partial_match_to_regex_converter import (  # noqa: E402
    convert_partial_match_to_regex,
)

try:  # networkx error class
    from networkx import NetworkXError
except Exception:  # pragma: no cover
    class NetworkXError(Exception):
        pass


# ----------------------------------------------------------------------------- errors
def err_kind(e: BaseException) -> str:
    """Map an exception to the small enum shared with the Lean model."""
    if isinstance(e, ImproperlyConfigured):
        return "improperlyConfigured"
    if isinstance(e, RuleInconsistency):
        return "ruleInconsistency"
    if isinstance(e, ImpossibleMatch):
        return "impossibleMatch"
    if isinstance(e, LayerMismatch):
        return "layerMismatch"
    if isinstance(e, PumlParsingError):
        return "pumlParsingError"
    if isinstance(e, (KeyError, NetworkXError, IndexError, ValueError)):
        return "lookupError"
    return "other:" + type(e).__name__


# ----------------------------------------------------------------------------- graphs
def make_graph(all_modules, imports, level_limit=None):
    """imports: iterable of (importer, importee)."""
    ev = EvaluableArchitectureGraph(
        NetworkxGraph(
            list(all_modules), [AbsoluteImport(a, b) for a, b in imports], level_limit
        )
    )
    # a caller that reads the public module listing and empties the list it was handed: that list is the caller's, the
    # architecture (and every rule evaluated on it afterwards) is unaffected
    try:
        listed = ev.modules
        if isinstance(listed, list):
            listed.clear()
    except Exception:  # noqa: BLE001
        pass
    return ev


def graph_snapshot(ev):
    g = ev._graph._graph
    nodes = sorted(g.nodes)
    imps = sorted((u, v) for u, v, d in g.edges(data=True) if not d["inherits"])
    hier = sorted((u, v) for u, v, d in g.edges(data=True) if d["inherits"])
    return nodes, imps, hier


# ----------------------------------------------------------------------------- rule ops
def _seq_form(a):
    """a batch of names is a Sequence[str]: mostly passed as a list, now and then as a tuple or as a one-shot iterator
    (the choice depends on the names only, so that a case is reproducible)"""
    if not isinstance(a, list):
        return a
    k = sum(len(x) for x in a) % 7
    return tuple(a) if k == 1 else iter(list(a)) if k == 2 else a


RULE_OPS = {
    "mt": lambda r, a: r.modules_that(),
    "named": lambda r, a: r.are_named(_seq_form(a)),
    "sub": lambda r, a: r.are_sub_modules_of(_seq_form(a)),
    "match": lambda r, a: r.have_name_matching(a),
    "contain": lambda r, a: r.have_name_containing(a),
    "should": lambda r, a: r.should(),
    "only": lambda r, a: r.should_only(),
    "not": lambda r, a: r.should_not(),
    "imp": lambda r, a: r.import_modules_that(),
    "by": lambda r, a: r.be_imported_by_modules_that(),
    "impx": lambda r, a: r.import_modules_except_modules_that(),
    "byx": lambda r, a: r.be_imported_by_modules_except_modules_that(),
    "impany": lambda r, a: r.import_anything(),
    "byany": lambda r, a: r.be_imported_by_anything(),
}


def run_rule_ops(ops, ev, rule=None):
    """ops: list of (opname, arg) ; arg is None, str (single) or list[str].
    Returns canonical outcome: ("PASS",) / ("FAIL", message) / ("ERR", kind, index)
    where index = position of raising builder call, len(ops) for assert_applies."""
    import warnings

    r = rule if rule is not None else Rule()
    for i, (op, arg) in enumerate(ops):
        try:
            with warnings.catch_warnings():
                warnings.simplefilter("ignore")
                r = RULE_OPS[op](r, arg)
        except AssertionError:
            raise
        except Exception as e:  # noqa: BLE001
            return ("ERR", err_kind(e), i)
    try:
        r.assert_applies(ev)
    except AssertionError as e:
        return ("FAIL", str(e))
    except Exception as e:  # noqa: BLE001
        return ("ERR", err_kind(e), len(ops))
    return ("PASS",)


def rule_ops_for(verb, imp, exc, subs, objs, anything=False):
    """verb in should/only/not ; subs/objs = (kind, names) with kind N|P|R (R: single regex)."""
    def setm(kind, names):
        if kind == "N":
            return ("named", list(names))
        if kind == "P":
            return ("sub", list(names))
        if kind == "R":
            return ("match", names if isinstance(names, str) else names[0])
        raise ValueError(kind)

    ops = [("mt", None), setm(*subs), (verb, None)]
    if anything:
        ops.append(("impany" if imp else "byany", None))
    else:
        ops.append(({(True, False): "imp", (False, False): "by", (True, True): "impx", (False, True): "byx"}[(imp, exc)], None))
        ops.append(setm(*objs))
    return ops


# ----------------------------------------------------------------------------- messages
_LINE_IMPORT = re.compile(r'^"([^"]*)"( \((?:layer "([^"]*)"|no layer)\))? (imports|is imported by) "([^"]*)"( \((?:layer "([^"]*)"|no layer)\))?\.$')
_LINE_MISSING = re.compile(r'^(Sub modules of )?"([^"]*)" (does not import|do not import|is not imported by|are not imported by) (any module that is not )?(.*)\.$')
_LINE_LAYER_MISSING = re.compile(r'^Layer "([^"]*)" (does not import|is not imported by) (any layer that is not )?(.*)\.$')
_OBJ = re.compile(r'^(a sub module of )?"([^"]*)"$')
_LOBJ = re.compile(r'^layer "([^"]*)"$')


def parse_message(msg: str):
    """Parse an AssertionError message into the sorted list of canonical item strings the Lean
    driver prints (names percent-encoded):
      imp|<importer>|<importee>|<i|b>            "X imports Y" (i) / "Y is imported by X" (b)
      limp|<importer>|<importee>|<i|b>|<tag>|<tag>   same with layer tags  L<layer> / N (no layer)
      miss|<0|1>|<S|G><subject>|<S|G><obj>,..|<i|b>  "does not import" line; 1 = "any module that is not"
      lmiss|<0|1>|<layer>|<layer>,..|<i|b>
      bad|<line>                                  a line that has none of the shapes above"""
    from .proto import enc

    items = []
    for line in msg.split("\n"):
        m = _LINE_IMPORT.match(line)
        if m:
            a, la_full, la, verb, b, lb_full, lb = m.groups()
            d = "i" if verb == "imports" else "b"
            if verb == "imports":
                u, v, lu, lv = a, b, (la_full, la), (lb_full, lb)
            else:
                u, v, lu, lv = b, a, (lb_full, lb), (la_full, la)
            if la_full or lb_full:
                def t(x):
                    return "-" if x[0] is None else ("L" + enc(x[1]) if x[1] is not None else "N")
                items.append(f"limp|{enc(u)}|{enc(v)}|{d}|{t(lu)}|{t(lv)}")
            else:
                items.append(f"imp|{enc(u)}|{enc(v)}|{d}")
            continue
        m = _LINE_LAYER_MISSING.match(line)
        if m:
            subj, verb, anyp, rest = m.groups()
            objs = []
            ok = True
            for part in rest.split(", "):
                mo = _LOBJ.match(part)
                if not mo:
                    ok = False
                    break
                objs.append(enc(mo.group(1)))
            if ok:
                d = "b" if "imported by" in verb else "i"
                items.append(f"lmiss|{1 if anyp else 0}|{enc(subj)}|{','.join(sorted(set(objs)))}|{d}")
                continue
        m = _LINE_MISSING.match(line)
        if m:
            grp, subj, verb, anyp, rest = m.groups()
            objs = []
            ok = True
            for part in rest.split(", "):
                mo = _OBJ.match(part)
                if not mo:
                    ok = False
                    break
                objs.append(("G" if mo.group(1) else "S") + enc(mo.group(2)))
            if ok:
                d = "b" if "imported by" in verb else "i"
                items.append(f"miss|{1 if anyp else 0}|{'G' if grp else 'S'}{enc(subj)}|{','.join(sorted(set(objs)))}|{d}")
                continue
        items.append("bad|" + enc(line))
    return sorted(set(items))


# ----------------------------------------------------------------------------- projects
def tmp_root() -> str:
    base = os.environ.get("VERIF_TMP") or ("/dev/shm" if os.path.isdir("/dev/shm") else tempfile.gettempdir())
    return base


class Project:
    """A scratch project tree outside /repo and /verif; removed on close."""

    def __init__(self, files: dict[str, str], dirs=()):
        self.base = tempfile.mkdtemp(prefix="ptav_", dir=tmp_root())
        for rel, content in files.items():
            p = Path(self.base, rel)
            p.parent.mkdir(parents=True, exist_ok=True)
            p.write_text(content)
        for d in dirs:
            Path(self.base, d).mkdir(parents=True, exist_ok=True)

    def path(self, rel=""):
        return os.path.join(self.base, rel) if rel else self.base

    def close(self):
        shutil.rmtree(self.base, ignore_errors=True)

    def __enter__(self):
        return self

    def __exit__(self, *a):
        self.close()


def scan(proj: Project, root: str, module: str | None = None, **kw):
    return get_evaluable_architecture(proj.path(root), proj.path(module or root), **kw)
