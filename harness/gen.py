"""Generators: module trees, import relations, rules. Every random choice comes from the rng given."""
from __future__ import annotations

import itertools

PLAIN = ["a", "b", "c", "d", "x", "y", "z", "m"]
# adversarial component names: siblings that are string prefixes / substrings of each other,
# and characters legal in directory names but special in regexes
ADVERSARIAL = ["a", "ab", "a_b", "aa", "b", "ba", "a1", "a+b", "a(b", "b$", "a-b", "c[d", "__init__", "py", "spy", "Ab", "AB"]
IDENT_ADVERSARIAL = ["a", "ab", "a_b", "aa", "b", "ba", "a1", "abc", "b_a", "__init__", "py", "spy", "Ab", "AB"]


def is_desc(x: str, a: str) -> bool:
    return x == a or x.startswith(a + ".")


def related(a: str, b: str) -> bool:
    return is_desc(a, b) or is_desc(b, a)


def parents(n: str):
    parts = n.split(".")
    return [".".join(parts[:i]) for i in range(1, len(parts))]


def random_tree(rng, max_nodes=10, max_depth=4, comps=PLAIN, tops=2):
    """Prefix-closed list of dotted names, in random order."""
    nodes = []
    ntops = rng.randint(1, tops)
    for c in rng.sample(comps, ntops):
        nodes.append(c)
    target = rng.randint(min(2, max_nodes), max_nodes)
    tries = 0
    while len(nodes) < target and tries < 100:
        tries += 1
        p = rng.choice(nodes)
        if p.count(".") + 1 >= max_depth:
            continue
        c = rng.choice(comps)
        n = p + "." + c
        if n not in nodes:
            nodes.append(n)
    rng.shuffle(nodes)
    return nodes


def tree_shapes(max_nodes):
    """All prefix-closed trees (forests with <= 2 roots) with <= max_nodes nodes, canonical names,
    up to sibling order. Names: children of p are p.a, p.b, p.c ..."""
    letters = "abcd"
    seen = set()
    out = []

    def canon(nodes):
        return tuple(sorted(nodes))

    def grow(nodes):
        key = canon(nodes)
        if key in seen:
            return
        seen.add(key)
        out.append(list(key))
        if len(nodes) >= max_nodes:
            return
        # add next child to any node (next unused letter), or a new root
        cands = []
        for p in nodes:
            k = sum(1 for n in nodes if n.startswith(p + ".") and n.count(".") == p.count(".") + 1)
            if k < len(letters):
                cands.append(p + "." + letters[k])
        roots = [n for n in nodes if "." not in n]
        if len(roots) < 2:
            cands.append("pq"[len(roots)])
        for c in cands:
            grow(nodes + [c])

    grow(["p"])
    return out


def wf_pairs(nodes):
    """ordered pairs allowed as imports by Arch.WF: distinct, importer not a strict ancestor of importee"""
    return [(u, v) for u in nodes for v in nodes if u != v and not v.startswith(u + ".")]


def random_imports(rng, nodes, kmax, wf=True):
    pairs = wf_pairs(nodes) if wf else [(u, v) for u in nodes for v in nodes if u != v]
    if not pairs:
        return []
    k = rng.randint(0, min(kmax, len(pairs)))
    return rng.sample(pairs, k)


VERBS = ["should", "only", "not"]
# (verb, import?, except?, anything?)
SHAPES = [(v, i, x, False) for v in VERBS for i in (True, False) for x in (False, True)] + [
    ("not", True, False, True),
    ("not", False, False, True),
]


def strict_batches(nodes, max_subj=2, max_obj=2, limit=None, rng=None):
    """(subject names, object names) with all names pairwise unrelated."""
    out = []
    for ns in range(1, max_subj + 1):
        for subs in itertools.combinations(nodes, ns):
            if any(related(a, b) for a, b in itertools.combinations(subs, 2)):
                continue
            rest = [n for n in nodes if all(not related(n, s) for s in subs)]
            for no in range(1, max_obj + 1):
                for objs in itertools.combinations(rest, no):
                    if any(related(a, b) for a, b in itertools.combinations(objs, 2)):
                        continue
                    out.append((list(subs), list(objs)))
    if limit is not None and len(out) > limit and rng is not None:
        out = rng.sample(out, limit)
    return out


def rule_case(nodes, imps, shape, sk, ok, subs, objs, lim=None):
    """A rule case in both forms (builder ops for the implementation / model, spec fields for S)."""
    from .impl import rule_ops_for

    verb, imp, exc, anything = shape
    ops = rule_ops_for(verb, imp, exc, (sk, subs), (ok, objs), anything)
    spec = {
        "sv": {"should": "should", "only": "only", "not": "not"}[verb],
        "sd": "i" if imp else "b",
        "sx": "1" if exc else "0",
        "ss": [(sk, s) for s in subs],
        "so": [] if anything else [(ok, o) for o in objs],
        "sa": "1" if anything else "0",
    }
    return {"nodes": list(nodes), "imps": list(imps), "lim": lim, "ops": ops, "spec": spec}


def rule_line(case) -> str:
    from .proto import enc, enc_filter, enc_list, enc_ops, enc_pairs

    parts = ["rule", "nodes=" + enc_list(case["nodes"]), "imps=" + enc_pairs(case["imps"])]
    if case.get("lim") is not None:
        parts.append(f"lim={case['lim']}")
    parts.append("ops=" + enc_ops(case["ops"]))
    if case.get("mtab"):
        parts.append("mtab=" + ";".join(enc(p) + "~" + enc_list(ms) for p, ms in case["mtab"]))
    sp = case.get("spec")
    if sp:
        parts += [
            "sv=" + sp["sv"],
            "sd=" + sp["sd"],
            "sx=" + sp["sx"],
            "ss=" + ",".join(enc_filter(k, n) for k, n in sp["ss"]),
            "so=" + ",".join(enc_filter(k, n) for k, n in sp["so"]),
            "sa=" + sp["sa"],
        ]
    return " ".join(parts)


_GRAPH_CACHE: dict = {}


def impl_rule(case) -> str:
    """Run the real code on a rule case; canonical outcome string as the driver prints it."""
    from .impl import make_graph, parse_message, run_rule_ops

    key = (tuple(case["nodes"]), tuple(case["imps"]), case.get("lim"))
    if _GRAPH_CACHE.get("key") == key:
        g = _GRAPH_CACHE["g"]
    else:
        try:
            g = make_graph(case["nodes"], case["imps"], case.get("lim"))
        except Exception as e:  # noqa: BLE001
            return "BUILDERR:" + type(e).__name__
        _GRAPH_CACHE["key"] = key
        _GRAPH_CACHE["g"] = g
    out = run_rule_ops(case["ops"], g)
    if out[0] == "PASS":
        return f"PASS I={len(case['ops'])}"
    if out[0] == "FAIL":
        return "FAIL:" + ";".join(parse_message(out[1])) + f" I={len(case['ops'])}"
    return f"ERR:{out[1]} I={out[2]}"


def verdict_class(s: str) -> str:
    """PASS / FAIL / ERR:<kind> (drop items and index)"""
    s = s.split(" ")[0]
    if s.startswith("FAIL"):
        return "FAIL"
    return s


def odd_regex(rng, nodes):
    """shapes for which it matters that the pattern is applied with re.match semantics (anchored at the start only, not at
    the end; alternation binds weakest; a fragment from the middle of a name matches nothing)"""
    n, m = rng.choice(nodes), rng.choice(nodes)
    import re

    e = re.escape
    last = n.split(".")[-1]
    mid = rng.choice(m.split(".")[1:] or [m])          # a component that is not the first one (if there is one)
    k = rng.randrange(14)
    if k == 0:
        return ".*" + e(last) + "$"
    if k == 1:
        return ".*" + e(last) + "$|" + e(mid)            # top-level alternation after a leading .*
    if k == 2:
        return e(n) + "$|" + e(m)                         # ungrouped alternation, second branch open at the end
    if k == 3:
        return "(?:" + e(n) + "|" + e(m) + r")\..*"
    if k == 4:
        return r".*\." + e(last)                          # open at the end: also what extends the last component
    if k == 5:
        return e(mid)                                     # a fragment from inside a name: only names STARTING with it
    if k == 6:
        return "^" + e(n) + r"\Z"
    if k == 7:
        return r"[^.]+\." + e(last) + "$"
    if k == 8:
        return "(?!" + e(n) + r"(\.|$)).*"               # everything outside n
    if k == 9:
        return "(?i)" + e(n.upper()) + "$"
    if k == 10:
        return e(n) + "(" + e("." + mid) + ")?$"
    if k == 11:
        return ".+" if rng.random() < 0.5 else ".*"
    if k == 12:
        return e(n[: max(1, len(n) // 2)])               # half a name
    return ".*" + e(mid) + ".*$|^" + e(n) + "$"
