"""Line protocol shared with lean/Driver: encoding, driver invocation."""
from __future__ import annotations

import os
import subprocess
import tempfile

VERIF = os.path.dirname(os.path.dirname(os.path.abspath(__file__)))
DRIVER = os.path.join(VERIF, "lean", ".lake", "build", "bin", "pta_driver")

_SAFE = set("abcdefghijklmnopqrstuvwxyzABCDEFGHIJKLMNOPQRSTUVWXYZ0123456789_.-")


def enc(s: str) -> str:
    if s == "":
        return "%e"
    out = []
    for c in s:
        if c in _SAFE:
            out.append(c)
        elif ord(c) < 256:
            out.append("%%%02x" % ord(c))
        else:
            out.append("%%u%04x" % ord(c))
    return "".join(out)


def dec(s: str) -> str:
    if s == "%e":
        return ""
    out = []
    i = 0
    while i < len(s):
        c = s[i]
        if c == "%":
            if s[i + 1] == "u":
                out.append(chr(int(s[i + 2 : i + 6], 16)))
                i += 6
            else:
                out.append(chr(int(s[i + 1 : i + 3], 16)))
                i += 3
        else:
            out.append(c)
            i += 1
    return "".join(out)


def enc_list(xs) -> str:
    return ",".join(enc(x) for x in xs)


def enc_pairs(ps) -> str:
    return ",".join(enc(a) + ">" + enc(b) for a, b in ps)


def enc_filter(kind: str, name: str) -> str:
    return kind + ":" + enc(name)


def enc_ops(ops) -> str:
    out = []
    for op, arg in ops:
        if arg is None:
            out.append(op)
        elif isinstance(arg, str):
            out.append(op + ":" + enc(arg))
        else:
            out.append(op + ":" + enc_list(arg))
    return ";".join(out)


def parse_answer(line: str) -> dict:
    d = {}
    for tok in line.strip().split(" "):
        if "=" in tok:
            k, v = tok.split("=", 1)
            d[k] = v
        elif tok:
            d[tok] = ""
    return d


def run_driver(lines: list[str]) -> list[str]:
    """Feed protocol lines to the compiled Lean driver; returns one answer per line."""
    if not lines:
        return []
    if not os.path.exists(DRIVER):
        raise RuntimeError("driver not built: " + DRIVER)
    with tempfile.NamedTemporaryFile("w", suffix=".in", delete=False, dir=os.environ.get("VERIF_TMP") or None) as f:
        f.write("\n".join(lines) + "\n")
        path = f.name
    try:
        with open(path) as fin:
            p = subprocess.run([DRIVER], stdin=fin, capture_output=True, text=True, check=False)
        if p.returncode != 0:
            raise RuntimeError(f"driver failed rc={p.returncode}: {p.stderr[:2000]}")
        out = p.stdout.split("\n")
        if out and out[-1] == "":
            out.pop()
        if len(out) != len(lines):
            raise RuntimeError(f"driver answered {len(out)} lines for {len(lines)} inputs")
        return out
    finally:
        os.unlink(path)
