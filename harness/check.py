"""./check Cxx --tier quick|thorough   (VERIF_SEED, VERIF_TIER, VERIF_REPO, VERIF_JOBS honoured)"""
from __future__ import annotations

import argparse
import importlib
import json
import os
import sys
import time
import traceback

from .core import Ctx, InfraError, LeanBuild, finish


def main():
    ap = argparse.ArgumentParser()
    ap.add_argument("prop")
    ap.add_argument("--tier", default=os.environ.get("VERIF_TIER") or "quick", choices=["quick", "thorough"])
    ap.add_argument("--replay")
    a = ap.parse_args()
    seed = int(os.environ.get("VERIF_SEED") or 0)
    prop = a.prop.upper()
    if a.replay:
        from .replay import replay

        sys.exit(replay(prop, a.replay))
    ctx = Ctx(prop, a.tier, seed)
    try:
        lean = LeanBuild.ensure()
        if a.tier == "thorough" and lean.get("build_ok"):
            # independent re-check of the compiled property theorems by the toolchain's external checker
            import subprocess

            from .core import LEAN_DIR

            pdir = os.path.join(LEAN_DIR, "PtaProofs", "Props")
            mods = sorted("PtaProofs.Props." + f[:-5] for f in os.listdir(pdir) if f.endswith(".lean") and f.startswith(prop))
            if prop in ("C01", "C02", "C03", "C04"):
                mods += ["PtaProofs.Props.E2E", "PtaProofs.Props.E2EWide"]
            if prop == "C04":
                mods.append("PtaProofs.Props.TablesWiring")
            if prop in ("C12", "C13"):
                mods.append("PtaProofs.Props.Tables")
            mods = [m for m in mods if os.path.exists(os.path.join(LEAN_DIR, *m.split(".")) + ".lean")]
            t0 = time.time()
            p = subprocess.run(["lake", "env", "leanchecker"] + mods, cwd=LEAN_DIR, capture_output=True, text=True, timeout=1800)
            lean["leanchecker"] = {"modules": mods, "rc": p.returncode, "wall_s": round(time.time() - t0, 1), "output": (p.stdout + p.stderr)[-500:]}
            if p.returncode != 0:
                raise InfraError("leanchecker rejected the compiled proofs: " + (p.stdout + p.stderr)[-1500:])
        mod = importlib.import_module(f"harness.props.{prop.lower()}")
        rule = mod.run(ctx)
        wiring = {"Generated.Wiring", "PtaProofs.Props.TablesWiring"}
        gb = set(lean.get("generated_broken") or ())
        mine = (gb & wiring) if prop == "C04" else (gb - wiring)
        if mine and prop in getattr(mod, "USES_GENERATED", ()):
            # the proof obligation regenerated from the source no longer checks
            ctx.broken.insert(0, {"kind": "proof-obligation-broken",
                                  "what": "lake build fails on the obligation regenerated from the Python source",
                                  "theorem": ("Pta.C04.generated_wiring_agree (PtaProofs/Props/TablesWiring.lean) over lean/Generated/Wiring.lean" if prop == "C04" else
                                              "Pta.C12.generated_flags_agree / Pta.C13.generated_config_agree (PtaProofs/Props/Tables.lean) over lean/Generated/*.lean"),
                                  "targets": sorted(mine), "log": lean.get("build_log", "")[-1500:]})
        code = finish(ctx, lean, rule, getattr(mod, "ASSUMPTIONS", ()))
        print(f"[{prop}] tier={a.tier} seed={seed} evaluations={sum(s['evaluations'] for s in ctx.streams)} "
              f"violations={len(ctx.violations)} broken={len(ctx.broken)} wall={time.time()-ctx.t0:.1f}s exit={code}")
        sys.exit(code)
    except InfraError as e:
        print(f"INFRA-ERROR property={prop}: {e}", file=sys.stderr)
        sys.exit(2)
    except Exception:  # noqa: BLE001
        traceback.print_exc()
        sys.exit(2)


if __name__ == "__main__":
    main()
