"""Interpreter-mode probe: `python [-O] -m harness.oprobe <section>` evaluates a fixed, deterministic list of cases with the real
library and prints one JSON list of canonical outcomes.  The checks of C01 / C03 / C05 / C07 / C13 run it twice - in a normal
interpreter and in one started with -O (assert statements compiled away, __debug__ False) - and compare the two lists: whether a
rule holds, which lines the report has and which configuration errors are raised must not depend on the interpreter's
optimisation mode.  Sections: rules (module rules, all shapes), layers (layer rules), diagrams (diagram rules), errors
(incomplete / contradictory / undefined specifications)."""
from __future__ import annotations

import json
import os
import sys
import tempfile


def _outcome(fn):
    from .impl import err_kind

    try:
        fn()
    except AssertionError as e:
        return "FAIL|" + "|".join(sorted(str(e).split("\n")))
    except Exception as e:  # noqa: BLE001
        return "ERR|" + err_kind(e)
    return "PASS"


NODES = ["p", "p.a", "p.a.x", "p.a.y", "p.b", "p.b.z", "p.c", "q", "q.m"]
IMPORTS = [("p.a.x", "p.b.z"), ("p.a.y", "q.m"), ("p.b", "p.c"), ("q.m", "p.c"), ("p.a.x", "p.a.y")]


def rules():
    from .impl import make_graph, rule_ops_for, run_rule_ops

    ev = make_graph(NODES, IMPORTS)
    out = []
    for verb in ("should", "only", "not"):
        for imp in (True, False):
            for exc in (False, True):
                for subs in (("N", ["p.a"]), ("P", ["p"]), ("N", ["p.a", "q"])):
                    for objs in (("N", ["p.b"]), ("N", ["p.b", "q"]), ("P", ["q"]), ("N", ["p.c"])):
                        r = run_rule_ops(rule_ops_for(verb, imp, exc, subs, objs), ev)
                        out.append(r[0] + ("|" + "|".join(sorted(r[1].split("\n"))) if r[0] == "FAIL" else "|" + str(r[1:]) if r[0] == "ERR" else ""))
    for imp in (True, False):
        for subs in (("N", ["p.a"]), ("N", ["p.c"]), ("P", ["q"]), ("N", ["p.b", "q"])):
            r = run_rule_ops(rule_ops_for("not", imp, False, subs, None, anything=True), ev)
            out.append(r[0] + ("|" + "|".join(sorted(r[1].split("\n"))) if r[0] == "FAIL" else ""))
    return out


def layers():
    from .impl import LayeredArchitecture, LayerRule, make_graph

    ev = make_graph(NODES, IMPORTS)

    def arch():
        return (LayeredArchitecture().layer("A").containing_modules(["p.a"]).layer("B").containing_modules("p.b")
                .layer("C").have_modules_with_names_matching(r"p\.c$").layer("Q").containing_modules(["q"]))

    out = []
    verbs = ("should", "should_only", "should_not")
    for v in verbs:
        for subj in ("A", "B", "Q"):
            for acc in ("access_layers_that", "be_accessed_by_layers_that", "access_layers_except_layers_that", "be_accessed_by_layers_except_layers_that"):
                for objs in (["B"], ["C"], ["B", "Q"], ["C", "A"]):
                    def go(v=v, subj=subj, acc=acc, objs=objs):
                        r = LayerRule().based_on(arch()).layers_that().are_named(subj)
                        r = getattr(r, v)()
                        getattr(r, acc)().are_named(objs).assert_applies(ev)
                    out.append(_outcome(go))
    for subj in ("A", "B", "C", "Q"):
        for acc in ("access_any_layer", "be_accessed_by_any_layer"):
            def go(subj=subj, acc=acc):
                r = LayerRule().based_on(arch()).layers_that().are_named(subj).should_not()
                getattr(r, acc)().assert_applies(ev)
            out.append(_outcome(go))
    return out


DIAGRAMS = [
    "@startuml\n[a] --> [b]\n[b] --> [c]\n@enduml\n",
    "@startuml\n[a] --> [c]\n[q]\n@enduml\n",
    "@startuml\ncomponent [a] as x\nx -> [b]\n[c] <-- [b]\n@enduml\n",
    "@startuml\n[a]\n[b]\n[c]\n@enduml\n",
    "no tags at all\n[a] --> [b]\n",
]


def diagrams():
    from pathlib import Path

    from .impl import DiagramRule, make_graph

    ev = make_graph(NODES, IMPORTS)
    out = []
    with tempfile.TemporaryDirectory(dir="/dev/shm" if os.path.isdir("/dev/shm") else None) as tmp:
        for i, text in enumerate(DIAGRAMS):
            f = Path(tmp, f"d{i}.puml")
            f.write_text(text)
            for so in (True, False):
                out.append(_outcome(lambda: DiagramRule(should_only_rule=so).from_file(f).with_base_module("p").assert_applies(ev)))
        out.append(_outcome(lambda: DiagramRule().assert_applies(ev)))
    return out


def errors():
    from .impl import LayeredArchitecture, LayerRule, Rule, make_graph

    ev = make_graph(NODES, IMPORTS)
    R = Rule
    cases = [
        lambda: R().assert_applies(ev),
        lambda: R().modules_that().are_named("p.a").assert_applies(ev),
        lambda: R().modules_that().are_named("p.a").should().assert_applies(ev),
        lambda: R().modules_that().are_named("p.a").should().import_modules_that().assert_applies(ev),
        lambda: R().modules_that().are_named("p.a").should().import_modules_that().are_named("nope").assert_applies(ev),
        lambda: R().modules_that().are_named("nope").should_not().import_modules_that().are_named("p.b").assert_applies(ev),
        lambda: R().modules_that().are_named("nope").should_not().import_anything().assert_applies(ev),
        lambda: R().modules_that().are_named(["p.a", "p.a.nope"]).should_not().import_anything().assert_applies(ev),
        lambda: R().modules_that().are_named("p.a").should().import_anything().assert_applies(ev),
        lambda: R().modules_that().are_named("p.a").should_only().be_imported_by_anything().assert_applies(ev),
        lambda: R().modules_that().have_name_matching("zzz.*").should_not().import_modules_that().are_named("p.b").assert_applies(ev),
        lambda: R().modules_that().are_named("p.a").should_not().import_modules_that().have_name_matching("zzz").assert_applies(ev),
        lambda: R().modules_that().are_named([]).should_not().import_modules_that().are_named("p.b").assert_applies(ev),
        lambda: R().modules_that().are_named("p.a").should_not().import_modules_that().are_named([]).assert_applies(ev),
        lambda: R().modules_that().are_sub_modules_of("nope").should().be_imported_by_modules_that().are_named("q").assert_applies(ev),
        lambda: LayerRule().assert_applies(ev),
        lambda: LayerRule().layers_that(),
        lambda: LayerRule().based_on(LayeredArchitecture().layer("A").containing_modules("p.a")).layers_that().are_named("Z").should_not().access_any_layer().assert_applies(ev),
        lambda: LayerRule().based_on(LayeredArchitecture().layer("A").containing_modules("p.a")).layers_that().are_named("A").should_not().access_layers_that().are_named("Z").assert_applies(ev),
        lambda: LayerRule().based_on(LayeredArchitecture().layer("A").containing_modules("nope")).layers_that().are_named("A").should_not().access_any_layer().assert_applies(ev),
        lambda: LayeredArchitecture().layer("A").layer("B"),
        lambda: LayeredArchitecture().layer("A").containing_modules("p.a").layer("A"),
        lambda: LayeredArchitecture().layer("A").containing_modules("p.a").layer("B").containing_modules(["p.a"]),
        lambda: LayeredArchitecture().containing_modules("p.a"),
        lambda: LayerRule().based_on(LayeredArchitecture().layer("A").containing_modules("p.a")).layers_that().are_named("A").are_named("A"),
    ]
    out = [_outcome(c) for c in cases]
    from .impl import Project, get_evaluable_architecture

    with Project({"proj/__init__.py": "", "proj/a.py": "import os\n", "proj/sub/__init__.py": ""}) as pr:
        root, sub = pr.path("proj"), pr.path("proj/sub")
        for kw in ({"exclusions": ("*x*",), "regex_exclusions": ("x",)}, {"external_exclusions": ("os",)},
                   {"exclude_external_libraries": False, "external_exclusions": ("os",), "regex_external_exclusions": ("os",)},
                   {"regex_external_exclusions": ("os",)}):
            out.append(_outcome(lambda: get_evaluable_architecture(root, root, **kw)))
        out.append(_outcome(lambda: get_evaluable_architecture(sub, root)))
    return out


SECTIONS = {"rules": rules, "layers": layers, "diagrams": diagrams, "errors": errors}

if __name__ == "__main__":
    print(json.dumps({"optimised": not __debug__, "outcomes": SECTIONS[sys.argv[1]]()}))
