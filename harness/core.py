"""Check infrastructure: Lean build + audit, known findings, streams, evidence, replays, verdict."""
from __future__ import annotations

import fcntl
import hashlib
import json
import multiprocessing as mp
import os
import random
import re
import subprocess
import sys
import time

from .proto import VERIF, run_driver

LEAN_DIR = os.path.join(VERIF, "lean")
EVIDENCE_DIR = os.path.join(VERIF, "evidence")
REPLAY_DIR = os.path.join(VERIF, "replays")
KNOWN = os.path.join(VERIF, "known_findings.json")

ALLOWED_AXIOMS = {"propext", "Classical.choice", "Quot.sound"}
FORBIDDEN = re.compile(r"\b(sorry|admit|native_decide|bv_decide|implemented_by|unsafe)\b|^\s*axiom\s|maxHeartbeats\s+0\b")

TRUSTED_BASE = [
    "Lean 4.33.0 kernel (lake build); axioms of every property theorem audited each run: subset of {propext, Classical.choice, Quot.sound}",
    "no sorry/admit/axiom/native_decide/bv_decide/implemented_by/unsafe in lean/ (source scan each run)",
    "hand-written executable model lean/PtaModel/* of the Python code: agreement with /repo is established by the correspondence run of this check (differential testing; exhaustive only where stated), not proved",
    "Python harness (generators, canonicalisers, line protocol) and lean/Driver (protocol parser, renderer)",
    "modelled, not verified: CPython re / ast / pathlib / sorted / dict order, networkx DiGraph as a container, the drawing backend",
]


class InfraError(Exception):
    """Infrastructure failure (exit 2) - never a VIOLATION."""


# --------------------------------------------------------------------------------------- lean
def _run(cmd, cwd=None, timeout=3600):
    return subprocess.run(cmd, cwd=cwd, capture_output=True, text=True, timeout=timeout)


def strip_comments(src: str) -> str:
    # remove nested block comments /- ... -/ and line comments -- ...
    out = []
    i = 0
    depth = 0
    n = len(src)
    while i < n:
        if src.startswith("/-", i):
            depth += 1
            i += 2
        elif depth and src.startswith("-/", i):
            depth -= 1
            i += 2
        elif depth:
            if src[i] == "\n":
                out.append("\n")
            i += 1
        elif src.startswith("--", i):
            while i < n and src[i] != "\n":
                i += 1
        else:
            out.append(src[i])
            i += 1
    return "".join(out)


def scan_forbidden():
    hits = []
    for root, dirs, files in os.walk(LEAN_DIR):
        dirs[:] = [d for d in dirs if d != ".lake"]
        for f in files:
            if f.endswith(".lean"):
                p = os.path.join(root, f)
                code = strip_comments(open(p).read())
                # string literals may mention words; strip them
                code = re.sub(r'"(\\.|[^"\\])*"', '""', code)
                for ln, line in enumerate(code.split("\n"), 1):
                    if FORBIDDEN.search(line):
                        hits.append(f"{os.path.relpath(p, VERIF)}:{ln}: {line.strip()[:120]}")
    return hits


class LeanBuild:
    """Serialised `lake build` + axiom audit. Results are cached per process."""

    _done = None

    @classmethod
    def ensure(cls, regenerate=True):
        if cls._done is not None:
            return cls._done
        os.makedirs(os.path.join(LEAN_DIR, ".lake"), exist_ok=True)
        lock = open(os.path.join(LEAN_DIR, ".build.lock"), "w")
        fcntl.flock(lock, fcntl.LOCK_EX)
        try:
            info = {"generated": None, "generated_broken": None}
            if regenerate:
                from . import translate_config, translate_flags, translate_wiring

                info["generated"] = translate_flags.regenerate()
                info["generated_config"] = translate_config.regenerate()
                info["generated_wiring"] = translate_wiring.regenerate()
            t0 = time.time()
            p = _run(["lake", "build"], cwd=LEAN_DIR)
            info["build_s"] = round(time.time() - t0, 1)
            info["build_ok"] = p.returncode == 0
            info["build_log"] = (p.stdout + p.stderr)[-6000:]
            if p.returncode != 0:
                # is the failure caused by the regenerated file (a broken proof obligation)?
                log = p.stdout + p.stderr
                failing = set(re.findall(r"^- (\S+)$", log, re.M))
                info["failing_targets"] = sorted(failing)
                gen_related = {t for t in failing if t.startswith("Generated") or t in ("PtaProofs.Props.Tables", "PtaProofs.Props.TablesWiring")}
                if failing and failing <= gen_related | {"PtaProofs", "PtaProofs.Audit"} and gen_related:
                    info["generated_broken"] = sorted(gen_related)
                    # rebuild everything that does not depend on Generated so the driver is usable
                    p2 = _run(["lake", "build", "pta_driver"], cwd=LEAN_DIR)
                    if p2.returncode != 0:
                        raise InfraError("lake build pta_driver failed:\n" + (p2.stdout + p2.stderr)[-3000:])
                else:
                    raise InfraError("lake build failed (not caused by Generated/*):\n" + log[-4000:])
            hits = scan_forbidden()
            if hits:
                raise InfraError("forbidden tokens in Lean sources:\n" + "\n".join(hits))
            info["axioms"] = cls._audit() if info["build_ok"] else {}
            cls._done = info
            return info
        finally:
            fcntl.flock(lock, fcntl.LOCK_UN)
            lock.close()

    @staticmethod
    def _audit():
        """Parse `#print axioms` output of PtaProofs/Audit.lean (re-elaborated with `lake env lean`)."""
        audit = os.path.join(LEAN_DIR, "PtaProofs", "Audit.lean")
        if not os.path.exists(audit):
            return {}
        cache = os.path.join(LEAN_DIR, ".lake", "audit.json")
        key = hashlib.sha256()
        for root, dirs, files in os.walk(LEAN_DIR):
            dirs[:] = sorted(d for d in dirs if d != ".lake")
            for f in sorted(files):
                if f.endswith(".lean"):
                    key.update(open(os.path.join(root, f), "rb").read())
        digest = key.hexdigest()
        if os.path.exists(cache):
            try:
                c = json.load(open(cache))
                if c.get("digest") == digest:
                    return c["axioms"]
            except Exception:
                pass
        p = _run(["lake", "env", "lean", audit], cwd=LEAN_DIR)
        if p.returncode != 0:
            errs = [l for l in (p.stdout + p.stderr).split("\n") if "error" in l]
            raise InfraError("axiom audit failed:\n" + "\n".join(errs[:12]))
        out = p.stdout
        axioms = {}
        for m in re.finditer(r"'([^']+)' depends on axioms: \[([^\]]*)\]", out):
            axioms[m.group(1)] = [a.strip() for a in m.group(2).split(",") if a.strip()]
        for m in re.finditer(r"'([^']+)' does not depend on any axioms", out):
            axioms[m.group(1)] = []
        json.dump({"digest": digest, "axioms": axioms}, open(cache, "w"))
        return axioms


# theorems that compose several properties are counted for each of them
SHARED_NAMESPACES = {"pta.e2e.": ("c01", "c02", "c03", "c04")}


def theorems_for(prop_id: str, axioms: dict):
    """Theorems of a property = names starting with Pta.<id>. in the audit (case-insensitive id prefix)."""
    pref = prop_id.lower()
    out = {}
    for name, ax in axioms.items():
        if any(name.lower().startswith(ns) and pref in props for ns, props in SHARED_NAMESPACES.items()):
            out[name] = ax
            continue
        short = name.split(".")[-1].lower()
        ns = name.lower()
        if f".{pref}." in ns or short.startswith(pref + "_") or short == pref:
            out[name] = ax
    return out


# --------------------------------------------------------------------------------------- findings
def load_known():
    if not os.path.exists(KNOWN):
        return []
    return json.load(open(KNOWN))["findings"]


# --------------------------------------------------------------------------------------- context
class Ctx:
    def __init__(self, prop, tier, seed, jobs=None):
        self.prop = prop
        self.tier = tier
        self.seed = seed
        self.jobs = jobs or int(os.environ.get("VERIF_JOBS") or os.cpu_count() or 4)
        self.t0 = time.time()
        self.budget = float(os.environ.get("VERIF_BUDGET") or (240 if tier == "quick" else 1500))
        self.violations = []       # dicts (written as replay files)
        self.broken = []           # correspondence / obligation breaks without a failing input (yet)
        self.known_lines = []
        self.streams = []          # per stream stats
        self.samples = []
        self.drift = []            # out-of-domain disagreements (information only)
        self.notes = []
        # source drift: files of the repository whose AST differs from the tree the model was written against.
        # It only decides how hard the correspondence / failing-input search looks (never a violation by itself).
        self.scale = 1
        self.changed_sources = []
        try:
            from . import srcmap

            repo = os.environ.get("VERIF_REPO") or "/repo"
            self.changed_sources = srcmap.changed(repo)
            if self.changed_sources:
                anchored = set(self.changed_sources) & srcmap.anchors(prop)
                self.scale = 8 if anchored else 3
                if tier == "quick" and not os.environ.get("VERIF_BUDGET"):
                    self.budget = 480
                self.notes.append(f"source drift: {self.changed_sources} differ from srcmap.json "
                                  f"({'anchored for this property' if anchored else 'not anchored here'}); streams scaled x{self.scale}")
        except Exception as e:  # noqa: BLE001
            self.notes.append(f"source fingerprinting unavailable: {e}")

    def rng(self, tag=""):
        h = hashlib.sha256(f"{self.prop}|{self.seed}|{tag}".encode()).digest()
        return random.Random(int.from_bytes(h[:8], "big"))

    def left(self):
        return self.budget - (time.time() - self.t0)

    def quick(self):
        return self.tier == "quick"

    def size(self, q: int, t: int) -> int:
        """stream size: q in the quick tier, t in the thorough tier; the quick size is scaled up (never beyond t)
        when the repository's sources differ from the tree the model was written against"""
        if self.tier != "quick":
            return t
        return min(t, q * self.scale)


# --------------------------------------------------------------------------------------- streams
def _worker(args):
    fn, chunk = args
    return [fn(c) for c in chunk]


def pmap(fn, items, jobs, chunk=200):
    """Parallel map preserving order; fn must be a module-level function."""
    items = list(items)
    if jobs <= 1 or len(items) < 2 * chunk:
        return [fn(c) for c in items]
    chunks = [items[i : i + chunk] for i in range(0, len(items), chunk)]
    with mp.get_context("fork").Pool(jobs) as pool:
        res = pool.map(_worker, [(fn, c) for c in chunks], chunksize=1)
    out = []
    for r in res:
        out.extend(r)
    return out


class Stream:
    """One correspondence stream: cases -> impl outcome, model/spec outcome, judgement."""

    def __init__(self, ctx, name, exhaustive=False):
        self.ctx = ctx
        self.name = name
        self.exhaustive = exhaustive
        self.evaluations = 0
        self.nontrivial = set()
        self.hist = {}
        self.t0 = time.time()

    def count(self, key, n=1):
        self.hist[key] = self.hist.get(key, 0) + n

    def finish(self):
        st = {
            "stream": self.name,
            "evaluations": self.evaluations,
            "distinct_nontrivial": len(self.nontrivial),
            "exhaustive": self.exhaustive,
            "histogram": dict(sorted(self.hist.items())),
            "wall_s": round(time.time() - self.t0, 2),
        }
        self.ctx.streams.append(st)
        return st


def digest(x) -> str:
    return hashlib.sha1(repr(x).encode()).hexdigest()[:16]


# --------------------------------------------------------------------------------------- replays / evidence
def write_replay(ctx: Ctx, kind: str, payload: dict) -> str:
    os.makedirs(REPLAY_DIR, exist_ok=True)
    n = len([f for f in os.listdir(REPLAY_DIR) if f.startswith(f"{ctx.prop}-{ctx.seed}-")])
    path = os.path.join(REPLAY_DIR, f"{ctx.prop}-{ctx.seed}-{n}.json")
    doc = {"property": ctx.prop, "kind": kind, "tier": ctx.tier, "seed": ctx.seed}
    doc.update(payload)
    json.dump(doc, open(path, "w"), indent=1, sort_keys=True, default=str)
    return path


def finish(ctx: Ctx, lean_info: dict, rule: str, extra_assumptions=(), checker_cmd=None):
    """Write evidence, print VIOLATION / KNOWN-FINDING lines, return exit code."""
    thms = theorems_for(ctx.prop, lean_info.get("axioms", {}))
    bad_axioms = {t: a for t, a in thms.items() if not set(a) <= ALLOWED_AXIOMS}
    if bad_axioms:
        raise InfraError(f"theorems with unaccepted axioms: {bad_axioms}")
    obligations = len(thms)
    discharged = len(thms) if lean_info.get("build_ok") else 0

    exit_code = 0
    lines = []
    for kl in ctx.known_lines:
        lines.append(kl)
    for v in ctx.violations:
        path = write_replay(ctx, v.get("kind", "property-violation"), v)
        lines.append(f"VIOLATION property={ctx.prop} replay={os.path.relpath(path, VERIF)}")
        exit_code = 1
    if not ctx.violations and ctx.broken:
        b = ctx.broken[0]
        b = dict(b)
        b["all_broken"] = [x.get("what") for x in ctx.broken[:20]]
        path = write_replay(ctx, b.get("kind", "correspondence-broken"), b)
        lines.append(f"VIOLATION property={ctx.prop} replay={os.path.relpath(path, VERIF)} no-failing-input-found")
        exit_code = 1

    evaluations = sum(s["evaluations"] for s in ctx.streams)
    nontrivial = sum(s["distinct_nontrivial"] for s in ctx.streams)
    cov = {
        "obligations": obligations,
        "discharged": discharged,
        "checker_cmd": checker_cmd or "cd lean && lake build && lake env lean PtaProofs/Audit.lean  (#print axioms)",
        "trusted_base": TRUSTED_BASE,
        "theorems": {t: a for t, a in sorted(thms.items())},
        "evaluations": evaluations,
        "distinct_nontrivial": nontrivial,
        "traces_validated_against_impl": evaluations,
        "rule": rule,
        "samples": ctx.samples[:8] or ["(no sample recorded)"],
        "streams": ctx.streams,
        "exhaustive": any(s["exhaustive"] for s in ctx.streams),
        "out_of_domain_drift": ctx.drift[:10],
        "generated": lean_info.get("generated"),
        "generated_config": lean_info.get("generated_config"),
        "generated_wiring": lean_info.get("generated_wiring"),
        "leanchecker": lean_info.get("leanchecker"),
        "generated_broken": lean_info.get("generated_broken"),
        "known_findings": ctx.known_lines,
        "notes": ctx.notes,
        "changed_sources": ctx.changed_sources,
        "lean_build_s": lean_info.get("build_s"),
    }
    ev = {
        "property_id": ctx.prop,
        "tier": ctx.tier,
        "seed": ctx.seed,
        "level": "proof",
        "coverage": cov,
        "assumptions": list(extra_assumptions),
        "wall_s": round(time.time() - ctx.t0, 2),
        "violations": len(ctx.violations) + (1 if (not ctx.violations and ctx.broken) else 0),
    }
    os.makedirs(EVIDENCE_DIR, exist_ok=True)
    json.dump(ev, open(os.path.join(EVIDENCE_DIR, f"{ctx.prop}.json"), "w"), indent=1, sort_keys=True, default=str)
    for ln in lines:
        print(ln)
    sys.stdout.flush()
    return exit_code
