"""Implementation-side evaluation and protocol lines for LayeredArchitecture / LayerRule cases."""
from __future__ import annotations

import re

from . import gen
from .proto import enc, enc_list, enc_pairs

# ----------------------------------------------------------------------------- LayeredArchitecture histories
# op forms: ("with",), ("layer", n), ("cms", "x") str arg, ("cml", [..]) list arg, ("rx", r)


def larch_line(ops) -> str:
    parts = []
    for op in ops:
        if op[0] == "with":
            parts.append("with")
        elif op[0] == "cml":
            parts.append("cml:" + enc_list(op[1]) if op[1] else "cml")
        else:
            parts.append(op[0] + ":" + enc(op[1]))
    return "larch ops=" + ";".join(parts)


def build_larch(ops):
    """-> (arch or None, ('ERR', kind, index) or None)"""
    from .impl import LayeredArchitecture, err_kind

    a = LayeredArchitecture()
    for i, op in enumerate(ops):
        try:
            if op[0] == "with":
                a = a.with_layer()
            elif op[0] == "layer":
                a = a.layer(op[1])
            elif op[0] in ("cms", "cml"):
                a = a.containing_modules(op[1])
            elif op[0] == "rx":
                a = a.have_modules_with_names_matching(op[1])
        except Exception as e:  # noqa: BLE001
            return None, ("ERR", err_kind(e), i)
        # reading the definition between two builder calls is harmless (also while a layer is still open)
        try:
            _ = a.layer_mapping
        except Exception:  # noqa: BLE001
            pass
    return a, None


def larch_after_errors(ops):
    """a builder object that keeps being used after a call was rejected: (indices of the rejected calls, str(arch) at the end);
    each rejected call must leave the definition as it was"""
    from .impl import LayeredArchitecture

    a = LayeredArchitecture()
    rejected = []
    for i, op in enumerate(ops):
        try:
            if op[0] == "with":
                a.with_layer()
            elif op[0] == "layer":
                a.layer(op[1])
            elif op[0] in ("cms", "cml"):
                a.containing_modules(op[1])
            elif op[0] == "rx":
                a.have_modules_with_names_matching(op[1])
        except Exception:  # noqa: BLE001
            rejected.append(i)
    try:
        return rejected, str(a)
    except Exception as e:  # noqa: BLE001
        return rejected, "STR-ERR:" + type(e).__name__


def impl_larch(ops) -> str:
    a, err = build_larch(ops)
    if err:
        return f"ERR:{err[1]} I={err[2]}"
    names = []
    for op in ops:
        if op[0] == "layer" and op[1] not in names:
            names.append(op[1])
    listing = []
    try:
        for n in names:
            fs = a[n]
            listing.append(enc(n) + "~" + ",".join(("R:" if f.identifier_is_regex else "N:") + enc(f.identifier) for f in fs))
            # the mapping handed to layer rules lists the same modules
            via_mapping = [x.identifier for x in a.layer_mapping.get_module_filters(n)]
            if via_mapping != [f.identifier for f in fs]:
                return f"OK:MAPPING-DIFFERS:{enc(n)}:{','.join(enc(x) for x in via_mapping)} I={len(ops)}"
        s = str(a)
        want = "Layered Architecture: " + "; ".join(f"Layer {n}: [{', '.join(f.identifier for f in a[n])}]" for n in names)
    except Exception as e:  # noqa: BLE001  (the object the history ends with does not list its layers)
        return f"OK:UNLISTABLE:{type(a).__name__}:{type(e).__name__} I={len(ops)}"
    return "OK:" + ";".join(listing) + f" I={len(ops)}" + ("" if s == want else " STR-MISMATCH:" + enc(s))


# ----------------------------------------------------------------------------- layer rules
# arch: list of (layer, kind, payload): kind "N" payload list of names, kind "R" payload regex
# lops: list of (op, arg)

LOPS = {
    "lt": lambda r, a: r.layers_that(),
    "named": lambda r, a: r.are_named(a),
    "namedl": lambda r, a: r.are_named(list(a)),
    "should": lambda r, a: r.should(),
    "only": lambda r, a: r.should_only(),
    "not": lambda r, a: r.should_not(),
    "acc": lambda r, a: r.access_layers_that(),
    "accby": lambda r, a: r.be_accessed_by_layers_that(),
    "accx": lambda r, a: r.access_layers_except_layers_that(),
    "accbyx": lambda r, a: r.be_accessed_by_layers_except_layers_that(),
    "accany": lambda r, a: r.access_any_layer(),
    "accbyany": lambda r, a: r.be_accessed_by_any_layer(),
}


def make_arch(arch, a=None):
    """builds the layers `arch` (onto the LayeredArchitecture object `a` if one is given)"""
    from .impl import LayeredArchitecture

    if a is None:
        a = LayeredArchitecture()
    for name, kind, payload in arch:
        a = a.layer(name)
        if kind == "N":
            # a single module is passed as a plain string for every second layer (documented as equivalent to a one-element
            # list); the choice depends on the layer name only, so that it is the same under renamings of the modules
            as_string = len(payload) == 1 and (len(name) + sum(map(ord, name))) % 2 == 0
            a = a.containing_modules(payload[0] if as_string else list(payload))
        else:
            a = a.have_modules_with_names_matching(payload)
    return a


def layer_rule_ops(verb, imp, exc, subj, objs, anything=False, obj_as_list=True):
    ops = [("based", None), ("lt", None), ("named", subj), (verb, None)]
    if anything:
        ops.append(("accany" if imp else "accbyany", None))
    else:
        ops.append(({(True, False): "acc", (False, False): "accby", (True, True): "accx", (False, True): "accbyx"}[(imp, exc)], None))
        if len(objs) == 1 and not obj_as_list:
            ops.append(("named", objs[0]))
        else:
            ops.append(("namedl", list(objs)))
    return ops


def impl_layer(case) -> str:
    from .impl import LayerRule, err_kind, make_graph, parse_message

    g = make_graph(case["nodes"], case["imps"], case.get("lim"))
    late = case.get("late", 0)
    ops = case["lops"]
    if late and not (len(ops) >= 2 and ops[0][0] == "based" and ops[1][0] == "lt"):
        late = 0
    try:
        arch = make_arch(case["arch"][: len(case["arch"]) - late] if late else case["arch"])
    except Exception as e:  # noqa: BLE001
        return "ARCHERR:" + type(e).__name__
    r = LayerRule()
    for i, (op, arg) in enumerate(ops):
        if late and i == 2:
            # the rule has been started (based_on(arch).layers_that()); only now does the SAME architecture object receive its
            # remaining layers - the rule must see the architecture as it is when the rule is completed and applied
            try:
                make_arch(case["arch"][len(case["arch"]) - late:], arch)
            except Exception as e:  # noqa: BLE001
                return "ARCHERR:" + type(e).__name__
        try:
            r = r.based_on(arch) if op == "based" else LOPS[op](r, arg)
        except AssertionError:
            raise
        except Exception as e:  # noqa: BLE001
            return f"ERR:{err_kind(e)} I={i}"
    try:
        r.assert_applies(g)
    except AssertionError as e:
        return "FAIL:" + ";".join(parse_message(str(e))) + f" I={len(ops)}"
    except Exception as e:  # noqa: BLE001
        return f"ERR:{err_kind(e)} I={len(ops)}"
    return f"PASS I={len(ops)}"


def layer_line(case) -> str:
    nodes = case["nodes"]
    parts = ["layer", "nodes=" + enc_list(nodes), "imps=" + enc_pairs(case["imps"])]
    if case.get("lim") is not None:
        parts.append(f"lim={case['lim']}")
    arch = []
    pats = []
    for name, kind, payload in case["arch"]:
        if kind == "N":
            arch.append(enc(name) + "~" + ",".join("N:" + enc(m) for m in payload))
        else:
            arch.append(enc(name) + "~R:" + enc(payload))
            pats.append(payload)
    parts.append("arch=" + ";".join(arch))
    lops = []
    for op, arg in case["lops"]:
        if arg is None:
            lops.append(op)
        elif isinstance(arg, str):
            lops.append(op + ":" + enc(arg))
        else:
            lops.append(op + ":" + enc_list(arg) if arg else op)
    parts.append("lops=" + ";".join(lops))
    if pats:
        parts.append("mtab=" + ";".join(enc(p) + "~" + enc_list([m for m in graph_nodes(case) if re.match(p, m)]) for p in pats))
    sp = case.get("spec")
    if sp:
        res = []
        for name, kind, payload in case["arch"]:
            ms = payload if kind == "N" else [m for m in graph_nodes(case) if re.match(payload, m)]
            res.append(enc(name) + "~" + enc_list(ms))
        parts += ["lv=" + sp["lv"], "ld=" + sp["ld"], "lx=" + sp["lx"], "lsub=" + enc(sp["lsub"]),
                  "lobj=" + enc_list(sp["lobj"]), "la=" + sp["la"], "lres=" + ";".join(res)]
    return " ".join(parts)


def graph_nodes(case):
    """node set of the built graph (ancestors are added by the constructor; level limit flattens)"""
    out = []
    lim = case.get("lim")
    for n in case["nodes"]:
        for m in gen.parents(n) + [n]:
            if lim is not None:
                m = ".".join(m.split(".")[: lim + 1])
            if m not in out:
                out.append(m)
    return out
