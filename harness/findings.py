"""Witness inputs of the findings listed in known_findings.json.

Each witness is a function that runs the *real* code on one concrete input and returns None when the
property holds on that input, or a short string saying what fails. They run first in every check of
the property they belong to (they are the minimised corpus). A failing witness of an entry recorded
as `fixed` is a regression and reported as a VIOLATION; a failing witness of an `open` entry is
printed as KNOWN-FINDING."""
from __future__ import annotations

import os

from . import impl
from .impl import (
    LayeredArchitecture,
    LayerRule,
    Project,
    PumlParser,
    Rule,
    graph_snapshot,
    make_graph,
    run_rule_ops,
    rule_ops_for,
    scan,
)


def _imports(ev):
    return set(graph_snapshot(ev)[1])


def _nodes(ev):
    return set(graph_snapshot(ev)[0])


# ----------------------------------------------------------------------------- C02
def w_c02a():
    body = (
        "if X:\n    pass\nelse:\n    import proj.b\n"
        "try:\n    pass\nexcept E:\n    import proj.c\nelse:\n    import proj.d\nfinally:\n    import proj.e\n"
        "for i in X:\n    pass\nelse:\n    import proj.f\n"
        "while X:\n    pass\nelse:\n    import proj.g\n"
        "match X:\n    case 1:\n        import proj.h\n"
    )
    files = {"proj/__init__.py": "", "proj/a.py": body}
    for n in "bcdefgh":
        files[f"proj/{n}.py"] = ""
    with Project(files) as p:
        got = {v for (u, v) in _imports(scan(p, "proj")) if u == "proj.a"}
    want = {f"proj.{n}" for n in "bcdefgh"}
    if got != want:
        return f"imports nested in else/except/finally/loop-else/case branches are lost: missing {sorted(want - got)}"


def w_c02b():
    files = {
        "proj/__init__.py": "",
        "proj/a.py": "from proj.pkg import mod\nfrom .pkg import other\nfrom proj.pkg import func\n",
        "proj/pkg/__init__.py": "",
        "proj/pkg/mod.py": "",
        "proj/pkg/other.py": "",
    }
    with Project(files) as p:
        got = {v for (u, v) in _imports(scan(p, "proj")) if u == "proj.a"}
    want = {"proj.pkg.mod", "proj.pkg.other", "proj.pkg"}
    if got != want:
        return f"'from P import sub' must name P.sub when it is a scanned module: got {sorted(got)}, want {sorted(want)}"


# ----------------------------------------------------------------------------- C04
def w_c04a():
    with Project({"proj/ab/m.py": "", "proj/ab/pkg/x.py": ""}) as p:
        nodes, imps, hier = graph_snapshot(scan(p, "proj", "proj/ab/pkg"))
    want = {("proj", "proj.ab"), ("proj.ab", "proj.ab.pkg"), ("proj.ab.pkg", "proj.ab.pkg.x")}
    if set(hier) != want:
        return f"ancestor packages of module_path are not linked: hierarchy edges {hier}"


# ----------------------------------------------------------------------------- C03
def w_c03():
    g = make_graph(["M", "P", "Q", "X"], [("Q", "P"), ("P", "M")])
    out = run_rule_ops(rule_ops_for("not", False, True, ("N", ["M"]), ("N", ["X"])), g)
    if out[0] != "FAIL":
        return f"expected a failing verdict, got {out}"
    items = impl.parse_message(out[1])
    want = ["imp|P|M|b"]
    if items != want:
        return f"report names imports unrelated to the subject: {items} (want {want})"


# ----------------------------------------------------------------------------- C05
def _layer_rule(arch, subj, verb, how, objs=None):
    r = LayerRule().based_on(arch).layers_that().are_named(subj)
    r = getattr(r, verb)()
    r = getattr(r, how)()
    if objs is not None:
        r = r.are_named(objs)
    return r


def _outcome(fn):
    try:
        fn()
    except AssertionError as e:
        return ("FAIL", str(e))
    except Exception as e:  # noqa: BLE001
        return ("ERR", impl.err_kind(e), type(e).__name__)
    return ("PASS",)


def w_c05a():
    g = make_graph(["p", "p.a", "p.b", "p.c"], [("p.a", "p.b")])
    arch = (
        LayeredArchitecture()
        .layer("A").containing_modules(["p.a"])
        .layer("B").containing_modules(["p.b"])
        .layer("C").have_modules_with_names_matching(r"p\.c")
    )
    out = _outcome(lambda: _layer_rule(arch, "A", "should", "access_layers_that", "B").assert_applies(g))
    if out != ("PASS",):
        return f"a regex layer the rule does not mention makes evaluation fail: {out}"


def w_c05b():
    g = make_graph(["p", "p.a", "p.b", "p.c"], [("p.a", "p.b"), ("p.a", "p.c")])
    arch = (
        LayeredArchitecture()
        .layer("A").containing_modules(["p.a"])
        .layer("B").have_modules_with_names_matching(r"p\.b")
        .layer("C").containing_modules(["p.c"])
    )
    out = _outcome(lambda: _layer_rule(arch, "A", "should", "access_layers_that", ["B", "C"]).assert_applies(g))
    if out != ("PASS",):
        return f"object layers mixing a regex layer and a named layer: {out}"


def w_c05c():
    g = make_graph(["p", "p.a", "p.a.x", "p.a.y", "p.b"], [("p.a.x", "p.a.y")])
    arch = LayeredArchitecture().layer("A").containing_modules(["p.a.x", "p.a.y"]).layer("B").containing_modules(["p.b"])
    out = _outcome(lambda: _layer_rule(arch, "A", "should", "access_layers_except_layers_that", "B").assert_applies(g))
    if out[0] != "FAIL":
        return f"an import inside the subject layer is accepted as access to something else: {out}"


# ----------------------------------------------------------------------------- C06
def _parse_puml(text):
    with Project({"d.puml": text}) as p:
        r = PumlParser().parse(p.path("d.puml"))
    return set(r.all_modules), {k: set(v) for k, v in r.dependencies.items()}


def w_c06a():
    for text in (
        "@startuml\n[A] as a\na --> B\n[A] --> C\n@enduml",
        "@startuml\n[A] as a\n[A] --> C\na --> B\n@enduml",
    ):
        mods, deps = _parse_puml(text)
        if deps.get("A") != {"B", "C"}:
            return f"arrows of one component referred to by alias and by name are not merged: {deps}"


def w_c06b():
    mods, deps = _parse_puml("@startuml\n[src.A] --> [src.B]\ncomponent [src.C]\n@enduml")
    if mods != {"src.A", "src.B", "src.C"} or deps != {"src.A": {"src.B"}}:
        return f"dotted component names are not parsed: modules={sorted(mods)} deps={deps}"


# ----------------------------------------------------------------------------- C10
_C10_FILES = {
    "proj/__init__.py": "",
    "proj/a.py": "import os\nimport proj.b\n",
    "proj/b.py": "import ext.lib\n",
}


def _internal(ev, prefix="proj"):
    nodes, imps, _ = graph_snapshot(ev)
    ins = lambda n: n == prefix or n.startswith(prefix + ".")  # noqa: E731
    return sorted(n for n in nodes if ins(n)), sorted((u, v) for u, v in imps if ins(u) and ins(v))


def w_c10a():
    with Project(_C10_FILES) as p:
        base = _internal(scan(p, "proj"))
        got = _internal(scan(p, "proj", exclude_external_libraries=False, external_exclusions=("*a",)))
    if got != base:
        return f"an external exclusion pattern removes internal modules: {got} vs {base}"


def w_c10b():
    files = {
        "proj/__init__.py": "",
        "proj/x.py": "from . import helper\nimport proj.b\n",
        "proj/b.py": "",
        "proj/helper_holder.py": "",
    }
    with Project(files) as p:
        base = _internal(scan(p, "proj", exclusions=("*b.py",)))
        got = _internal(scan(p, "proj", exclusions=("*b.py",), exclude_external_libraries=False))
    if got != base:
        return f"including externals adds phantom/excluded internal modules: {got} vs {base}"


def w_c10c():
    files = {"proj/__init__.py": "", "proj/x.py": "import proj\nimport os\n"}
    with Project(files) as p:
        base = _internal(scan(p, "proj"))
        got = _internal(scan(p, "proj", exclude_external_libraries=False))
    if got != base:
        return f"an import of the root package exists only when externals are included: {got} vs {base}"


def w_c10d():
    files = {"proj/__init__.py": "", "proj/sub/__init__.py": "", "proj/sub/m.py": "from ..other.deep import x\n",
             "proj/other/__init__.py": "", "proj/other/deep.py": "x = 1\n"}
    with Project(files) as p:
        nodes, imps, hier = graph_snapshot(scan(p, "proj", "proj/sub", exclude_external_libraries=False))
    if "other" in nodes or any(u == "other" for u, _ in hier):
        return f"relative import out of module_path adds phantom module 'other': nodes={nodes} hierarchy={hier}"


# ----------------------------------------------------------------------------- C11
def w_c11():
    g = make_graph(["p", "p.a", "p.a.x", "q"], [("p.a.x", "q")])
    compact = run_rule_ops(rule_ops_for("not", True, False, ("R", r"p\.a.*"), None, anything=True), g)
    expanded = run_rule_ops(rule_ops_for("not", True, False, ("N", ["p.a", "p.a.x"]), None, anything=True), g)
    if compact[0] != expanded[0] or compact[0] != "FAIL":
        return f"regex subject and its expansion disagree: regex={compact[0]} expansion={expanded[0]} (want FAIL)"


# ----------------------------------------------------------------------------- C13
def w_c13():
    g = make_graph(["a", "b"], [("a", "b")])
    bad = []
    for verb in ("should", "only"):
        for how in ("impany", "byany"):
            out = run_rule_ops([("mt", None), ("named", ["a"]), (verb, None), (how, None)], g)
            if out[0] != "ERR":
                bad.append((verb, how, out[0]))
    if bad:
        return f"'anything' with a verb other than should_not yields a verdict: {bad}"


def w_c13b():
    g = make_graph(["p", "p.a", "q"], [])
    out = run_rule_ops([("mt", None), ("named", ["p.a", "p.a.zz"]), ("not", None), ("impany", None)], g)
    if out[0] != "ERR":
        return f"rule naming the absent module p.a.zz returns a verdict: {out[0]}"


def w_c12a():
    g = make_graph(["p", "p.a", "p.a.x"], [("p.a.x", "p")])
    alias = run_rule_ops(rule_ops_for("not", True, False, ("P", ["p", "p.a"]), None, anything=True), g)
    spelt = run_rule_ops(rule_ops_for("not", True, True, ("P", ["p", "p.a"]), ("P", ["p", "p.a"])), g)
    if alias[0] != spelt[0] or alias[0] != "FAIL":
        return (f"sub modules of [p, p.a] should not import anything: {alias[0]}; the same rule spelt with 'except' the "
                f"subjects themselves: {spelt[0]} (import p.a.x -> p)")


# ----------------------------------------------------------------------------- C14
def w_c14a():
    g = make_graph(["p", "p.a", "p.ab", "p.c"], [("p.ab", "p.c")])
    out = run_rule_ops(rule_ops_for("not", True, False, ("N", ["p.a", "p.ab"]), None, anything=True), g)
    if out[0] != "FAIL":
        return f"subject p.ab dropped because 'p.a' is a substring of it: verdict {out[0]}"


def w_c14b():
    g = make_graph(["p", "p.a", "p.ab", "p.ab.x", "p.c"], [("p.ab.x", "p.c")])
    arch = LayeredArchitecture().layer("L1").containing_modules(["p.a"]).layer("L2").containing_modules(["p.c"])
    out = _outcome(lambda: _layer_rule(arch, "L2", "should_not", "be_accessed_by_any_layer").assert_applies(g))
    if out[0] != "FAIL" or "(no layer)" not in out[1] or '(layer "L1")' in out[1]:
        return f"module p.ab.x attributed to the layer of p.a: {out}"
    arch2 = LayeredArchitecture().layer("L1").containing_modules(["p.a"]).layer("L2").containing_modules(["p.ab"])
    out2 = _outcome(lambda: _layer_rule(arch2, "L1", "should_not", "be_accessed_by_layers_that", "L2").assert_applies(g))
    if out2[0] == "ERR":
        return f"sibling layers p.a / p.ab raise {out2}"


def _labels(nodes, aliases):
    import pytestarch.eval_structure.networkxgraph as nxg

    seen = {}
    orig = nxg.draw_networkx
    nxg.draw_networkx = lambda g, **kw: seen.update(kw)
    try:
        make_graph(nodes, []).visualize(aliases=aliases)
    finally:
        nxg.draw_networkx = orig
    return seen.get("labels")


def w_c14c():
    labels = _labels(["p", "p.a", "p.ab", "p.a.x"], {"p.a": "A"})
    want = {"p": "p", "p.a": "A", "p.ab": "p.ab", "p.a.x": "A.x"}
    if labels != want:
        return f"alias of p.a applied to sibling p.ab: {labels}"


def w_c14d():
    files = {
        "proj/__init__.py": "",
        "proj/sub/__init__.py": "",
        "proj/sub/m.py": "import proj.subx.foo\nimport zlib\n",
        "proj/subx/__init__.py": "",
        "proj/subx/foo.py": "",
    }
    with Project(files) as p:
        ev = scan(p, "proj", "proj/sub", exclude_external_libraries=False, external_exclusions=("proj.subx",))
        nodes, imps, _ = graph_snapshot(ev)
    if any(n.startswith("proj.subx") for n in nodes):
        return f"proj.subx.foo treated as internal to proj.sub (raw prefix): nodes={nodes}"


# ----------------------------------------------------------------------------- C16
def w_c16():
    def seq(calls):
        a = LayeredArchitecture()
        for i, (m, arg) in enumerate(calls):
            try:
                a = getattr(a, m)(arg)
            except Exception as e:  # noqa: BLE001
                return ("ERR", impl.err_kind(e), i)
        return ("OK", str(a))

    r1 = seq([("layer", "a"), ("containing_modules", "mod"), ("layer", "b"), ("containing_modules", "mod")])
    if r1 != ("ERR", "improperlyConfigured", 3):
        return f"module 'mod' assigned to two layers when passed as a string: {r1}"
    r2 = seq([("layer", "a"), ("containing_modules", ["m"]), ("layer", "b"), ("containing_modules", "mod")])
    if r2[0] != "OK":
        return f"'mod' rejected because it shares a character with module 'm': {r2}"


def w_c16b():
    arch = LayeredArchitecture().layer("A").containing_modules(["p.a"]).layer("B").containing_modules(["p.b"])
    r = LayerRule().based_on(arch).layers_that().are_named("A")
    try:
        r.are_named("B")
    except Exception as e:  # noqa: BLE001
        if impl.err_kind(e) == "improperlyConfigured":
            return None
        return f"second subject layer raises {type(e).__name__}"
    return "a second subject layer is accepted (layers_that().are_named('A').are_named('B'))"


# ----------------------------------------------------------------------------- C17 (same defect as C14c, label side)
def w_c17():
    labels = _labels(["p", "p.a", "p.a+b", "p.a.x"], {"p.a": "A", "p.a+b": "Z"})
    want = {"p": "p", "p.a": "A", "p.a+b": "Z", "p.a.x": "A.x"}
    if labels != want:
        return f"label of a module whose name contains a regex metacharacter: {labels}"


# ----------------------------------------------------------------------------- C09 / C15 (second round)
def w_c09a():
    files = {"r/app/a/x.py": "import r.app.b.y.z\n", "r/app/b/y/z.py": "import r.app.c\n",
             "r/app/c.py": "import r.app.a.gone\n"}
    with Project(files) as p:
        full = _imports(scan(p, "r", "r/app"))
        flat = _imports(scan(p, "r", "r/app", level_limit=1))
    want = {(".".join(u.split(".")[:3]), ".".join(v.split(".")[:3])) for u, v in full}
    want = {(u, v) for u, v in want if u != v}
    if flat != want:
        return (f"level_limit=1 is not the quotient of the full scan: an import of a non-module (r.app.a.gone) is flattened onto "
                f"the existing module r.app.a: extra edges {sorted(flat - want)}")


def w_c15a():
    g = make_graph(["pkg", "pkg.x", "pkg.y"], [("pkg.x", "pkg.y")])

    def run(order):
        arch = LayeredArchitecture()
        for name in order:
            if name == "A":
                arch = arch.layer("A").containing_modules(["pkg.x"])
            else:
                arch = arch.layer("B").have_modules_with_names_matching(r"pkg\.(x|y)$")
        return _outcome(lambda: _layer_rule(arch, "A", "should_not", "access_layers_that", "B").assert_applies(g))[:2]

    a, b = run("AB"), run("BA")
    if a != b:
        return f"layer rule outcome depends on the order in which overlapping layers were defined: A,B -> {a[0]}; B,A -> {b[0]}"


def w_c15b():
    import subprocess
    import sys

    code = ("import sys; sys.path.insert(0, %r); sys.path.insert(0, %r)\n"
            "from harness.props.c06 import impl_parse\n"
            "print(impl_parse('@startuml\\n[a] as x\\n[b] as x\\nx --> [c]\\n@enduml'))\n") % (impl.SRC, os.path.dirname(os.path.dirname(os.path.abspath(__file__))))
    outs = set()
    for hs in range(8):
        r = subprocess.run([sys.executable, "-c", code], env=dict(os.environ, PYTHONHASHSEED=str(hs)), capture_output=True, text=True)
        outs.add(r.stdout.strip() or r.stderr.strip()[-200:])
    if len(outs) > 1:
        return f"parse result of a diagram that declares one alias for two components depends on PYTHONHASHSEED: {sorted(outs)}"


def w_c08a():
    files = {"proj/__init__.py": "", "proj/a.py": "import proj.b\n", "proj/b.py": "", "proj/gen/x.py": "import proj.a\n"}
    with Project(files) as p:
        with_pattern = _nodes(scan(p, "proj", exclusions=("*gen*",)))
        without = _nodes(scan(p, "proj", exclusions=()))
    want = with_pattern | {"proj.gen", "proj.gen.x"}
    if without != want:
        return f"the scan without any exclusion pattern (exclusions=()) gives {sorted(without)}, expected {sorted(want)}"


def w_c10e():
    import os

    from .impl import get_evaluable_architecture

    files = {"proj/__init__.py": "", "proj/m.py": "import projx\nimport proj_ext.m\nimport os\n"}
    with Project(files) as p:
        cwd = os.getcwd()
        os.chdir(p.path())
        try:
            rel = _nodes(get_evaluable_architecture("proj", "proj", exclude_external_libraries=False))
        finally:
            os.chdir(cwd)
        ab = _nodes(scan(p, "proj", exclude_external_libraries=False))
    if rel != ab or "projx" not in rel or "proj_ext.m" not in rel:
        return (f"with a relative root_path and external libraries included, imported external modules whose name contains the root "
                f"directory's name are missing: relative {sorted(rel)}, absolute {sorted(ab)}")


def w_c08b():
    import os

    from .impl import get_evaluable_architecture

    files = {"proj/__init__.py": "", "proj/a.py": "", "store/f0.py": "import proj.a\n", "proj/genx/m.py": ""}
    with Project(files) as p:
        os.symlink(p.path("store/f0.py"), p.path("proj/gen_x.py"))
        by_link = _nodes(get_evaluable_architecture(p.path("proj"), p.path("proj"), exclusions=("*gen_x.py",)))
        by_target = _nodes(get_evaluable_architecture(p.path("proj"), p.path("proj"), exclusions=("*f0.py",)))
        cwd = os.getcwd()
        os.chdir(p.path())
        try:
            rel = _nodes(get_evaluable_architecture("proj", "proj", exclusions=("proj/a.py",)))
        finally:
            os.chdir(cwd)
    if "proj.gen_x" in by_link or "proj.gen_x" not in by_target or "proj.a" in rel:
        return (f"exclusion patterns are not matched against a file's path in the scanned tree: pattern on the link's name leaves {sorted(by_link)}, "
                f"pattern on the target's name leaves {sorted(by_target)}, relative root with 'proj/a.py' leaves {sorted(rel)}")


def w_c13c():
    from .impl import DiagramRule

    g = make_graph(["p", "p.a", "p.b"], [("p.a", "p.b")])
    with Project({"d.puml": "@startuml\n[ghost]\n@enduml\n"}) as p:
        out = _outcome(lambda: DiagramRule().from_file(p.path("d.puml")).with_base_module("p").assert_applies(g))
    if out[0] == "PASS":
        return "a diagram whose only component (p.ghost) is not a module of the architecture passes instead of raising a lookup error"


def w_c15c():
    g = make_graph(["a", "b", "c"], [("a", "b")])
    r = Rule()
    r.should_not()
    r.import_anything()
    first = _outcome(lambda: r.assert_applies(g))          # incomplete: a configuration error, as it must be
    r.modules_that()
    r.are_named("a")
    later = _outcome(lambda: r.assert_applies(g))
    f = Rule()
    f.should_not()
    f.import_anything()
    f.modules_that()
    f.are_named("a")
    fresh = _outcome(lambda: f.assert_applies(g))
    if later[:1] != fresh[:1] or (later[0] == "ERR") != (fresh[0] == "ERR"):
        return (f"a rule object that was applied while still incomplete ({first[0]}) and completed afterwards gives {later[:2]}, "
                f"the same builder calls without the early application give {fresh[:2]}")


WITNESSES = {
    "F-C15c": ("C15", w_c15c),
    "F-C13c": ("C13", w_c13c),
    "F-C08b": ("C08", w_c08b),
    "F-C10e": ("C10", w_c10e),
    "F-C08a": ("C08", w_c08a),
    "F-C02a": ("C02", w_c02a),
    "F-C02b": ("C02", w_c02b),
    "F-C03": ("C03", w_c03),
    "F-C04a": ("C04", w_c04a),
    "F-C05a": ("C05", w_c05a),
    "F-C05b": ("C05", w_c05b),
    "F-C05c": ("C05", w_c05c),
    "F-C06a": ("C06", w_c06a),
    "F-C06b": ("C06", w_c06b),
    "F-C10a": ("C10", w_c10a),
    "F-C10b": ("C10", w_c10b),
    "F-C10c": ("C10", w_c10c),
    "F-C10d": ("C10", w_c10d),
    "F-C11": ("C11", w_c11),
    "F-C13": ("C13", w_c13),
    "F-C13b": ("C13", w_c13b),
    "F-C12a": ("C12", w_c12a),
    "F-C14a": ("C14", w_c14a),
    "F-C14b": ("C14", w_c14b),
    "F-C14c": ("C14", w_c14c),
    "F-C14d": ("C14", w_c14d),
    "F-C16": ("C16", w_c16),
    "F-C16b": ("C16", w_c16b),
    "F-C17": ("C17", w_c17),
    "F-C09a": ("C09", w_c09a),
    "F-C15a": ("C15", w_c15a),
    "F-C15b": ("C15", w_c15b),
}


def run_witness(fid):
    prop, fn = WITNESSES[fid]
    try:
        return fn()
    except Exception as e:  # noqa: BLE001
        return f"witness raised {type(e).__name__}: {e}"


if __name__ == "__main__":
    import sys

    ids = sys.argv[1:] or list(WITNESSES)
    for fid in ids:
        r = run_witness(fid)
        print(fid, WITNESSES[fid][0], "OK" if r is None else "FAILS: " + r)
