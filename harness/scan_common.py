"""Project-tree generation, real scans, and protocol lines for the scan-level properties
(C02, C04, C08, C09, C10, C13 entry options, C15 scans)."""
from __future__ import annotations

import ast
import os
import re
import textwrap

from . import gen
from .proto import enc, parse_answer, run_driver

# ----------------------------------------------------------------------------- statement positions
# Templates are NOT a list of what the implementation visits: they are source shapes; which
# (node class, field) positions they reach is measured with the running interpreter (coverage()).
POS = {
    "Module.body": "{S}\n",
    "FunctionDef.body": "def f():\n{S1}\n",
    "AsyncFunctionDef.body": "async def g():\n{S1}\n",
    "ClassDef.body": "class K:\n{S1}\n",
    "If.body": "if X:\n{S1}\n",
    "If.orelse": "if X:\n    pass\nelse:\n{S1}\n",
    "If.elif": "if X:\n    pass\nelif Y:\n{S1}\n",
    "For.body": "for i in X:\n{S1}\n",
    "For.orelse": "for i in X:\n    pass\nelse:\n{S1}\n",
    "While.body": "while X:\n{S1}\n",
    "While.orelse": "while X:\n    pass\nelse:\n{S1}\n",
    "With.body": "with X as y:\n{S1}\n",
    "Try.body": "try:\n{S1}\nexcept E:\n    pass\n",
    "Try.handler": "try:\n    pass\nexcept E:\n{S1}\n",
    "Try.orelse": "try:\n    pass\nexcept E:\n    pass\nelse:\n{S1}\n",
    "Try.finalbody": "try:\n    pass\nfinally:\n{S1}\n",
    "TryStar.body": "try:\n{S1}\nexcept* E:\n    pass\n",
    "TryStar.finalbody": "try:\n    pass\nexcept* E:\n    pass\nfinally:\n{S1}\n",
    "TryStar.handler": "try:\n    pass\nexcept* E:\n{S1}\n",
    "TryStar.orelse": "try:\n    pass\nexcept* E:\n    pass\nelse:\n{S1}\n",
    "Match.case": "match X:\n    case 1:\n{S2}\n",
    "Match.case2": "match X:\n    case 1:\n        pass\n    case _:\n{S2}\n",
    "AsyncFor.body": "async def h():\n    async for i in X:\n{S2}\n",
    "AsyncFor.orelse": "async def h3():\n    async for i in X:\n        pass\n    else:\n{S2}\n",
    "AsyncWith.body": "async def h2():\n    async with X as y:\n{S2}\n",
}
# one-line forms: the import is not the first token of its physical line
INLINE = {
    "If.body(inline)": "if X: {SL}\n",
    "Try.body(inline)": "try: {SL}\nexcept E: pass\n",
    "Try.handler(inline)": "try: pass\nexcept E: {SL}\n",
    "FunctionDef.body(inline)": "def f1(): {SL}\n",
    "ClassDef.body(inline)": "class K1: {SL}\n",
    "For.body(inline)": "for i in X: {SL}\n",
    "While.orelse(inline)": "while X: pass\nelse: {SL}\n",
    "With.body(inline)": "with X as y: {SL}\n",
    "Semicolon": "X = 1; {SL}\n",
    "Semicolon2": "pass; {SL}; pass\n",
}
POS.update(INLINE)
POS_NAMES = list(POS)


def place(stmt: str, chain) -> str:
    code = stmt
    for pos in reversed(chain):
        t = POS[pos]
        if "{SL}" in t:
            one = code.rstrip("\n")
            if "\n" in one or not (one.startswith("import ") or one.startswith("from ")):   # only a simple statement fits inline
                t = "if X:\n{S1}\n"
            else:
                code = t.replace("{SL}", one)
                continue
        if "{S2}" in t:
            code = t.replace("{S2}", textwrap.indent(code.rstrip("\n"), "        "))
        elif "{S1}" in t:
            code = t.replace("{S1}", textwrap.indent(code.rstrip("\n"), "    "))
        else:
            code = t.replace("{S}", code)
    return code if code.endswith("\n") else code + "\n"


def stmt_list_positions():
    """(node class, field) pairs of the running interpreter's grammar whose value is a list of statements
    (or reaches one through ExceptHandler / match_case)."""
    out = set()
    for name in dir(ast):
        cls = getattr(ast, name)
        if isinstance(cls, type) and issubclass(cls, ast.AST) and hasattr(cls, "_fields"):
            ann = getattr(cls, "_field_types", None)
            for f in cls._fields:
                if f in ("body", "orelse", "finalbody", "handlers", "cases") and name not in ("Lambda", "IfExp", "Expression", "Interactive", "FunctionType"):
                    out.add((name, f))
    return out


def positions_reached(source: str):
    """positions of the parsed source that contain an Import / ImportFrom directly"""
    reached = set()
    tree = ast.parse(source)
    for node in ast.walk(tree):
        for f, v in ast.iter_fields(node):
            if isinstance(v, list) and any(isinstance(x, (ast.Import, ast.ImportFrom)) for x in v):
                reached.add((type(node).__name__, f))
    return reached


# ----------------------------------------------------------------------------- project generation
def gen_tree(rng, comps=None, max_depth=4, root="proj", init_prob=0.7, extra_files=True, shadow=False, pycache=False):
    """Returns dict relpath -> None (dir) / "" (file placeholder). Paths relative to tmp base, first component = root."""
    comps = comps or ["a", "b", "c", "ab", "a_b", "pkg", "m", "util", "utils", "x", "py", "pyx", "pyutil"]
    tree = {root: None}
    dirs = [root]
    n = rng.randint(2, 9)
    for _ in range(n):
        d = rng.choice(dirs)
        if d.count("/") + 1 >= max_depth:
            continue
        c = rng.choice(comps)
        # a module file next to a package directory of the same name (x.py and x/, e.g. left over after turning a module
        # into a package) is generated now and then when `shadow` is set: both are scanned and carry the same module name
        twin_ok = shadow and rng.random() < 0.5
        if rng.random() < 0.45:
            p = d + "/" + c
            if (p + ".py" in tree and not twin_ok) or p in tree:
                continue
            tree[p] = None
            dirs.append(p)
            if rng.random() < 0.15:
                tree[p + "/" + c + ".py"] = ""          # a package holding a module of its own name (config/config.py)
        else:
            p = d + "/" + c + ".py"
            if p in tree or ((d + "/" + c) in tree and not twin_ok):
                continue
            tree[p] = ""
    for d in list(dirs):
        if rng.random() < init_prob:
            tree[d + "/__init__.py"] = ""
        if pycache and rng.random() < 0.2 and d + "/__pycache__" not in tree:
            # excluded by the DEFAULT exclusion only: with exclusions=() it is a package like any other
            tree[d + "/__pycache__"] = None
            tree[d + "/__pycache__/cached.py"] = ""
        if extra_files and rng.random() < 0.2:
            extra = d + "/" + rng.choice(["notes.txt", "data.json", "README", "x.pyc", "py"])
            if extra not in tree and extra + ".py" not in tree:
                tree[extra] = "text"
    return tree


def module_of(relpath: str) -> str:
    p = relpath[:-3] if relpath.endswith(".py") else relpath
    return p.replace("/", ".")


EXTERNALS = ["Proj.x", "PROJ", "os", "os.path", "ext.lib.x", "ext.lib", "extra", "proj_ext.m", "projx", "aproj", "ab.cd", "a", "ext.lib.x.y.z", "deep.er.than.most",
             "roj.a", "roj", "pro", "pproj.a"]   # the last four: internal names with a character cut off / added


def gen_imports(rng, tree, relpath, root="proj", externals=True, n=None):
    """list of (chain, statement text) for file relpath"""
    mods = sorted({module_of(p) for p, v in tree.items() if v is None or p.endswith(".py")})
    mods = [m for m in mods if re.fullmatch(r"[A-Za-z_]\w*(\.[A-Za-z_]\w*)*", m)] or [root]
    importer = module_of(relpath)
    depth = importer.count(".")
    out = []
    for _ in range(rng.randint(0, 4) if n is None else n):
        chain = [rng.choice(POS_NAMES) for _ in range(rng.choice([0, 0, 1, 1, 2, 3]))]
        k = rng.randrange(10)
        t = rng.choice(mods)
        if k == 0:
            st = f"import {t}"
        elif k == 1:
            st = f"import {t} as zz"
        elif k == 2:
            st = f"import {t}, {rng.choice(mods)}"
        elif k == 3:
            if "." in t:
                P, nme = t.rsplit(".", 1)
                st = f"from {P} import {nme}"
            else:
                st = f"from {t} import func"
        elif k == 4:
            P = rng.choice(mods)
            st = f"from {P} import {rng.choice(['func', 'Klass', 'a', 'm', 'util'])}, {rng.choice(['b', 'x', 'other'])}"
        elif k == 5:
            st = f"from {rng.choice(mods)} import *"
        elif k in (6, 7) and depth >= 1:
            level = rng.randint(1, depth)
            base = ".".join(importer.split(".")[: depth - level + 1])
            below = [m for m in mods if m.startswith(base + ".")]
            if below and rng.random() < 0.8:
                tgt = rng.choice(below)[len(base) + 1 :]
                if "." in tgt and rng.random() < 0.7:
                    q, nme = tgt.rsplit(".", 1)
                    st = f"from {'.' * level}{q} import {nme}"
                elif rng.random() < 0.25:
                    st = f"from {'.' * level}{tgt} import *"
                elif rng.random() < 0.5:
                    st = f"from {'.' * level} import {tgt.split('.')[0]}"
                else:
                    st = f"from {'.' * level}{tgt} import func"
            else:
                st = f"from {'.' * level} import helper"
        elif k == 8 and externals:
            e = rng.choice(EXTERNALS)
            st = rng.choice([f"import {e}", f"from {e} import thing", f"import {e} as q"])
        elif k == 9 and rng.random() < 0.6:
            # a name below an existing module that is NOT a scanned module (a compiled extension, a typo, a file that an
            # exclusion removes): no import edge may come out of it, with or without a level limit
            missing = rng.choice(["nomod", "gone.deep", "_speedups"])
            st = rng.choice([f"import {t}.{missing}", f"from {t}.{missing} import thing", f"import {t}.{missing} as q"])
        else:
            st = f"import {t}"
        out.append((chain, st))
    return out


def twin_statements(rng, tree, relpath):
    """two statements of one file with the same module text and names that differ only in relative level / import form
    (package-local and project-wide `config`; `try: from .m import f / except ImportError: from m import f`)"""
    importer = module_of(relpath)
    depth = importer.count(".")
    if depth < 1:
        return []
    mods = sorted({module_of(p) for p, v in tree.items() if v is None or p.endswith(".py")})
    pkg = ".".join(importer.split(".")[:depth])
    local = [m[len(pkg) + 1:] for m in mods if m.startswith(pkg + ".") and "." not in m[len(pkg) + 1:] and m != importer]
    local = [x for x in local if re.fullmatch(r"[A-Za-z_]\w*", x)]
    if not local:
        return []
    x = rng.choice(local)
    k = rng.randrange(3)
    if k == 0 and depth >= 2:
        return [([], f"from . import {x}"), ([], f"from .. import {x}")]
    if k == 1:
        return [(["Try.body"], f"from .{x} import f"), (["Try.handler"], f"from {x} import f")]
    return [([], f"from . import {x}"), ([], f"import {x}")]


def fill_sources(rng, tree, root="proj", externals=True):
    placed = {}
    for p in list(tree):
        if p.endswith(".py"):
            items = gen_imports(rng, tree, p, root, externals)
            if rng.random() < 0.15:
                items = items + twin_statements(rng, tree, p)
            src = "X = Y = E = 1\n" + "".join(place(st, ch) for ch, st in items)
            tree[p] = src
            placed[p] = items
    return placed



# ----------------------------------------------------------------------------- AST trees for the model (protocol field T:)
def _ast_children(node):
    out = []
    for field, value in ast.iter_fields(node):
        if isinstance(value, ast.AST):
            out.append((field, value))
        elif isinstance(value, list):
            out.extend((field, v) for v in value if isinstance(v, ast.AST))
    return out


def _ast_tokens(node, field=""):
    if isinstance(node, ast.Import):
        return ["~".join(["I", enc(field)] + [enc(a.name) for a in node.names])]
    if isinstance(node, ast.ImportFrom):
        return ["~".join(["F", enc(field), str(node.level), "%n" if node.module is None else enc(node.module)] + [enc(a.name) for a in node.names])]
    ch = _ast_children(node)
    out = ["~".join(["O", enc(field) if field else "", enc(type(node).__name__), str(len(ch))])]
    for f, c in ch:
        out.extend(_ast_tokens(c, f))
    return out


def tree_field(source: str) -> str:
    """`T:` field of a scan entry: every node of the file's AST in prefix notation (children in ast.iter_child_nodes order)"""
    return "T:" + "!".join(_ast_tokens(ast.parse(source)))


# ----------------------------------------------------------------------------- real scans
def write_project(tree):
    from .impl import Project

    files = {p: v for p, v in tree.items() if v is not None}
    dirs = [p for p, v in tree.items() if v is None]
    return Project(files, dirs)


def real_scan(proj, root, mp, **kw):
    """-> canonical string 'nodes:..|imps:..|hier:..' or 'ERR:kind'"""
    from .impl import err_kind, get_evaluable_architecture, graph_snapshot

    try:
        ev = get_evaluable_architecture(proj.path(root), proj.path(mp), **kw)
    except Exception as e:  # noqa: BLE001
        return "ERR:" + err_kind(e)
    nodes, imps, hier = graph_snapshot(ev)
    # the public listing: exactly the modules of the architecture, whatever a caller did to a list it was handed before
    try:
        listed = ev.modules
        if sorted(listed) != sorted(nodes):
            return "ERR:modules-property-differs-from-the-architecture:" + ",".join(sorted(set(listed) ^ set(nodes)))[:200]
        if isinstance(listed, list):
            listed.clear()
        if sorted(ev.modules) != sorted(nodes):
            return "ERR:modules-listing-changed-after-the-caller-emptied-the-list-it-was-given"
    except Exception as e:  # noqa: BLE001
        return "ERR:modules-property-raises-" + type(e).__name__
    return snapshot_str(nodes, imps, hier)


def snapshot_str(nodes, imps, hier):
    return ("nodes:" + ",".join(sorted(enc(n) for n in nodes)) + "|imps:" + ",".join(sorted(enc(a) + ">" + enc(b) for a, b in imps))
            + "|hier:" + ",".join(sorted(enc(a) + ">" + enc(b) for a, b in hier)))


def parse_snapshot(s):
    from .proto import dec

    if s.startswith("ERR"):
        return None
    parts = dict(p.split(":", 1) for p in s.split("|"))
    nodes = {dec(x) for x in parts.get("nodes", "").split(",") if x}

    def pairs(v):
        return {tuple(dec(y) for y in x.split(">")) for x in v.split(",") if x}

    return nodes, pairs(parts.get("imps", "")), pairs(parts.get("hier", ""))


# ----------------------------------------------------------------------------- protocol
def glob_spec(pattern: str, s: str) -> bool:
    """documented meaning of a glob-style pattern (harness-side twin of PtaModel.globSpec)"""
    start, end = pattern.startswith("*"), pattern.endswith("*")
    lit = pattern[(1 if start else 0) : (len(pattern) - 1 if end else len(pattern))]
    if start and end:
        return lit in s
    if start:
        return s.endswith(lit)
    if end:
        return s.startswith(lit)
    return s == lit


def stmt_tokens(source: str):
    out = []
    for node in ast.walk(ast.parse(source)):
        if isinstance(node, ast.Import):
            out.append("i~" + "~".join(enc(a.name) for a in node.names))
        elif isinstance(node, ast.ImportFrom):
            out.append(f"f~{node.level}~" + ("%n" if node.module is None else enc(node.module)) + "~" + "~".join(enc(a.name) for a in node.names))
    return out


def scan_line(op, base, tree, root, mp, exclusions=("G", ("*__pycache__*",)), exclude_external=True, lim=None, ext=("R", ()), mtab=None):
    """tree paths are relative to base's parent; root = first component"""
    ents = []
    ex_kind, ex_pats = exclusions
    for p, v in sorted(tree.items()):
        rel = p.split("/")[1:]
        path_str = base + "".join("/" + c for c in rel)
        if ex_kind == "G":
            x = any(glob_spec(g, path_str) for g in ex_pats)
        else:
            x = any(re.match(r, path_str) for r in ex_pats)
        kind = ("d" if v is None else "f") + ("x" if x else "")
        rec = "/".join(enc(c) for c in rel) + "|" + kind
        if v is not None and p.endswith(".py") and len(os.path.basename(p)) > 3:
            try:
                # the complete AST of the file in prefix notation: the model runs its own transcription of the walk of
                # ImportConverter.convert over it, the specification reads all import nodes off the tree
                rec += "||" + tree_field(v)
            except SyntaxError:
                rec += "|"
        ents.append(rec)
    mp_rel = mp.split("/")[1:]
    parts = [op, "base=" + enc(base), "root=" + enc(root), "mp=" + "/".join(enc(c) for c in mp_rel), "ents=" + ";".join(ents),
             "ex=" + ex_kind + ":" + ",".join(enc(x) for x in ex_pats), "xx=" + ("1" if exclude_external else "0"),
             "eex=" + ext[0] + ":" + ",".join(enc(x) for x in ext[1])]
    if lim is not None:
        parts.append(f"lim={lim}")
    tab = []
    if ex_kind == "R":
        allpaths = [base + "".join("/" + c for c in p.split("/")[1:]) for p in tree]
        for r in ex_pats:
            tab.append(enc(r) + "~" + ",".join(enc(s) for s in allpaths if re.match(r, s)))
    if mtab:
        tab.extend(mtab)
    if tab:
        parts.append("mtab=" + ";".join(tab))
    return " ".join(parts)


def model_scan(base, tree, root, mp, exclusions=("G", ("*__pycache__*",)), exclude_external=True, lim=None, ext=("R", ())):
    """Run the model (and spec) on one scan; handles the two-pass match table for regex external patterns."""
    mtab = None
    if ext[0] == "R" and ext[1]:
        q = parse_answer(run_driver([scan_line("scannames", base, tree, root, mp, exclusions)])[0]).get("Q", "")
        if not q.startswith("ERR"):
            from .proto import dec

            names = [dec(x) for x in q.split(",") if x]
            mtab = [enc(r) + "~" + ",".join(enc(n) for n in names if re.match(r, n)) for r in ext[1]]
    return scan_line("scan", base, tree, root, mp, exclusions, exclude_external, lim, ext, mtab)


def kw_for(exclusions, exclude_external, lim, ext):
    kw = {}
    if exclusions[0] == "G":
        kw["exclusions"] = tuple(exclusions[1])
    else:
        kw["exclusions"] = ()
        kw["regex_exclusions"] = tuple(exclusions[1])
    kw["exclude_external_libraries"] = exclude_external
    if lim is not None:
        kw["level_limit"] = lim
    if ext[1]:
        kw["external_exclusions" if ext[0] == "G" else "regex_external_exclusions"] = tuple(ext[1])
    return kw
