"""C03 - violation reports name exactly the offending and the missing imports.

Shares the rule streams of C01 (report items instead of verdict classes) and adds a stream that compares the LITERAL lines of
the real message with the lines the Lean model of message_generator.py produces (PtaModel/Message.lean; the theorems
Pta.C03.line_of_item / text_lines_are_imports / text_lines_shape are about those lines)."""
from __future__ import annotations

from .. import gen
from ..core import Ctx, Stream, digest, pmap
from ..layers_common import layer_line
from ..proto import dec, parse_answer, run_driver
from ..rules_common import random_cases
from . import c01

ODD = ["a", "ab", "a b", "x,y", "a!", "é", "a#", "b", "ba", "a_b"]


def _rule_text(case):
    """('PASS'|'FAIL'|'ERR', literal lines) of the real code"""
    from ..impl import make_graph, run_rule_ops

    out = run_rule_ops(case["ops"], make_graph(case["nodes"], case["imps"], case.get("lim")))
    return (out[0], out[1].split("\n") if out[0] == "FAIL" else [])


def _layer_text(case):
    from ..impl import LayerRule, make_graph
    from ..layers_common import LOPS, make_arch

    g = make_graph(case["nodes"], case["imps"], case.get("lim"))
    try:
        arch = make_arch(case["arch"])
        r = LayerRule()
        for op, arg in case["lops"]:
            r = r.based_on(arch) if op == "based" else LOPS[op](r, arg)
        r.assert_applies(g)
    except AssertionError as e:
        return ("FAIL", str(e).split("\n"))
    except Exception:  # noqa: BLE001
        return ("ERR", [])
    return ("PASS", [])


def text_stream(ctx: Ctx, stream: Stream, n: int):
    from . import c05

    rng = ctx.rng("text")
    cases = []
    for comps, strict in ((gen.PLAIN, True), (gen.ADVERSARIAL, False), (ODD, False)):
        cases += [("rule", c) for c in random_cases(rng, n // 4, comps=comps, strict=strict, max_nodes=12, max_imports=10)]
    while len([1 for k, _ in cases if k == "layer"]) < n // 4:
        nodes = gen.random_tree(rng, max_nodes=14, comps=gen.IDENT_ADVERSARIAL)
        if len(nodes) < 4:
            continue
        c = c05.make_case(rng, nodes, gen.random_imports(rng, nodes, 10))
        if c:
            cases.append(("layer", c))
    rules = [c for k, c in cases if k == "rule"]
    layers = [c for k, c in cases if k == "layer"]
    impl = pmap(_rule_text, rules, ctx.jobs) + pmap(_layer_text, layers, ctx.jobs, chunk=100)
    ans = run_driver([gen.rule_line(c) for c in rules] + [layer_line(c) for c in layers])
    for c, (cls, lines), a in zip(rules + layers, impl, ans):
        a = parse_answer(a)
        stream.evaluations += 1
        stream.count("impl:" + cls)
        if cls != "FAIL":
            continue
        t = a.get("T", "")
        model_lines = [dec(x) for x in t.split("|")] if t else []
        if len(lines) >= 2:
            stream.nontrivial.add(digest(lines))
        if len(ctx.samples) < 6 and len(lines) >= 2:
            ctx.samples.append({"message_lines": lines})
        if lines != model_lines:
            rec = {"kind": "correspondence-broken", "what": "correspondence: literal message lines = PtaModel.messageLines / messageLinesL",
                   "theorem": "Pta.C03.line_of_item, text_lines_are_imports, text_lines_shape are statements about PtaModel.messageLines",
                   "line": (gen.rule_line(c) if "ops" in c else layer_line(c))[:3000], "impl_lines": lines, "model_lines": model_lines}
            if len(ctx.broken) < 10:
                ctx.broken.append(rec)


def run(ctx):
    rule = c01.run(ctx, aspect="report")
    if not ctx.violations:
        s = Stream(ctx, "literal message lines: real str(AssertionError) vs the model of message_generator.py (module rules and layer rules)")
        text_stream(ctx, s, ctx.size(6000, 60000))
        s.finish()
    if not ctx.violations:
        # a regex specification stands for the modules it matches: the REPORT of the rule with the pattern is the report of the
        # rule naming those modules (same offending imports, same missing imports), not only the same verdict
        from ..rules_common import evaluate, split_impl
        from . import c11

        s = Stream(ctx, "reports of rules with regex specifications (also shapes that match a package but not what lies below it) vs the rule naming the matched modules")
        rng = ctx.rng("regex-reports")
        insts = []
        for _ in range(ctx.size(2500, 40000)):
            nodes = gen.random_tree(rng, max_nodes=12, comps=gen.IDENT_ADVERSARIAL)
            if len(nodes) < 3:
                continue
            insts.extend(i for i in c11.instances(rng, nodes, gen.random_imports(rng, nodes, 10)) if i[0] == "regex-expansion")
        flat = [c for _, cs, _, _ in insts for c in cs]
        res = evaluate(ctx, flat)
        k = 0
        for name, cs, pred, width in insts:
            part = res[k : k + len(cs)]
            k += len(cs)
            s.evaluations += 1
            (c1, i1, _), (c2, i2, _) = part[0], part[1]
            a, b = split_impl(i1)[:2], split_impl(i2)[:2]
            s.count("compact:" + a[0].split(":")[0])
            if a[0] == "FAIL":
                s.nontrivial.add(digest((c1["nodes"], c1["imps"], c1["ops"])))
            if a != b:
                ctx.violations.append({"kind": "property-violation",
                                       "what": "the report of a rule with a regex specification differs from the report of the rule naming the modules the regex matches",
                                       "rules": [gen.rule_line(c1), gen.rule_line(c2)], "impl": [i1, i2]})
                if len(ctx.violations) >= 3:
                    break
        s.finish()
    return rule + (" Literal-lines stream: random module rules (plain, adversarial and odd names with blanks, commas, non-ASCII) and layer rules; "
                   "the message is split at newlines and compared as a list with the model's lines.")
