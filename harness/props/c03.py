"""C03 - violation reports name exactly the offending and the missing imports."""
from . import c01


def run(ctx):
    return c01.run(ctx, aspect="report")
