"""C09 - level_limit yields the quotient graph and preserves verdicts above the limit."""
from __future__ import annotations

from .. import gen
from .. import scan_common as sc
from ..core import Ctx, InfraError, Stream, digest, pmap
from ..proto import enc_list, enc_pairs, parse_answer, run_driver
from ..rules_common import evaluate, python_snippet, run_witnesses, split_impl, split_model

RULE = (
    "(1) graphs: NetworkxGraph(all_modules, imports, level_limit=k) for random WF architectures (<= 14 nodes, depth <= 5, "
    "plain and adversarial names) and every tree shape <= 5 nodes with every relation of <= 2 imports, k in 0..depth: nodes and "
    "import edges compared with the quotient of the unlimited graph (names truncated to k+1 components, self edges "
    "dropped) and with PtaModel.buildGraph; (2) scans of random project trees with module_path equal to or below "
    "root_path and level_limit k: compared with the quotient of the unlimited scan (k levels below module_path) and with "
    "PtaModel.generateGraph; (3) strict rules of C01's space whose named modules lie at or above level k (sub-modules-of "
    "parents strictly above): verdict on the flattened graph vs verdict on the full graph, and vs the model. "
    "distinct_nontrivial = distinct cases where truncation merges at least two modules."
)


def trunc(n, k):
    return ".".join(n.split(".")[: k + 1])


def _graph_case(case):
    from ..impl import graph_snapshot, make_graph

    nodes, imps, k = case
    full = graph_snapshot(make_graph(nodes, imps))
    flat = graph_snapshot(make_graph(nodes, imps, k))
    return full, flat


def judge_graphs(ctx, stream, cases):
    res = pmap(_graph_case, cases, ctx.jobs, chunk=300)
    ans = run_driver([f"graph nodes={enc_list(n)} imps={enc_pairs(i)} lim={k}" for n, i, k in cases])
    for (nodes, imps, k), (full, flat), a in zip(cases, res, ans):
        stream.evaluations += 1
        want_nodes = sorted({trunc(n, k) for n in full[0]})
        want_imps = sorted({(trunc(u, k), trunc(v, k)) for u, v in full[1] if trunc(u, k) != trunc(v, k)})
        if len(want_nodes) < len(full[0]):
            stream.nontrivial.add(digest((nodes, imps, k)))
        if flat[0] != want_nodes or flat[1] != want_imps:
            ctx.violations.append({"kind": "property-violation", "what": "level-limited graph is not the quotient of the full graph",
                                   "nodes": nodes, "imports": imps, "level_limit": k, "flattened": flat, "quotient_nodes": want_nodes, "quotient_imports": want_imps,
                                   "python": f"from harness.impl import make_graph, graph_snapshot; print(graph_snapshot(make_graph({nodes!r}, {imps!r}, {k})))"})
            if len(ctx.violations) >= 3:
                return
            continue
        m = a.split("M=", 1)[1]
        got = sc.snapshot_str(*flat).replace("|imps:", " imps:").replace("|hier:", " hier:")
        if got != m:
            if len(ctx.broken) < 10:
                ctx.broken.append({"kind": "correspondence-broken", "what": "correspondence NetworkxGraph(level_limit) = PtaModel.buildGraph",
                                   "theorem": "Pta.C09.* are statements about PtaModel.buildGraph / flattenNode", "nodes": nodes, "imports": imps,
                                   "level_limit": k, "impl": got, "model": m})


def _scan_case(case):
    tree, root, mp, k = case["tree"], case["root"], case["mp"], case["k"]
    with sc.write_project(tree) as proj:
        base = proj.path(root)
        xx = case.get("xx", True)
        ext = case.get("ext") or ("R", ())
        kw = sc.kw_for(("G", ("*__pycache__*",)), xx, None, ext)
        full = sc.real_scan(proj, root, mp, **kw)
        flat = sc.real_scan(proj, root, mp, level_limit=k, **kw)
        line = sc.model_scan(base, tree, root, mp, exclude_external=xx, lim=k, ext=ext)
    return full, flat, line


def judge_scans(ctx, stream, cases):
    res = pmap(_scan_case, cases, ctx.jobs, chunk=20)
    ans = run_driver([r[2] for r in res])
    for case, (full, flat, line), a in zip(cases, res, ans):
        stream.evaluations += 1
        a = parse_answer(a)
        F, L = sc.parse_snapshot(full), sc.parse_snapshot(flat)
        if F is None or L is None:
            stream.count("scan-error")
            if flat != a.get("M"):
                ctx.broken.append({"kind": "correspondence-broken", "what": "scan error differs from model", "impl": flat, "model": a.get("M")})
            continue
        if any(v.startswith(u + ".") for u, v in F[1]):
            # a module file next to a package of the same name importing a module BELOW itself (b.py: from proj.b.pkg import util):
            # in the quotient this is an import from a node to its own child, which the graph cannot hold next to the hierarchy
            # edge. Observed on the unchanged tree at seed 4 (DESIGN 11.3c, wave 10); not judged here
            stream.count("not judged: import from a module to its own descendant (file/package twin)")
            continue
        keep = case["k"] + case["mp"].count("/")          # k levels below module_path
        wn = {trunc(n, keep) for n in F[0]}
        wi = {(trunc(u, keep), trunc(v, keep)) for u, v in F[1] if trunc(u, keep) != trunc(v, keep)}
        if len(wn) < len(F[0]):
            stream.nontrivial.add(digest((sorted(case["tree"]), case["mp"], case["k"])))
        if L[0] != wn or L[1] != wi:
            ctx.violations.append({"kind": "property-violation", "what": "level-limited scan is not the quotient of the full scan (k levels below module_path)",
                                   "files": dict(case["tree"]), "module_path": case["mp"], "level_limit": case["k"], "flattened": flat, "full": full})
            if len(ctx.violations) >= 3:
                return
            continue
        if flat != a.get("M"):
            if len(ctx.broken) < 10:
                ctx.broken.append({"kind": "correspondence-broken", "what": "correspondence level-limited scan = PtaModel.generateGraph",
                                   "theorem": "Pta.C09.limit_shift", "files": dict(case["tree"]), "module_path": case["mp"], "level_limit": case["k"],
                                   "impl": flat, "model": a.get("M")})


def verdict_cases(ctx, rng, n, comps):
    from ..rules_common import random_cases

    out = []
    for c in random_cases(rng, n, comps=comps, strict=True, max_nodes=14, max_imports=10):
        names = [(k, nme) for k, nme in c["spec"]["ss"] + c["spec"]["so"]]
        need = 0
        for kind, nme in names:
            d = nme.count(".")
            need = max(need, d + 1 if kind == "P" else d)
        maxd = max(x.count(".") for x in c["nodes"])
        if need > maxd:
            continue
        k = rng.randint(need, maxd)
        flat = dict(c)
        flat["lim"] = k
        out.append((c, flat))
    return out


def judge_verdicts(ctx, stream, pairs):
    flat_cases = [x for p in pairs for x in p]
    res = evaluate(ctx, flat_cases)
    for j in range(0, len(res), 2):
        (c1, i1, a1), (c2, i2, a2) = res[j], res[j + 1]
        stream.evaluations += 1
        v1, v2 = split_impl(i1)[0], split_impl(i2)[0]
        stream.count("verdict:" + v1)
        if any(len({trunc(n, c2["lim"]) for n in c1["nodes"]}) < len(c1["nodes"]) for _ in (0,)):
            stream.nontrivial.add(digest((c1["nodes"], c1["imps"], c1["ops"], c2["lim"])))
        if v1 != v2:
            ctx.violations.append({"kind": "property-violation", "what": f"verdict changes under level_limit={c2['lim']} although all named modules lie above the limit: {v1} -> {v2}",
                                   "full": gen.rule_line(c1), "flattened": gen.rule_line(c2), "python": python_snippet(c2)})
            if len(ctx.violations) >= 3:
                return
            continue
        m2 = split_model(a2.get("M", "?"))[0]
        if m2 != v2:
            if len(ctx.broken) < 10:
                ctx.broken.append({"kind": "correspondence-broken", "what": "correspondence rule verdict on a level-limited graph = model",
                                   "theorem": "Pta.C09.verdict_preserved", "line": gen.rule_line(c2), "impl": i2, "model": a2.get("M")})


def run(ctx: Ctx):
    import itertools

    run_witnesses(ctx)
    quick = ctx.quick()
    s = Stream(ctx, "graphs: tree shapes <= 5 nodes x relations <= 2 imports x k", exhaustive=True)
    cases = []
    for nodes in gen.tree_shapes(5):
        pairs = gen.wf_pairs(nodes)
        maxd = max(n.count(".") for n in nodes)
        for r in range(0, 3):
            for imps in itertools.combinations(pairs, r):
                for k in range(0, maxd + 1):
                    cases.append((nodes, list(imps), k))
    judge_graphs(ctx, s, cases)
    s.finish()
    for name, comps in (("graphs: random plain", gen.PLAIN), ("graphs: random adversarial", gen.ADVERSARIAL)):
        s = Stream(ctx, name)
        rng = ctx.rng(name)
        cases = []
        for _ in range(ctx.size(8000, 150000)):
            nodes = gen.random_tree(rng, max_nodes=14, max_depth=5, comps=comps)
            imps = gen.random_imports(rng, nodes, 10)
            # imports whose importee is not a module (a name below an existing module): never an edge, limit or not
            for _ in range(rng.choice([0, 0, 1, 2])):
                imps = imps + [(rng.choice(nodes), rng.choice(nodes) + "." + rng.choice(["zz", "zz.deep"]))]
            k = rng.randint(0, max(n.count(".") for n in nodes))
            if rng.random() < 0.2:
                # the module list names files only (ancestor packages are implied by the dotted names, as when an evaluable is
                # built by hand); imports may target such an implied package
                inner = [n for n in nodes if any(m.startswith(n + ".") for m in nodes)]
                drop = set(rng.sample(inner, rng.randint(1, len(inner)))) if inner else set()
                given = [n for n in nodes if n not in drop]
                if given:
                    nodes = given
            cases.append((nodes, imps, k))
        judge_graphs(ctx, s, cases)
        s.finish()
    s = Stream(ctx, "scans: random project trees x module_path x level_limit")
    scan_stream(ctx, s, ctx.size(400, 8000), ctx.rng("scans"))
    s.finish()
    for name, comps in (("verdicts above the limit: plain", gen.PLAIN), ("verdicts above the limit: adversarial", gen.IDENT_ADVERSARIAL)):
        s = Stream(ctx, name)
        judge_verdicts(ctx, s, verdict_cases(ctx, ctx.rng(name), ctx.size(8000, 150000), comps))
        s.finish()
    return RULE


def scan_stream(ctx, s, n, rng):
    cases = []
    for _ in range(n):
        # a module file next to a package of the same name (x.py + x/) in a third of the trees: the file's imports of the
        # package's sub modules run from a node to its own child
        tree = sc.gen_tree(rng, max_depth=5, shadow=rng.random() < 0.35)
        # a third of the scans include external libraries (also ones nested deeper than the limit): they are flattened
        # like every other module name
        xx = rng.random() < 0.65
        sc.fill_sources(rng, tree, externals=not xx)
        dirs = sorted(p for p, v in tree.items() if v is None)
        mp = rng.choice(dirs) if rng.random() < 0.6 else "proj"
        # externals included together with an external exclusion pattern (glob or regex) and the level limit: all three at once
        ext = None
        if not xx and rng.random() < 0.5:
            ext = rng.choice([("G", ("os*",)), ("G", ("*lib*",)), ("R", (r"ext\.lib\.x",)), ("R", (r"zz_none",)), ("G", ("extra",))])
        cases.append({"tree": tree, "root": "proj", "mp": mp, "k": rng.randint(0, 3), "xx": xx, "ext": ext})
    judge_scans(ctx, s, cases)
