"""C01 - module-rule verdicts equal the documented semantics (strict oracle).
C03 shares the stream and judges the report items instead of the verdict class."""
from __future__ import annotations

from .. import gen
from ..core import Ctx, Stream
from ..rules_common import (corpus_cases, evaluate, exhaustive_cases, judge_rule_stream, random_cases, run_witnesses)

RULE = (
    "cases = (graph, rule) pairs: corpus (all 14 shapes x {N,P}^2 on two canonical graphs), exhaustive (every "
    "WF import relation over every tree shape up to the stated size x 14 shapes x 4 filter-kind combinations x strict "
    "batches), seeded random (trees <= 14 nodes, depth <= 4, <= 12 imports, 1-3 subjects/objects, plain and adversarial "
    "component names). Each case is evaluated by the real Rule(...).assert_applies, by PtaModel.assertApplies and by "
    "PtaSpec.verdict/violating. distinct_nontrivial = distinct in-domain cases having an import with an end inside a "
    "subject's sub tree."
)


def run(ctx: Ctx, aspect="verdict"):
    run_witnesses(ctx)
    from ..rules_common import interpreter_modes

    interpreter_modes(ctx, "rules")
    quick = ctx.quick()

    s = Stream(ctx, "corpus")
    judge_rule_stream(ctx, s, evaluate(ctx, corpus_cases()), aspect)
    s.finish()

    # exhaustive small scopes (generated lazily and judged in chunks: the thorough scope has ~5 million cases)
    import itertools

    from ..rules_common import exhaustive_cases_iter

    scope = (3, 2, 4) if quick else (4, 2, 5)
    s = Stream(ctx, "exhaustive: all relations on trees<=%d nodes; <=%d imports on trees<=%d nodes" % scope, exhaustive=True)
    if quick:
        it = itertools.chain(exhaustive_cases_iter(3, max_imports=None, batch=(2, 2)), exhaustive_cases_iter(4, max_imports=2, batch=(1, 1)))
    else:
        it = itertools.chain(exhaustive_cases_iter(4, max_imports=None, batch=(2, 2)), exhaustive_cases_iter(5, max_imports=2, batch=(1, 1)))
    while True:
        chunk = list(itertools.islice(it, 60000))
        if not chunk:
            break
        judge_rule_stream(ctx, s, evaluate(ctx, chunk), aspect)
        if ctx.violations:
            break
    s.finish()

    # seeded random
    n = ctx.size(30000, 400000)
    for name, comps in (("random-plain", gen.PLAIN), ("random-adversarial", gen.ADVERSARIAL)):
        s = Stream(ctx, name)
        rng = ctx.rng(name)
        done = 0
        while done < n // 2 and ctx.left() > 20 and not ctx.violations:
            batch = random_cases(rng, min(20000, n // 2 - done), comps=comps, strict=True)
            judge_rule_stream(ctx, s, evaluate(ctx, batch), aspect)
            done += len(batch)
        s.finish()
    # one rule object applied to two architectures (regex specifications resolved per architecture)
    from ..rules_common import reuse_stream

    from ..rules_common import partial_name_stream

    s = Stream(ctx, "partial names (have_name_containing) vs the modules their glob meaning selects")
    partial_name_stream(ctx, s, ctx.size(1500, 15000))
    s.finish()
    s = Stream(ctx, "re-used rule objects: second application vs a fresh rule object")
    reuse_stream(ctx, s, ctx.size(1500, 20000))
    s.finish()
    if not ctx.violations:
        from ..rules_common import respecify_stream

        s = Stream(ctx, "subjects / objects specified twice at the same position: the last specification counts")
        respecify_stream(ctx, s, ctx.size(2000, 30000))
        s.finish()
    if not ctx.violations:
        from ..rules_common import scanned_equiv_stream

        s = Stream(ctx, "scanned architectures (default, externals included, level limit) vs architectures built directly from the same modules and imports")
        scanned_equiv_stream(ctx, s, ctx.size(250, 5000))
        s.finish()
    # rules over related names: judged by the specification inside the widest oracle domain (parentFree: the parent of a
    # 'sub modules of' filter is not a member of a filter of the rule), compared with the model only outside it (drift)
    s = Stream(ctx, "random rules over related names (oracle on the parentFree domain, model only outside)")
    rng = ctx.rng("ns")
    n = ctx.size(24000, 300000)
    done = 0
    while done < n and ctx.left() > 20 and not ctx.violations:
        batch = random_cases(rng, min(12000, n - done), comps=gen.ADVERSARIAL if done % 24000 else gen.PLAIN, strict=False)
        judge_rule_stream(ctx, s, evaluate(ctx, batch), aspect)
        done += len(batch)
    s.finish()
    return RULE
