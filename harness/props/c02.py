"""C02 - every import statement in a scanned file becomes an import edge, only those.
C04 - modules and hierarchy mirror the scanned directory tree (shares the streams)."""
from __future__ import annotations

import os
import re
import types

from .. import scan_common as sc
from ..core import Ctx, InfraError, Stream, digest, pmap
from ..proto import parse_answer, run_driver
from ..rules_common import run_witnesses

# C04 owns the regenerated obligation Pta.C04.generated_wiring_agree (Generated/Wiring.lean, PtaProofs/Props/Tables.lean)
USES_GENERATED = ("C04",)

RULE = (
    "cases = project trees written to a tmpfs and scanned with get_evaluable_architecture (default options): (a) a fixed "
    "package tree with one importer file per (statement-list position chain x import form): every single position reached "
    "by the template corpus (measured with the running interpreter's ast; gaps printed) and seeded chains up to depth 3 x "
    "plain / aliased / multi-name / from-name / from-submodule / star / relative levels 1..depth / inside __init__ forms; "
    "(b) seeded random project trees (depth <= 4, with/without __init__.py, non-.py files, prefix-sibling names) with random "
    "imports, every directory as module_path. Real scan vs PtaModel.generateGraph (fed the file's Import/ImportFrom nodes "
    "as enumerated by ast.walk) vs PtaSpec.scanModules / scanImports. evaluations = scans; distinct_nontrivial = "
    "distinct scanned (tree, module_path) cases containing at least one statement that names an internal module; the number "
    "of distinct (importer file, statement, position) triples covered is in each stream's histogram."
)


def _eval_case(case):
    tree, root, mp = case["tree"], case["root"], case["mp"]
    with sc.write_project(tree) as proj:
        base = proj.path(root)
        impl = sc.real_scan(proj, root, mp)
        line = sc.scan_line("scan", base, tree, root, mp)
        extra = None
        if case.get("module_objects"):
            from ..impl import err_kind, graph_snapshot
            from pytestarch import get_evaluable_architecture_for_module_objects

            rm, mm = types.ModuleType("r"), types.ModuleType("m")
            rm.__file__ = proj.path(root) + "/__init__.py"
            mm.__file__ = proj.path(mp) + "/__init__.py"
            try:
                extra = sc.snapshot_str(*graph_snapshot(get_evaluable_architecture_for_module_objects(rm, mm)))
            except Exception as e:  # noqa: BLE001
                extra = "ERR:" + err_kind(e)
        whole = None
        if case.get("subscan") and mp != root:
            whole = sc.real_scan(proj, root, root)
    return impl, line, extra, whole


def evaluate(ctx, cases):
    res = pmap(_eval_case, cases, ctx.jobs, chunk=20)
    ans = run_driver([r[1] for r in res])
    return [(c, r, parse_answer(a)) for c, r, a in zip(cases, res, ans)]


def _non_ancestor(imps):
    return {(u, v) for (u, v) in imps if not u.startswith(v + ".")}


def judge(ctx, stream, results, aspect):
    for case, (impl, line, extra, whole), ans in results:
        stream.evaluations += 1
        m, s = ans.get("M", "?"), ans.get("S", "?")
        stream.count("impl:" + ("ERR" if impl.startswith("ERR") else "ok"))
        feats = case.get("features", ())
        if feats:
            stream.nontrivial.add(digest((sorted((k, v) for k, v in case["tree"].items() if v), case["mp"])))
        if not hasattr(stream, "features"):
            stream.features = set()
        stream.features.update(feats)
        stream.hist["distinct (importer, position, form) features"] = len(stream.features)
        if len(ctx.samples) < 2 and not impl.startswith("ERR") and "imps:" in impl and len(impl) < 1500 and ">" in impl.split("|imps:")[1].split("|")[0]:
            ctx.samples.append({"files": {p: v for p, v in case["tree"].items() if v}, "mp": case["mp"], "impl": impl})
        I, S_ = sc.parse_snapshot(impl), sc.parse_snapshot(s)
        if s == "ERR" or S_ is None:
            # a relative import reaching above the root: the property makes no claim
            stream.count("spec-undefined")
            if impl != m:
                ctx.drift.append({"what": "impl != model outside the domain", "line": line[:2000], "impl": impl, "model": m})
            continue
        M_ = sc.parse_snapshot(m)
        if M_ is not None:
            model_claim = (_non_ancestor(M_[1]) == _non_ancestor(S_[1])) if aspect == "C02" else (M_[0] == S_[0])
            if not model_claim:
                raise InfraError(f"model and specification disagree on a scan ({aspect}): {line[:3000]}\nM={m}\nS={s}")
        bad = None
        if I is None:
            bad = f"scan raises {impl}"
        elif aspect == "C02":
            got, want = _non_ancestor(I[1]), _non_ancestor(S_[1])
            if got != want:
                bad = f"import edges differ from what the import statements account for: missing {sorted(want - got)[:5]}, unaccounted {sorted(got - want)[:5]}"
        else:
            if I[0] != S_[0]:
                bad = f"modules differ from the directory tree: missing {sorted(S_[0] - I[0])[:5]}, extra {sorted(I[0] - S_[0])[:5]}"
            else:
                want_h = {(".".join(n.split(".")[:-1]), n) for n in I[0] if "." in n}
                if I[2] != want_h:
                    bad = f"hierarchy differs from dotted-name extension: {sorted(I[2] ^ want_h)[:5]}"
            if not bad and extra is not None and extra != impl:
                bad = "module-object entry point builds a different architecture than the path entry point"
            if not bad and whole is not None and case.get("qualified_only"):
                W = sc.parse_snapshot(whole)
                if W is not None:
                    pre = case["mp"].replace("/", ".")
                    inside = lambda n: n == pre or n.startswith(pre + ".")  # noqa: E731
                    anc = {".".join(pre.split(".")[:i]) for i in range(1, pre.count(".") + 1)}
                    wn = {n for n in W[0] if inside(n)} | anc
                    wi = {(u, v) for (u, v) in W[1] if inside(u) and inside(v)}
                    if I[0] != wn or _non_ancestor(I[1]) != _non_ancestor(wi):
                        bad = (f"scanning the sub-directory differs from the whole-root scan restricted to it: modules {sorted(I[0] ^ wn)[:5]} "
                               f"imports {sorted(_non_ancestor(I[1]) ^ _non_ancestor(wi))[:5]}")
        if bad:
            ctx.violations.append({"kind": "property-violation", "what": bad, "files": {p: v for p, v in case["tree"].items()},
                                   "root": case["root"], "module_path": case["mp"], "impl": impl, "model": m, "spec": s, "line": line[:4000],
                                   "python": "from harness.impl import Project, scan  # write `files` with Project(...) and call scan(proj, root, module_path)"})
            if len(ctx.violations) >= 3:
                return
            continue
        if impl != m:
            if len(ctx.broken) < 10:
                ctx.broken.append({"kind": "correspondence-broken", "what": "correspondence real scan = PtaModel.generateGraph",
                                   "theorem": f"Pta.{aspect}.* are statements about PtaModel.generateGraph", "files": dict(case["tree"]),
                                   "module_path": case["mp"], "impl": impl, "model": m})


FIXED = {
    "proj": None, "proj/__init__.py": "", "proj/a.py": "", "proj/b.py": "", "proj/ab.py": "",
    "proj/pkg": None, "proj/pkg/__init__.py": "", "proj/pkg/m.py": "", "proj/pkg/n.py": "",
    "proj/pkg/deep": None, "proj/pkg/deep/__init__.py": "", "proj/pkg/deep/z.py": "", "proj/pkg/deep/w.py": "",
    "proj/nopkg": None, "proj/nopkg/q.py": "",
}


def forms_for(importer_pkg_depth):
    """import forms; relative ones depend on the importer's depth"""
    forms = [
        ("plain", "import proj.pkg.m"), ("aliased", "import proj.pkg.deep.z as zz"), ("multi", "import proj.a, proj.pkg.n"),
        ("from-submodule", "from proj.pkg import m"), ("from-name", "from proj.pkg.m import func"),
        ("from-multi", "from proj.pkg import m, func, deep"), ("star", "from proj.pkg import *"),
        ("from-nopkg", "from proj.nopkg import q"), ("plain-pkg", "import proj.pkg"),
    ]
    for level in range(1, importer_pkg_depth + 1):
        dots = "." * level
        forms += [(f"rel{level}-name", f"from {dots} import a"), (f"rel{level}-sub", f"from {dots}pkg import m"),
                  (f"rel{level}-func", f"from {dots} import helper"), (f"rel{level}-deep", f"from {dots}deep import z, w"),
                  (f"rel{level}-star", f"from {dots}pkg import *"), (f"rel{level}-star-dot", f"from {dots} import *")]
    return forms


def position_cases(ctx, rng, per_file=1):
    """one project per chunk of importer files: each importer holds one statement at one position chain"""
    chains = [[p] for p in sc.POS_NAMES]
    for _ in range(ctx.size(150, 1500)):
        chains.append([rng.choice(sc.POS_NAMES) for _ in range(rng.randint(2, 3))])
    cases = []
    importers = [("proj/imp_{}.py", 1), ("proj/pkg/imp_{}.py", 2), ("proj/pkg/deep/imp_{}.py", 3), ("proj/pkg/deep/__init__.py", 3)]
    k = 0
    tree = dict(FIXED)
    feats = []
    for chain in chains:
        for tmpl, depth in importers:
            if "__init__" in tmpl and rng.random() < 0.8:
                continue
            forms = forms_for(depth)
            chosen = forms if len(chain) == 1 and not ctx.quick() else rng.sample(forms, 3 if ctx.quick() else 6)
            for fname, st in chosen:
                path = tmpl.format(k)
                k += 1
                if "__init__" in path:
                    # a fresh project for __init__ importers (only one such file per package)
                    t2 = dict(FIXED)
                    t2[path] = "X = Y = E = 1\n" + sc.place(st, chain)
                    cases.append({"tree": t2, "root": "proj", "mp": "proj", "features": [("init", tuple(chain), fname)]})
                    continue
                tree[path] = "X = Y = E = 1\n" + sc.place(st, chain)
                feats.append((tuple(chain), fname, depth))
                if len(feats) >= 40:
                    cases.append({"tree": tree, "root": "proj", "mp": "proj", "features": feats})
                    tree, feats = dict(FIXED), []
    if feats:
        cases.append({"tree": tree, "root": "proj", "mp": "proj", "features": feats})
    return cases


def random_cases(ctx, rng, n, every_module_path=True):
    cases = []
    for i in range(n):
        tree = sc.gen_tree(rng)
        qualified_only = rng.random() < 0.5
        placed = sc.fill_sources(rng, tree, externals=True)
        feats = [(p, st, tuple(ch)) for p, items in placed.items() for ch, st in items]
        dirs = sorted(p for p, v in tree.items() if v is None)
        # a directory with a twin module file (x/ next to x.py) is not used as module_path: the twin file carries the
        # same module name but lies outside the scanned sub-tree, so "the whole scan restricted to that sub-tree" is
        # not well defined for it
        mps = [d for d in dirs if d + ".py" not in tree] if every_module_path else ["proj"]
        for mp in (mps if rng.random() < 0.3 else [rng.choice(mps)]):
            cases.append({"tree": tree, "root": "proj", "mp": mp, "features": feats[:20], "module_objects": rng.random() < 0.3,
                          "subscan": True, "qualified_only": True})
    return cases



def _scanned_rule_case(case):
    """scan a generated tree and evaluate rules that ask about 'sub modules of X' / 'X and its descendants' on the real
    evaluable; the expected verdicts follow from the scanned import set and DOTTED-name extension alone"""
    import random as _random

    from ..impl import Rule, err_kind, get_evaluable_architecture, graph_snapshot

    tree, root, mp, seed = case["tree"], case["root"], case["mp"], case["seed"]
    rng = _random.Random(seed)
    out = []
    with sc.write_project(tree) as proj:
        try:
            ev = get_evaluable_architecture(proj.path(root), proj.path(mp))
        except Exception as e:  # noqa: BLE001
            return [("SCANERR", err_kind(e), None, None)]
        nodes, imps, _ = graph_snapshot(ev)
        nodes = sorted(nodes)
        desc = lambda x, n: n == x or n.startswith(x + ".")  # noqa: E731
        parents = [x for x in nodes if any(n.startswith(x + ".") for n in nodes)]
        for _ in range(4):
            if not parents:
                break
            x = rng.choice(parents)
            others = [y for y in nodes if not desc(x, y) and not desc(y, x)]
            if not others:
                continue
            y = rng.choice(others)
            into_sub = any(desc(y, u) and v != x and desc(x, v) for u, v in imps)       # y.. -> strict descendants of x
            into_all = any(desc(y, u) and desc(x, v) for u, v in imps)                  # y.. -> x or below
            rules = [
                ("not-import-sub", lambda: Rule().modules_that().are_named(y).should_not().import_modules_that().are_sub_modules_of(x), not into_sub),
                ("sub-not-imported-by", lambda: Rule().modules_that().are_sub_modules_of(x).should_not().be_imported_by_modules_that().are_named(y), not into_sub),
                ("import-named", lambda: Rule().modules_that().are_named(y).should().import_modules_that().are_named(x), into_all),
            ]
            for name, mk, expect_pass in rules:
                try:
                    mk().assert_applies(ev)
                    got = "PASS"
                except AssertionError:
                    got = "FAIL"
                except Exception as e:  # noqa: BLE001
                    got = "ERR:" + err_kind(e)
                out.append((name, got, "PASS" if expect_pass else "FAIL", (x, y)))
    return out


def scanned_rule_stream(ctx, stream, n):
    rng = ctx.rng("scanned-rules")
    cases = []
    for _ in range(n):
        tree = sc.gen_tree(rng, comps=["a", "ab", "a_b", "util", "utils", "core", "core_x", "m", "py", "pyx"], max_depth=4)
        sc.fill_sources(rng, tree, externals=False)
        cases.append({"tree": tree, "root": "proj", "mp": "proj", "seed": rng.randrange(1 << 30)})
    res = pmap(_scanned_rule_case, cases, ctx.jobs, chunk=10)
    for case, outs in zip(cases, res):
        for name, got, want, xy in outs:
            stream.evaluations += 1
            stream.count(name + ":" + got.split(":")[0])
            if name == "SCANERR":
                continue
            stream.nontrivial.add(digest((sorted(case["tree"]), xy, name)))
            if got != want:
                ctx.violations.append({"kind": "property-violation",
                                       "what": f"on a scanned architecture the rule '{name}' for (X, Y) = {xy} gives {got}; dotted-name extension of the scanned modules and the scanned imports give {want}",
                                       "files": dict(case["tree"]), "module_path": case["mp"]})
                if len(ctx.violations) >= 3:
                    return


def _parent_relative_case(case):
    treeA, treeB, mp = case
    with sc.write_project(treeA) as pa:
        a = sc.real_scan(pa, "proj", mp)
    with sc.write_project(treeB) as pb:
        b = sc.real_scan(pb, "proj", mp)
        line = sc.scan_line("scan", pb.path("proj"), treeB, "proj", mp)
    return a, b, line


def parent_relative(ctx, stream, n):
    """sub-scan with imports spelled relative to module_path's parent vs fully qualified: same architecture"""
    rng = ctx.rng("parent-relative")
    cases = []
    while len(cases) < n:
        tree = sc.gen_tree(rng, comps=["app", "apps", "core", "plugins", "db", "app_x", "m", "proj", "proj"], max_depth=5, init_prob=0.5, extra_files=False)
        dirs = sorted(p for p, v in tree.items() if v is None and p != "proj")
        if not dirs:
            continue
        mp = rng.choice(dirs)
        pre = mp.replace("/", ".")
        parent = ".".join(pre.split(".")[:-1])
        inside = sorted(sc.module_of(p) for p, v in tree.items() if (v is None or p.endswith(".py")) and (p == mp or p.startswith(mp + "/")))
        files = [p for p in tree if p.endswith(".py") and p.startswith(mp + "/")]
        # with repeated directory names (proj/proj/...) a fully qualified name can ALSO be read as relative to module_path's
        # parent; such spellings are inherently ambiguous (the prefixed candidate wins) and are not generated
        allmods = {sc.module_of(p) for p, v in tree.items() if v is None or p.endswith(".py")}
        inside = [t for t in inside if parent + "." + t not in allmods]
        if not files or len(inside) < 2:
            continue
        ta, tb = dict(tree), dict(tree)
        for f in files:
            targets = rng.sample(inside, min(len(inside), rng.randint(1, 3)))
            qa = qb = ""
            for t in targets:
                rel = t[len(parent) + 1:]
                form = rng.randrange(4)
                if form == 1 and "." in rel:
                    # from <package> import <sub module>: the package is spelled either way, the sub module is looked up
                    (pa, na), (pb, nb) = t.rsplit(".", 1), rel.rsplit(".", 1)
                    qa += f"from {pa} import {na}\n"
                    qb += f"from {pb} import {nb}\n"
                elif form == 2:
                    qa += f"from {t} import thing\n"
                    qb += f"from {rel} import thing\n"
                elif form == 3:
                    qa += f"import {t} as q\n"
                    qb += f"import {rel} as q\n"
                else:
                    qa += f"import {t}\n"
                    qb += f"import {rel}\n"
            ta[f], tb[f] = qa, qb
        cases.append((ta, tb, mp))
    res = pmap(_parent_relative_case, cases, ctx.jobs, chunk=10)
    ans = run_driver([r[2] for r in res])
    for (ta, tb, mp), (a, b, line), an in zip(cases, res, ans):
        stream.evaluations += 1
        stream.nontrivial.add(digest((sorted(tb.items()), mp)))
        if a != b:
            ctx.violations.append({"kind": "property-violation", "what": "imports written relative to module_path's parent resolve differently from the fully qualified spelling",
                                   "files_parent_relative": tb, "files_qualified": ta, "module_path": mp, "scan_parent_relative": b, "scan_qualified": a})
            if len(ctx.violations) >= 3:
                return
        elif b != parse_answer(an).get("M"):
            if len(ctx.broken) < 5:
                ctx.broken.append({"kind": "correspondence-broken", "what": "correspondence sub-scan with parent-relative imports = PtaModel.generateGraph",
                                   "theorem": "Pta.C04.*", "files": tb, "module_path": mp, "impl": b, "model": parse_answer(an).get("M")})


def _symlink_case(case):
    """the same tree written with regular files and with some entries replaced by symbolic links (to a store outside
    root_path, or to another file of the tree with the same content): module names come from the path that was walked"""
    import os
    import shutil

    tree, mp, ext_links, dir_link, inner = case
    with sc.write_project(tree) as pa:
        plain = sc.real_scan(pa, "proj", mp)
        line = sc.scan_line("scan", pa.path("proj"), tree, "proj", mp)
    with sc.write_project(tree) as pb:
        store = pb.path("_store")
        os.makedirs(store)
        if dir_link:
            shutil.move(pb.path(dir_link), os.path.join(store, "d0"))
            os.symlink(os.path.join(store, "d0"), pb.path(dir_link))
        for i, f in enumerate(ext_links):
            if dir_link and f.startswith(dir_link + "/"):
                continue
            shutil.move(pb.path(f), os.path.join(store, f"f{i}.py"))
            os.symlink(os.path.join(store, f"f{i}.py"), pb.path(f))
        if inner:
            src, dst = inner
            if not os.path.islink(pb.path(dst)) and not (dir_link and (dst.startswith(dir_link + "/") or src.startswith(dir_link + "/"))):
                os.remove(pb.path(dst))
                os.symlink(os.path.relpath(pb.path(src), os.path.dirname(pb.path(dst))), pb.path(dst))
        linked = sc.real_scan(pb, "proj", mp)
    return plain, linked, line


def symlink_stream(ctx, stream, n):
    rng = ctx.rng("symlinks")
    cases = []
    while len(cases) < n:
        tree = sc.gen_tree(rng, extra_files=False)
        sc.fill_sources(rng, tree, externals=False)
        files = sorted(p for p in tree if p.endswith(".py"))
        dirs = sorted(p for p, v in tree.items() if v is None and p != "proj")
        if not files:
            continue
        ext_links = rng.sample(files, rng.randint(0, min(2, len(files))))
        dir_link = rng.choice(dirs) if dirs and rng.random() < 0.4 else None
        inner = None
        if len(files) >= 2 and rng.random() < 0.5:
            src, dst = rng.sample(files, 2)
            tree[dst] = tree[src]
            inner = (src, dst)
        if not ext_links and not dir_link and not inner:
            continue
        mp = "proj" if rng.random() < 0.7 or not dirs else rng.choice(dirs)
        if dir_link and (mp == dir_link or mp.startswith(dir_link + "/")):
            mp = "proj"
        cases.append((tree, mp, ext_links, dir_link, inner))
    res = pmap(_symlink_case, cases, ctx.jobs, chunk=10)
    ans = run_driver([r[2] for r in res])
    for (tree, mp, ext_links, dir_link, inner), (plain, linked, line), an in zip(cases, res, ans):
        stream.evaluations += 1
        stream.count("linked:" + "+".join(k for k, v in (("files", ext_links), ("dir", dir_link), ("inner", inner)) if v))
        stream.nontrivial.add(digest((sorted(tree.items()), mp, ext_links, dir_link, inner)))
        if plain != linked:
            ctx.violations.append({"kind": "property-violation",
                                   "what": "modules of symbolically linked files/directories are not named by their dotted path in the scanned tree",
                                   "files": tree, "module_path": mp, "linked_files": ext_links, "linked_directory": dir_link,
                                   "link_inside_tree (target, link)": inner, "scan_regular_files": plain, "scan_with_links": linked})
            if len(ctx.violations) >= 3:
                return
        elif plain != parse_answer(an).get("M"):
            if len(ctx.broken) < 5:
                ctx.broken.append({"kind": "correspondence-broken", "what": "correspondence scan = PtaModel.generateGraph (symlink stream)",
                                   "theorem": "Pta.C04.*", "files": tree, "module_path": mp, "impl": plain, "model": parse_answer(an).get("M")})



def _module_object_case(case):
    """the module-object entry point with a complete option set vs the path entry point with the same option set"""
    import types as _types

    from ..impl import err_kind, graph_snapshot
    from pytestarch import get_evaluable_architecture_for_module_objects

    tree, mp, kw, plain_module = case
    with sc.write_project(tree) as proj:
        path = sc.real_scan(proj, "proj", mp, **kw)
        rm, mm = _types.ModuleType("r"), _types.ModuleType("m")
        rm.__file__ = proj.path("proj") + "/__init__.py"
        # a module object that is a plain file stands for the directory that holds it (dirname of __file__)
        mm.__file__ = proj.path(mp) + ("/" + plain_module if plain_module else "/__init__.py")
        if not plain_module and len(mp) % 3 == 0:
            # a package object whose __path__ has been extended in front (plugin / override directories): the entry point is
            # documented to work from the module's own file
            os.makedirs(proj.path("_overrides"), exist_ok=True)
            mm.__path__ = [proj.path("_overrides"), proj.path(mp)]
            rm.__path__ = [proj.path("_overrides"), proj.path("proj")]
        try:
            obj = sc.snapshot_str(*graph_snapshot(get_evaluable_architecture_for_module_objects(rm, mm, **kw)))
        except Exception as e:  # noqa: BLE001
            obj = "ERR:" + err_kind(e)
        if path == obj and not path.startswith("ERR"):
            # the tree changes (a new module below module_path), the SAME module objects and options are used again: the
            # architecture is built from the files as they are now
            with open(os.path.join(proj.path(mp), "zz_added_later.py"), "w") as f:
                f.write("import os\n")
            path = sc.real_scan(proj, "proj", mp, **kw)
            try:
                obj = sc.snapshot_str(*graph_snapshot(get_evaluable_architecture_for_module_objects(rm, mm, **kw)))
            except Exception as e:  # noqa: BLE001
                obj = "ERR:" + err_kind(e)
            if path != obj:
                obj = "AFTER-EDIT:" + obj
    return path, obj


def module_object_options(ctx, stream, n):
    rng = ctx.rng("module-objects")
    cases = []
    while len(cases) < n:
        tree = sc.gen_tree(rng)
        sc.fill_sources(rng, tree, externals=True)
        dirs = sorted(p for p, v in tree.items() if v is None)
        mp = rng.choice(dirs)
        names = sorted({c for p in tree for c in p.split("/")[1:]}) or ["a"]
        kw = {}
        k = rng.randrange(4)
        c = rng.choice(names).replace(".py", "")
        if k == 1:
            kw["exclusions"] = (rng.choice(["*" + c, "*" + c + "*", "*" + c + ".py"]),)
        elif k == 2:
            kw["exclusions"] = ()
            kw["regex_exclusions"] = (".*/" + re.escape(c) + rng.choice(["$", r"(\.py)?$", ""]),)
        if rng.random() < 0.5:
            kw["exclude_external_libraries"] = False
            e = rng.randrange(3)
            if e == 1:
                kw["external_exclusions"] = (rng.choice(["os*", "*lib*", "ext*", "*x"]),)
            elif e == 2:
                kw["regex_external_exclusions"] = (rng.choice([r"os(\..*)?$", r"ext\.lib", r".*x"]),)
        if rng.random() < 0.5:
            kw["level_limit"] = rng.randint(1, 3)
        files_here = sorted(p.split("/")[-1] for p in tree if p.endswith(".py") and p.rsplit("/", 1)[0] == mp and not p.endswith("__init__.py"))
        plain = rng.choice(files_here) if files_here and rng.random() < 0.3 else None
        cases.append((tree, mp, kw, plain))
    res = pmap(_module_object_case, cases, ctx.jobs, chunk=10)
    for (tree, mp, kw, plain), (path, obj) in zip(cases, res):
        stream.evaluations += 1
        stream.count("options:" + "+".join(sorted(kw)) if kw else "options:default")
        if kw:
            stream.nontrivial.add(digest((sorted(tree.items()), mp, sorted(kw.items()), plain)))
        if path != obj:
            ctx.violations.append({"kind": "property-violation",
                                   "what": ("after a file was added below module_path, a second call of the module-object entry point with the same module objects and options still builds the old architecture"
                                            if obj.startswith("AFTER-EDIT:") else
                                            "the module-object entry point builds a different architecture than the path entry point called with the same options"),
                                   "files": tree, "module_path": mp, "options": {k: list(v) if isinstance(v, tuple) else v for k, v in kw.items()},
                                   "module___file__": plain or "__init__.py", "path_entry": path, "module_object_entry": obj})
            if len(ctx.violations) >= 3:
                return



SPELLINGS = ["{p}/", "{p}//", "{d}//{b}", "{d}/./{b}", "PATH:{p}", "PATH:{p}/"]


def _spelling_case(case):
    """the same directories spelled differently (trailing or doubled separators, a `.` segment, pathlib.Path objects)
    denote the same root_path / module_path: the architecture must not depend on the spelling"""
    import os
    from pathlib import Path

    from ..impl import err_kind, get_evaluable_architecture, graph_snapshot

    tree, mp, sr, sm, kw = case

    def spell(p, form):
        d, b = os.path.split(p)
        t = form.format(p=p, d=d, b=b)
        return Path(t[5:]) if t.startswith("PATH:") else t

    with sc.write_project(tree) as proj:
        ref = sc.real_scan(proj, "proj", mp, **kw)
        cwd = os.getcwd()
        try:
            if sr == "REL" or sm == "REL":
                # both paths relative to the working directory (the directory that holds the project)
                os.chdir(proj.path())
                ev = get_evaluable_architecture("proj" if sr == "REL" else proj.path("proj"), mp if sm == "REL" else proj.path(mp), **kw)
            else:
                ev = get_evaluable_architecture(spell(proj.path("proj"), sr) if sr else proj.path("proj"),
                                                spell(proj.path(mp), sm) if sm else proj.path(mp), **kw)
            got = sc.snapshot_str(*graph_snapshot(ev))
        except Exception as e:  # noqa: BLE001
            got = "ERR:" + err_kind(e)
        finally:
            os.chdir(cwd)
    return ref, got


def path_spellings(ctx, stream, n):
    rng = ctx.rng("spellings")
    cases = []
    while len(cases) < n:
        tree = sc.gen_tree(rng)
        sc.fill_sources(rng, tree, externals=True)
        dirs = sorted(p for p, v in tree.items() if v is None)
        mp = "proj" if rng.random() < 0.6 else rng.choice(dirs)
        sr = rng.choice(SPELLINGS + [None])
        sm = rng.choice(SPELLINGS + [None])
        if rng.random() < 0.25:
            sr = sm = "REL"
        if sr is None and sm is None:
            continue
        kw = {}
        if rng.random() < 0.3:
            kw["level_limit"] = rng.randint(1, 2)
        if rng.random() < 0.3:
            kw["exclude_external_libraries"] = False
        cases.append((tree, mp, sr, sm, kw))
    res = pmap(_spelling_case, cases, ctx.jobs, chunk=10)
    for (tree, mp, sr, sm, kw), (ref, got) in zip(cases, res):
        stream.evaluations += 1
        stream.count(f"root:{sr} module:{sm}")
        stream.nontrivial.add(digest((sorted(tree.items()), mp, sr, sm, sorted(kw.items()))))
        if ref != got:
            ctx.violations.append({"kind": "property-violation",
                                   "what": "the architecture depends on how root_path / module_path are spelled (same directories)",
                                   "files": tree, "module_path": mp, "root_spelling": sr, "module_spelling": sm, "options": kw,
                                   "plain_spelling": ref, "other_spelling": got})
            if len(ctx.violations) >= 3:
                return


def coverage_note(ctx):
    src = "X = Y = E = 1\n" + "".join(sc.place("import os", [p]) for p in sc.POS_NAMES)
    reached = sc.positions_reached(src)
    allpos = sc.stmt_list_positions()
    # positions that hold statements directly
    stmt_holders = {(c, f) for (c, f) in allpos if f in ("body", "orelse", "finalbody")} | {("ExceptHandler", "body"), ("match_case", "body")}
    gaps = sorted(stmt_holders - reached - {("Module", "body")} - {(c, f) for (c, f) in stmt_holders if c in ("Expression", "Interactive", "Lambda", "IfExp")})
    ctx.notes.append(f"statement-list positions reached by the template corpus: {sorted(reached)}; not reached: {gaps}")


def run(ctx: Ctx, aspect="C02"):
    run_witnesses(ctx)
    coverage_note(ctx)
    quick = ctx.quick()
    rng = ctx.rng("positions")
    s = Stream(ctx, "import forms x statement positions on a fixed package tree", exhaustive=False)
    judge(ctx, s, evaluate(ctx, position_cases(ctx, rng)), aspect)
    s.finish()
    s = Stream(ctx, "random project trees x random imports x module paths")
    rng = ctx.rng("trees")
    n = ctx.size(1000, 30000)
    done = 0
    while done < n and ctx.left() > 30 and not ctx.violations:
        cs = random_cases(ctx, rng, min(300, n - done))
        judge(ctx, s, evaluate(ctx, cs), aspect)
        done += 300
    s.finish()
    if aspect == "C02" and not ctx.violations:
        # the claim is not restricted to the default options: with external libraries included and external exclusion
        # patterns given (also ones that textually match internal names) every statement still yields its internal edge
        from . import c10

        s = Stream(ctx, "non-default options: internal imports under externals included / external exclusion patterns (relational)")
        c10.stream_cases(ctx, s, ctx.size(300, 3000), ctx.rng("c02-options"))
        s.finish()
    if aspect == "C02" and not ctx.violations:
        # ... nor to scans without a level limit: with level_limit the import edges are those of the full scan between the
        # truncated names (stream shared with C09; module_path at the root, one and several directories below it)
        from . import c09

        s = Stream(ctx, "level-limited scans: import edges = edges of the full scan between truncated names (shared with C09)")
        c09.scan_stream(ctx, s, ctx.size(200, 4000), ctx.rng("c02-limit"))
        s.finish()
    if aspect == "C04" and not ctx.violations:
        s = Stream(ctx, "rules about 'sub modules of X' evaluated on scanned architectures (sub modules = dotted extensions)")
        scanned_rule_stream(ctx, s, ctx.size(400, 12000))
        s.finish()
    if not ctx.violations:
        s = Stream(ctx, "sub-scans: imports spelled relative to module_path's parent vs fully qualified (repeated directory names)")
        parent_relative(ctx, s, ctx.size(500, 12000))
        s.finish()
    if aspect == "C02" and not ctx.violations:
        s = Stream(ctx, "trees with symbolic links (a file or package reachable under two names) vs the same tree with regular files")
        symlink_stream(ctx, s, ctx.size(150, 3000))
        s.finish()
    if aspect == "C02" and not ctx.violations:
        from . import c08

        s = Stream(ctx, "imports under exclusion patterns (also patterns differing from a name only in letter case; shared with C08)")
        c08.tree_stream(ctx, s, ctx.size(400, 4000), ctx.rng("c02-exclusions"))
        s.finish()
    if aspect == "C04" and not ctx.violations:
        s = Stream(ctx, "trees with symbolic links (files and directories, to outside root_path and inside the tree) vs the same tree with regular files")
        symlink_stream(ctx, s, ctx.size(300, 6000))
        s.finish()
    if aspect == "C04" and not ctx.violations:
        s = Stream(ctx, "module-object entry point vs path entry point under complete option sets (exclusions, regex exclusions, externals, external patterns, level limit; package and plain-file module objects)")
        module_object_options(ctx, s, ctx.size(300, 6000))
        s.finish()
    if aspect == "C04" and not ctx.violations:
        s = Stream(ctx, "root_path / module_path spelled with trailing or doubled separators, `.` segments, pathlib.Path objects vs the plain spelling")
        path_spellings(ctx, s, ctx.size(300, 6000))
        s.finish()
    if aspect == "C04" and not ctx.violations:
        from . import c08

        s = Stream(ctx, "modules and imports under exclusion patterns drawn from the tree's own names (several sibling directories excluded at once; shared with C08)")
        c08.tree_stream(ctx, s, ctx.size(800, 8000), ctx.rng("c04-exclusions"))
        s.finish()
    return RULE
