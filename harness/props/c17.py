"""C17 - plot labels: aliases replace the nearest aliased ancestor, all modules labelled; kwargs passed through."""
from __future__ import annotations

import itertools

from .. import gen
from ..core import Ctx, InfraError, Stream, digest, pmap
from ..proto import enc, enc_list, enc_pairs, parse_answer, run_driver
from ..rules_common import run_witnesses

RULE = (
    "cases = (module tree, alias map, kwargs): every tree shape <= 4 nodes x every alias map over subsets (<= 3) of its "
    "modules, and seeded random trees (adversarial component names: siblings that are string prefixes of each other, "
    "regex metacharacters) x alias maps over <= 4 modules (nested aliased modules; alias strings with dots, backslashes, "
    "regex metacharacters; sometimes an alias for a module that does not exist) x presence/absence of spacing and two "
    "pass-through options. networkxgraph.draw_networkx / spring_layout are intercepted in-process; observed: labels dict, "
    "KeyError text, received kwargs. Compared with PtaModel.plotLabels / drawKwargs and PtaSpec.label. "
    "distinct_nontrivial = distinct cases with >= 1 alias on an existing module that has descendants or prefix siblings."
)

ALIAS_TEXT = ["A", "B.x", "a\\1", "x.*", "(g)", "", "p.a", "Z+", "\\g<0>"]


def impl_label(case) -> str:
    import pytestarch.eval_structure.networkxgraph as nxg
    from ..impl import make_graph

    seen = {}
    sentinel_pos = object()
    orig_draw, orig_spring = nxg.draw_networkx, nxg.spring_layout
    nxg.draw_networkx = lambda g, **kw: seen.update(kw)
    nxg.spring_layout = lambda g, **kw: sentinel_pos
    kwargs = dict(case["kw"])
    if case["aliases"] is not None:
        al = dict(case["aliases"])
        # any mapping: a dict, an OrderedDict, a defaultdict (whose factory must not label modules nobody aliased)
        k = sum(len(a) for a in al) % 5
        if k == 1:
            import collections

            d = collections.defaultdict(lambda: "?")
            d.update(al)
            al = d
        elif k == 2:
            import collections

            al = collections.OrderedDict(al)
        kwargs["aliases"] = al
    given = dict(kwargs)
    try:
        try:
            ev = make_graph(case.get("nodes_given") or case["nodes"], [], case.get("lim"))
            if case.get("twice") and case["aliases"]:
                # the same evaluable drawn before with other alias texts for the same modules: must not influence this call
                try:
                    ev.visualize(aliases={k: "ZZ" + v for k, v in case["aliases"]})
                except Exception:  # noqa: BLE001
                    pass
                seen.clear()
            ev.visualize(**kwargs)
        except KeyError as e:
            # which aliased module does the error name? Only aliased modules that really are absent are candidates
            # (an existing one-letter module name is a substring of any English sentence); the current wording is tried
            # first, then the first absent candidate (dict order) whose name occurs in the message.
            msg = str(e.args[0])
            present = set(case["nodes"]) if case.get("lim") is None else {".".join(n.split(".")[: case["lim"] + 1]) for n in case["nodes"]}
            absent = [k for k, _ in case["aliases"] if k not in present]
            import re as _re
            m = _re.search(r"for module (.*), but the module does not exist", msg, _re.S)
            if m and m.group(1) in absent:
                return "ERR:lookupError:" + enc(m.group(1))
            missing = [k for k in absent if k in msg]
            return "ERR:lookupError:" + (enc(missing[0]) if missing else "?")
        except Exception as e:  # noqa: BLE001
            return "ERR:other:" + type(e).__name__
    finally:
        nxg.draw_networkx, nxg.spring_layout = orig_draw, orig_spring
    labels = seen.get("labels")
    lab = "NOLABELS" if labels is None else "OK:" + ",".join(sorted(enc(k) + ">" + enc(v) for k, v in labels.items()))
    # pass-through
    passed = True
    for k, v in given.items():
        if k in ("spacing", "aliases"):
            if k in seen:
                passed = False
        elif k not in seen or seen[k] is not v:
            passed = False
    if "spacing" in given and seen.get("pos") is not sentinel_pos:
        passed = False
    keys = ",".join(sorted(enc(k) for k in seen))
    return f"{lab} K={keys} P={'1' if passed else '0'}"


def label_line(case) -> str:
    kw = list(case["kw"].keys()) + (["aliases"] if case["aliases"] is not None else [])
    al = enc_pairs(case["aliases"] or [])
    lim = "" if case.get("lim") is None else f" lim={case['lim']}"
    return f"label nodes={enc_list(case.get('nodes_given') or case['nodes'])} imps= al={al} kw={','.join(enc(k) if k not in ('spacing','aliases') else k for k in kw)}{lim}"


def judge(ctx, stream, cases):
    impl = pmap(impl_label, cases, ctx.jobs, chunk=500)
    ans = run_driver([label_line(c) for c in cases])
    for c, i, a in zip(cases, impl, ans):
        a = parse_answer(a)
        stream.evaluations += 1
        m, s = a.get("M", "?"), a.get("S", "?")
        if (m.startswith("OK") != s.startswith("OK")) or (m.startswith("OK") and m != s):
            # M = S is the theorem's statement only when aliased names are WF (no empty alias issue): re-judge below
            pass
        ibody = i.split(" ")[0]
        stream.count("impl:" + ibody.split(":")[0] + (":" + ibody.split(":")[1] if ibody.startswith("ERR") else ""))
        al = c["aliases"] or []
        if any(k in c["nodes"] and any(n != k and n.startswith(k) for n in c["nodes"]) for k, _ in al):
            stream.nontrivial.add(digest((c["nodes"], al, sorted(c["kw"]))))
        if len(ctx.samples) < 3 and len(al) >= 2 and ibody.startswith("OK"):
            ctx.samples.append({"line": label_line(c), "impl": i, "answer": a})
        bad = None
        if c["aliases"] is None:
            if ibody != "NOLABELS":
                bad = "labels passed although no aliases were given"
        elif s.startswith("ERR"):
            if not ibody.startswith("ERR:lookupError"):
                bad = f"alias for a module that does not exist is not rejected: {ibody}"
            elif ibody != m:
                bad = f"error does not name the missing module: impl {ibody}, expected {m}"
        elif ibody != s:
            bad = "labels differ from the documented labelling"
        if not bad and not ibody.startswith("ERR"):
            if " P=1" not in i:
                bad = "remaining drawing options are not passed through unchanged"
            elif i.split(" K=")[1].split(" ")[0] != a.get("K"):
                bad = f"keyword arguments received by the backend differ: {i.split(' K=')[1].split(' ')[0]} vs {a.get('K')}"
        if bad:
            ctx.violations.append({"kind": "property-violation", "what": bad, "line": label_line(c), "impl": i, "model": m, "spec": s,
                                   "python": f"from harness.props.c17 import impl_label; print(impl_label({c!r}))"})
            if len(ctx.violations) >= 5:
                return
            continue
        if c["aliases"] is not None and ibody != m:
            ctx.broken.append({"kind": "correspondence-broken", "what": "correspondence impl = PtaModel.plotLabels",
                               "theorem": "Pta.C17.* are statements about PtaModel.plotLabels", "line": label_line(c), "impl": i, "model": m})


def run(ctx: Ctx):
    run_witnesses(ctx)
    quick = ctx.quick()
    s = Stream(ctx, "tree shapes <= 4 nodes x all alias maps over <= 3 modules", exhaustive=True)
    cases = []
    for nodes in gen.tree_shapes(4):
        for k in range(0, 4):
            for mods in itertools.combinations(nodes, k):
                al = [(m, "AL%d" % j) for j, m in enumerate(mods)]
                cases.append({"nodes": nodes, "aliases": al, "kw": {}})
                cases.append({"nodes": nodes, "aliases": al, "kw": {"spacing": 0.5, "node_size": 7}})
        cases.append({"nodes": nodes, "aliases": None, "kw": {"font_size": 3}})
    judge(ctx, s, cases)
    s.finish()
    s = Stream(ctx, "random trees with adversarial names x random alias maps")
    rng = ctx.rng("labels")
    cases = []
    for _ in range(ctx.size(15000, 600000)):
        nodes = gen.random_tree(rng, max_nodes=10, comps=gen.ADVERSARIAL)
        k = rng.randint(0, min(4, len(nodes)))
        mods = rng.sample(nodes, k)
        al = [(m, rng.choice(ALIAS_TEXT)) for m in mods]
        if al and rng.random() < 0.15:
            # an alias whose text is the module's own name (keeps a sub package under its full name below an aliased ancestor)
            j = rng.randrange(len(al))
            al[j] = (al[j][0], al[j][0])
        r = rng.random()
        if r < 0.15 and nodes:
            # an alias for a module that does not exist (misspelt / truncated / sibling-like)
            base = rng.choice(nodes)
            cand = rng.choice([base + "x", base[:-1] or "zz", base + ".zz", "zz"])
            if cand not in nodes:
                al.insert(rng.randint(0, len(al)), (cand, rng.choice(["Q", cand])))
        kw = {}
        if rng.random() < 0.5:
            kw["spacing"] = rng.random()
        if rng.random() < 0.5:
            kw["node_size"] = [rng.randint(1, 9)]
        if rng.random() < 0.3:
            kw["ax"] = object()
        if rng.random() < 0.15 and nodes:
            # a drawing option like any other: it restricts what the backend draws, not which modules get a label
            kw["nodelist"] = rng.sample(nodes, rng.randint(1, len(nodes)))
        if rng.random() < 0.2:
            # labels switched off: the aliases are still validated, the option is handed on like any other
            kw["with_labels"] = rng.random() < 0.3
        case = {"nodes": nodes, "aliases": al, "kw": kw}
        r2 = rng.random()
        if r2 < 0.2:
            # the module list handed to the graph omits ancestor packages (as a scan with module_path below root_path does);
            # the graph still contains them and they must be labelled / may be aliased
            inner = [n for n in nodes if any(m.startswith(n + ".") for m in nodes)]
            drop = set(rng.sample(inner, min(len(inner), rng.randint(1, 2)))) if inner else set()
            given = [n for n in nodes if n not in drop]
            if given:
                case["nodes_given"] = given
        elif r2 < 0.4:
            case["twice"] = True
        if rng.random() < 0.2 and nodes:
            # a level-limited architecture: modules deeper than the limit do not exist in it, an alias for one is rejected
            case["lim"] = rng.randint(0, max(0, max(n.count(".") for n in nodes) - 1))
        cases.append(case)
    judge(ctx, s, cases)
    s.finish()
    return RULE
