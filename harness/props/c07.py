"""C07 - DiagramRule passes exactly when the imports conform to the diagram."""
from __future__ import annotations

from .. import gen
from ..core import Ctx, InfraError, Stream, digest, pmap
from ..proto import enc, enc_list, enc_pairs, parse_answer, run_driver
from ..rules_common import run_witnesses

RULE = (
    "cases = (component relation over 2-6 components, import graph, mode, naming option): components are pairwise "
    "unrelated modules of a random tree (with sub-modules and bystander modules); imports random (WF); both modes "
    "(should-only / should); both naming options (with_base_module on bare names, and fully qualified names in the file); "
    "the configuration calls on the rule object in the documented chain or as a generated sequence (any order, repeated, with "
    "overwritten decoy values, chained or as statements: the last file / last base module count); a stream with components that are "
    "package trees 3-4 levels deep with intra-component imports. "
    "Real DiagramRule().from_file(..).assert_applies vs PtaModel.diagramAssert (verdict and set of message lines) vs "
    "PtaSpec.conforms; and with_base_module(p) vs the same diagram written with p.name components (relational). "
    "distinct_nontrivial = distinct cases with >= 1 arrow and >= 1 import between two components' sub trees."
)


def render(components, arrows, rng):
    lines = [f"[{c}]" for c in components if rng.random() < 0.7 or not any(c in e for e in arrows)]
    for a, b in arrows:
        lines.append(f"[{a}] --> [{b}]" if rng.random() < 0.6 else f"[{b}] <-- [{a}]")
    rng.shuffle(lines)
    return "@startuml\n" + "\n".join(lines) + "\n@enduml"


def _deepen(rng, nodes, base, kids, comps_pool):
    """module trees with two to three more levels below the packages p.k (sub packages of sub packages), so that a component
    is a real package tree and not only a package with leaf modules"""
    nodes = list(nodes)
    for k in kids:
        if rng.random() < 0.8:
            pk = f"{base}.{k}"
            subs = [n for n in nodes if n.startswith(pk + ".") and n.count(".") == pk.count(".") + 1 and not n.endswith(".__init__")]
            if not subs or rng.random() < 0.3:
                subs.append(f"{pk}.{rng.choice(comps_pool)}")
                nodes.append(subs[-1])
            subs = list(dict.fromkeys(subs))
            for sub in rng.sample(subs, rng.randint(1, len(subs))):
                for t in rng.sample(comps_pool, rng.randint(1, 2)):
                    nodes.append(f"{sub}.{t}")
                    if rng.random() < 0.3:
                        nodes.append(f"{sub}.{t}.{rng.choice(comps_pool)}")
    return list(dict.fromkeys(nodes))


def _below(nodes, comp, levels=0):
    return [n for n in nodes if gen.is_desc(n, comp) and n.count(".") >= comp.count(".") + levels]


def make_case(rng, comps_pool=gen.PLAIN, absent=None, nested=False, big=False, deep=False):
    # now and then the base package is called like a standard library module (a root package `platform`, `code`, ...)
    base = rng.choice(["p", "p", "p", "platform", "code"])
    pool = [c for c in comps_pool if c != base]
    if big:
        pool = list(dict.fromkeys(pool + ["e", "f", "g", "h", "k", "n", "r", "s", "t", "u"]))
    kids = rng.sample(pool, rng.randint(9, 12) if big else rng.randint(2, min(6, len(pool))))
    if rng.random() < 0.25:
        # a component named like the base module itself (package p.p): with_base_module("p") must still mean p.p
        kids[rng.randrange(len(kids))] = base
    nodes = [base] + [f"{base}.{k}" for k in kids]
    for k in kids:
        for sub in rng.sample(comps_pool, rng.randint(0, 2)):
            nodes.append(f"{base}.{k}.{sub}")
    for k in kids:
        if rng.random() < 0.2:
            nodes.append(f"{base}.{k}.__init__")       # the package's own __init__ module (scanned by default)
    # bystanders: other packages, a module of the base package that is no component, modules called like library modules
    for b in rng.sample(["q", f"{base}.zz", "q.r", "json", "os.path", f"{base}.__init__"], rng.randint(0, 3)):
        nodes.append(b)
        if "." in b and b.split(".")[0] not in nodes:
            nodes.append(b.split(".")[0])
    nodes = list(dict.fromkeys(nodes))
    if deep:
        nodes = _deepen(rng, nodes, base, kids, comps_pool)
    ncomp = rng.randint(2, len(kids))
    comps = kids[:ncomp]
    if nested:
        # a package AND one of its sub packages drawn as two components (C07 speaks of every parsed diagram): what the generated
        # rules demand is then decided rule by rule by the rule semantics (see nested_stream)
        inner = [n[len(base) + 1:] for n in nodes if n.count(".") == 2 and n.split(".")[1] in comps]
        if inner:
            comps = comps + rng.sample(inner, min(len(inner), rng.randint(1, 2)))
    arrows = sorted({tuple(rng.sample(comps, 2)) for _ in range(rng.randint(0, 2 * ncomp))})
    # imports: mostly conforming, then perturbed
    imps = set()
    pairs = gen.wf_pairs(nodes)
    for a, b in arrows:
        if rng.random() < 0.85:
            low = _below(nodes, f"{base}.{a}", 2) if deep and rng.random() < 0.7 else []
            src = rng.choice(low or [n for n in nodes if gen.is_desc(n, f"{base}.{a}")])
            dst = rng.choice([n for n in nodes if gen.is_desc(n, f"{base}.{b}")])
            imps.add((src, dst))
    if deep:
        # imports INSIDE a component (a module of the component uses a module lying deeper in the same component): they are
        # irrelevant for what the diagram demands, whichever module of the component makes the drawn / undrawn imports
        for k in kids:
            low = _below(nodes, f"{base}.{k}", 2)
            for _ in range(rng.choice([0, 1, 1, 2]) if low else 0):
                dst = rng.choice(low)
                srcs = [n for n in _below(nodes, f"{base}.{k}", 1) if not gen.related(n, dst)]
                if srcs:
                    imps.add((rng.choice(srcs), dst))
            if low and rng.random() < 0.5 and len(kids) > 1:
                # an import made by a deep module to some other package (drawn or not)
                other = rng.choice([x for x in kids if x != k])
                imps.add((rng.choice(low), rng.choice(_below(nodes, f"{base}.{other}"))))
    for _ in range(rng.choice([0, 0, 1, 1, 2, 3]) if not big else rng.randint(12, 30)):
        imps.add(rng.choice(pairs))
    imps = [e for e in sorted(imps) if e[0] != e[1] and not e[1].startswith(e[0] + ".")]
    mode_only = rng.random() < 0.6
    qualified = rng.random() < 0.5
    absent_comp = None
    if absent or (absent is None and rng.random() < 0.08):
        # the architecture lacks one component of the diagram (while other generated rules may well be violated): the
        # diagram rule must end in a lookup error, whatever else it has found before
        absent_comp = rng.choice(comps)
        gone = f"{base}.{absent_comp}"
        nodes = [n for n in nodes if not gen.is_desc(n, gone)]
        imps = [e for e in imps if not gen.is_desc(e[0], gone) and not gen.is_desc(e[1], gone)]
    return {"nodes": nodes, "imps": imps, "base": base, "comps": comps, "arrows": arrows, "only": mode_only,
            "qualified": qualified, "seed": rng.random(), "absent": absent_comp}


def _texts(case):
    import random

    r = random.Random(case["seed"])
    bare = render(case["comps"], case["arrows"], r)
    r = random.Random(case["seed"])
    qual = render([f"{case['base']}.{c}" for c in case["comps"]], [(f"{case['base']}.{a}", f"{case['base']}.{b}") for a, b in case["arrows"]], r)
    return bare, qual


def call_sequence(case, which):
    """the configuration calls made on one DiagramRule object before assert_applies, as (op, argument, chained?) triples.
    DiagramRule is one object with independent setters (from_file, with_base_module, base_module_included_in_module_names):
    what counts is the LAST file and the LAST base module given, in whatever order and however often the setters were called,
    and whether the calls were chained on the returned object or made as statements on the rule object.  In about half of
    the cases the documented chain from_file(..).with_base_module(..) / .base_module_included_in_module_names() is used."""
    import random

    r = random.Random(f"{case['seed']}|{which}")
    if which == "bare":
        final = [("file", "bare.puml"), ("base", case["base"])]
        decoys = [("file", "qual.puml"), ("file", "again.puml"), ("file", "bare.puml"), ("base", "zz"), ("base", case["base"] + "." + case["base"]),
                  ("base", case["base"])]
    else:
        # no with_base_module on this object: the names in the file are complete
        final = [("file", "qual.puml"), ("incl", None)]
        decoys = [("file", "bare.puml"), ("file", "qual.puml"), ("incl", None)]
    if r.random() < 0.5:
        return [(op, arg, True) for op, arg in final]
    r.shuffle(final)
    seq = [r.choice(decoys) for _ in range(r.choice([0, 0, 0, 1, 2, 3]))] + final
    return [(op, arg, r.random() < 0.5) for op, arg in seq]


def configure(rule, seq, project):
    obj = rule
    for op, arg, chained in seq:
        target = obj if chained else rule
        if op == "file":
            obj = target.from_file(project.path(arg))
        elif op == "base":
            obj = target.with_base_module(arg)
        else:
            obj = target.base_module_included_in_module_names()
    return obj if seq and seq[-1][2] else rule


def show_sequence(seq):
    names = {"file": "from_file", "base": "with_base_module", "incl": "base_module_included_in_module_names"}
    return " ; ".join(("." if ch else "rule.") + f"{names[op]}({arg if arg is not None else ''})" for op, arg, ch in seq)


def _impl(case):
    from ..impl import DiagramRule, Project, err_kind, make_graph, parse_message

    g = make_graph(case["nodes"], case["imps"])
    bare, qual = _texts(case)
    out = []
    def run(path, which, only):
        r = DiagramRule(should_only_rule=only).from_file(path)
        r = r.base_module_included_in_module_names() if which == "qual" else r.with_base_module(case["base"])
        try:
            r.assert_applies(g)
            return "PASS"
        except AssertionError as e:
            return "FAIL:" + ";".join(parse_message(str(e)))
        except Exception as e:  # noqa: BLE001
            return "ERR:" + err_kind(e)

    with Project({"bare.puml": bare, "qual.puml": qual, "again.puml": qual}) as p:
        # the same diagram file evaluated in the other mode first must not influence the result
        run(p.path("again.puml"), "qual", not case["only"])
        first = DiagramRule(should_only_rule=case["only"]).from_file(p.path("again.puml")).base_module_included_in_module_names()
        # ... nor must another rule object of the other mode that is merely CONSTRUCTED in between
        DiagramRule(should_only_rule=not case["only"]).from_file(p.path("bare.puml")).with_base_module("zz")
        try:
            first.assert_applies(g)
            again = "PASS"
        except AssertionError as e:
            again = "FAIL:" + ";".join(parse_message(str(e)))
        except Exception as e:  # noqa: BLE001
            again = "ERR:" + err_kind(e)
        out.append(("AGAIN", again))
        # one rule object configured, applied, re-configured and applied again: the second application must behave like a
        # fresh object (with_base_module(p) = every component written as p.name, whatever happened to the object before)
        r = DiagramRule(should_only_rule=case["only"]).from_file(p.path("bare.puml")).with_base_module("zz_other")
        try:
            r.assert_applies(g)
        except Exception:  # noqa: BLE001
            pass
        r = r.with_base_module(case["base"])
        try:
            r.assert_applies(g)
            out.append(("REUSE", "PASS"))
        except AssertionError as e:
            out.append(("REUSE", "FAIL:" + ";".join(parse_message(str(e)))))
        except Exception as e:  # noqa: BLE001
            out.append(("REUSE", "ERR:" + err_kind(e)))
        for which in ("qual", "bare"):
            r = configure(DiagramRule(should_only_rule=case["only"]), call_sequence(case, which), p)
            try:
                r.assert_applies(g)
                out.append("PASS")
            except AssertionError as e:
                out.append("FAIL:" + ";".join(parse_message(str(e))))
            except Exception as e:  # noqa: BLE001
                out.append("ERR:" + err_kind(e))
    return out


def line_for(case):
    bare, qual = _texts(case)
    text, base = (qual, "%n") if case["qualified"] else (bare, enc(case["base"]))
    comps = [f"{case['base']}.{c}" for c in case["comps"]]
    arrows = [(f"{case['base']}.{a}", f"{case['base']}.{b}") for a, b in case["arrows"]]
    return (f"diagram nodes={enc_list(case['nodes'])} imps={enc_pairs(case['imps'])} text={enc(text)} base={base} "
            f"mode={'only' if case['only'] else 'should'} comps={enc_list(comps)} arrows={enc_pairs(arrows)}")


def judge(ctx, stream, cases):
    impl = pmap(_impl, cases, ctx.jobs, chunk=100)
    ans = run_driver([line_for(c) for c in cases])
    for c, (again, reuse, iq, ib), a in zip(cases, impl, ans):
        again = again[1]
        reuse = reuse[1]
        a = parse_answer(a)
        stream.evaluations += 1
        i = iq if c["qualified"] else ib
        icls = "FAIL" if i.startswith("FAIL") else i
        m, s, dom = a.get("M", "?"), a.get("S", "NA"), a.get("D", "-")
        stream.count(("only:" if c["only"] else "should:") + icls.split(":")[0])
        comp_full = [f"{c['base']}.{x}" for x in c["comps"]]
        if c["arrows"] and any(any(gen.is_desc(u, x) for x in comp_full) and any(gen.is_desc(v, y) for y in comp_full) for u, v in c["imps"]):
            stream.nontrivial.add(digest((c["nodes"], c["imps"], c["comps"], c["arrows"], c["only"], c["qualified"])))
        if len(ctx.samples) < 2 and icls == "FAIL" and len(c["arrows"]) >= 2:
            ctx.samples.append({"line": line_for(c)[:1500], "impl": i})
        mcls = "FAIL" if m.startswith("FAIL") else m
        if dom == "d" and mcls != s:
            raise InfraError(f"diagram model and specification disagree: {line_for(c)} -> {a}")
        bad = None
        if c.get("absent") and m == "ERR:lookupError" and icls in ("PASS", "FAIL"):
            bad = (f"the diagram names the component {c['base']}.{c['absent']} that is absent from the architecture, but the diagram rule gives the verdict "
                   f"{icls} instead of a lookup error")
        elif dom == "d" and icls != s:
            bad = f"DiagramRule verdict {icls} but conformance says {s}"
        elif iq != ib:
            bad = ("with_base_module(p) behaves differently from writing every component as p.name (configuration calls: "
                   f"{show_sequence(call_sequence(c, 'bare'))} -> {ib.split(':')[0]} | {show_sequence(call_sequence(c, 'qual'))} -> {iq.split(':')[0]})")
        elif again != iq:
            bad = f"evaluating the same diagram file in the other mode first changes the outcome: {again} vs {iq}"
        elif reuse != ib:
            bad = f"a DiagramRule object that was applied with another base module before behaves differently from a fresh one: {reuse} vs {ib}"
        if bad:
            ctx.violations.append({"kind": "property-violation", "what": bad, "line": line_for(c), "impl_qualified": iq, "impl_with_base_module": ib,
                                   "model": m, "spec": s, "diagram": _texts(c)[1 if not c["qualified"] else 1]})
            if len(ctx.violations) >= 3:
                return
            continue
        if dom == "d" and icls == "FAIL" and mcls == "FAIL" and i != m:
            # the error aggregates the messages of ALL violated pairwise rules (Pta.C07.aggregated_text_eq): the model's lines are
            # exactly those
            got, want = set(i[5:].split(";")), set(m[5:].split(";"))
            ctx.violations.append({"kind": "property-violation",
                                   "what": f"the aggregated message of the diagram rule does not consist of the messages of all violated pairwise rules: missing {sorted(want - got)[:4]}, extra {sorted(got - want)[:4]}",
                                   "line": line_for(c)[:3000], "impl": i[:3000], "model": m[:3000]})
            if len(ctx.violations) >= 3:
                return
            continue
        if i != m:
            if len(ctx.broken) < 10:
                ctx.broken.append({"kind": "correspondence-broken", "what": "correspondence DiagramRule.assert_applies = PtaModel.diagramAssert (verdict + set of message lines)",
                                   "theorem": "Pta.C07.* are statements about PtaModel.diagramAssert", "line": line_for(c), "impl": i, "model": m})


def run(ctx: Ctx):
    from ..rules_common import interpreter_modes

    interpreter_modes(ctx, "diagrams")
    run_witnesses(ctx)
    quick = ctx.quick()
    for name, pool in (("diagram rules: plain names", gen.PLAIN), ("diagram rules: prefix-sibling names", ["a", "ab", "a_b", "aa", "b", "ba", "a1", "abc"]),
                       ("diagram rules: component names starting like the base module", ["pa", "pb", "p_c", "pp", "p1", "pab", "platform_x", "codex"])):
        s = Stream(ctx, name)
        rng = ctx.rng(name)
        cases = [make_case(rng, pool) for _ in range(ctx.size(8000, 200000))]
        judge(ctx, s, cases)
        s.finish()
    if not ctx.violations:
        s = Stream(ctx, "components that are package trees 3-4 levels deep, with imports between modules of the same component and the "
                        "diagram-relevant imports made by the deep modules")
        rng = ctx.rng("deep-components")
        judge(ctx, s, [make_case(rng, gen.PLAIN if k % 3 else ["a", "ab", "a_b", "aa", "b", "ba", "a1", "abc"], deep=True) for k in range(ctx.size(2500, 60000))])
        s.finish()
    if not ctx.violations:
        s = Stream(ctx, "large diagrams (9-12 components) over architectures that violate many of the generated rules at once")
        rng = ctx.rng("big-diagrams")
        judge(ctx, s, [make_case(rng, gen.PLAIN, absent=False, big=True) for _ in range(ctx.size(300, 5000))])
        s.finish()
    if not ctx.violations:
        s = Stream(ctx, "diagrams drawing a package and one of its sub packages as two components (judged by the rule semantics of the generated rules)")
        nested_stream(ctx, s, ctx.size(3000, 60000))
        s.finish()
    return RULE


def absent_component_stream(ctx, stream, n):
    """diagrams naming a component the architecture does not have, next to rules that are violated (C13)"""
    rng = ctx.rng("absent-components")
    cases = [make_case(rng, gen.PLAIN, absent=True) for _ in range(n)]
    for c in cases[: n // 5]:
        # a diagram that draws the absent component alone (no other component, no arrow): it is looked up all the same
        c["comps"], c["arrows"] = [c["absent"]], []
    judge(ctx, stream, cases)


def _generated_rules(case):
    """the rules DependencyToRuleConverter derives from the drawn relation, as rule cases for the rule-level specification"""
    base = case["base"]
    full = lambda c: f"{base}.{c}"  # noqa: E731
    deps = {}
    for a, b in case["arrows"]:
        deps.setdefault(a, set()).add(b)
    rules = []
    shape_pos = ("only" if case["only"] else "should", True, False, False)
    for a, bs in deps.items():
        rules.append(gen.rule_case(case["nodes"], case["imps"], shape_pos, "N", "N", [full(a)], sorted(full(b) for b in bs)))
    for c in sorted(case["comps"]):
        rest = set(case["comps"]) - {c} - deps.get(c, set())
        if rest:
            rules.append(gen.rule_case(case["nodes"], case["imps"], ("not", True, False, False), "N", "N", [full(c)], sorted(full(b) for b in rest)))
    return rules


def nested_stream(ctx, stream, n):
    """diagrams that draw a package and one of its sub packages as two components: DiagramRule must pass exactly when every
    generated pairwise rule holds under the documented rule semantics (Pta.C01.verdict_spec_parentFree covers named filters
    with related names)"""
    rng = ctx.rng("nested-components")
    cases = []
    while len(cases) < n:
        c = make_case(rng, gen.PLAIN, absent=False, nested=True)
        if any("." in x for x in c["comps"]):
            cases.append(c)
    impl = pmap(_impl, cases, ctx.jobs, chunk=100)
    lines, owner = [], []
    for k, c in enumerate(cases):
        for r in _generated_rules(c):
            lines.append(gen.rule_line(r))
            owner.append(k)
    ans = [parse_answer(a) for a in run_driver(lines)]
    verdicts = {}
    for k, a in zip(owner, ans):
        d, sv = a.get("D", "-"), a.get("S", "NA").split(":")[0]
        ok = len(d) >= 4 and d[0] == "w" and d[2] == "n" and d[3] == "p"
        v = verdicts.setdefault(k, [True, True])
        v[0] = v[0] and ok
        v[1] = v[1] and sv == "PASS"
    for k, (c, (again, reuse, iq, ib)) in enumerate(zip(cases, impl)):
        stream.evaluations += 1
        in_dom, expect = verdicts.get(k, [True, True])
        icls = "FAIL" if iq.startswith("FAIL") else iq
        stream.count(icls.split(":")[0] + ("" if in_dom else " (outside the oracle domain)"))
        if not in_dom or icls.startswith("ERR"):
            continue
        stream.nontrivial.add(digest((c["nodes"], c["imps"], c["comps"], c["arrows"], c["only"])))
        want = "PASS" if expect else "FAIL"
        if icls != want or (ib.split(":")[0] != want):
            ctx.violations.append({"kind": "property-violation",
                                   "what": f"diagram with nested components: DiagramRule gives {icls} (with_base_module: {ib.split(':')[0]}), the pairwise rules it stands for give {want}",
                                   "line": line_for(c), "impl_qualified": iq, "impl_with_base_module": ib, "diagram": _texts(c)[1]})
            if len(ctx.violations) >= 3:
                return
