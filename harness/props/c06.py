"""C06 - PlantUML diagrams parse to exactly their components, aliases and arrows."""
from __future__ import annotations

from ..core import Ctx, Stream, digest, pmap
from ..proto import enc, parse_answer, run_driver
from ..rules_common import run_witnesses

RULE = (
    "diagrams rendered from random component relations (2-8 components; identifiers, fully qualified dotted names, names "
    "with blanks in brackets; optional aliases): per component one documented declaration form ([name], component name, "
    "component [name], with 'as alias' on the bracketed forms, or no declaration), per arrow one reference form "
    "(bracketed name, bare name, alias) and one arrow form (-->, ->, <--, <-, -text->, <-text-), shuffled line order "
    "(declarations after uses included), noise text outside @startuml/@enduml; plus files without tags. Real "
    "PumlParser().parse vs PtaModel.pumlParse vs the generating relation. distinct_nontrivial = distinct diagrams with >= 1 "
    "arrow and >= 1 alias reference."
)

IDENTS = ["A", "B", "core", "api", "db", "web_ui", "M1", "svc", "x", "util"]
# names that merely START like a PlantUML keyword or like a word of the declaration syntax: they are ordinary component names
KEYWORDISH = ["notes", "noted", "titles", "headers", "footer1", "legends", "captions", "skinparams", "components", "component_x",
              "as_x", "asx", "startuml_x", "enduml1", "left", "right_x", "package1", "interfaces"]
ARROWS_R = ["-->", "->", "-uses->", "-depends_on->"]
ARROWS_L = ["<--", "<-", "<-uses-", "<-calls-"]
NOISE = ["This is documentation.", "' a comment", "title demo", "", "some [text] here", "[outside]", "component outsider", "outsider --> [outside]",
         "see [outside] as o"]


def gen_diagram(rng):
    n = rng.randint(2, 8)
    style = rng.choice(["ident", "dotted", "mixed"])
    names = []
    pool = IDENTS[:]
    if rng.random() < 0.25:
        pool += KEYWORDISH
    rng.shuffle(pool)
    for i in range(n):
        base = pool[i]
        if style == "dotted" or (style == "mixed" and rng.random() < 0.4):
            base = rng.choice(["src", "pkg.sub"]) + "." + base
        elif style == "mixed" and rng.random() < 0.15:
            base = "my " + base
        names.append(base)
    arrows = set()
    for _ in range(rng.randint(0, 2 * n)):
        a, b = rng.sample(names, 2)
        arrows.add((a, b))
    if rng.random() < 0.12:
        # an arrow from a component back to itself is part of the relation that was drawn
        a = rng.choice(names)
        arrows.add((a, a))
    decl = {}
    alias = {}
    for i, nme in enumerate(names):
        spaced = " " in nme
        forms = ["bracket", "comp_bracket", "none"] if spaced else ["bracket", "comp", "comp_bracket", "none"]
        f = rng.choice(forms)
        has_arrows = any(nme in e for e in arrows)
        if spaced:
            f = rng.choice(["bracket", "comp_bracket"])
            if has_arrows:
                alias[nme] = f"al{i}"
        elif f in ("bracket", "comp_bracket") and rng.random() < 0.5:
            alias[nme] = f"al{i}"
        if f == "none" and not has_arrows:
            f = "bracket"
        decl[nme] = f
    lines = []
    for nme in names:
        f = decl[nme]
        al = f" as {alias[nme]}" if nme in alias else ""
        if f == "bracket":
            lines.append(f"[{nme}]{al}")
        elif f == "comp":
            lines.append(f"component {nme}")
        elif f == "comp_bracket":
            lines.append(f"component [{nme}]{al}")
    alias_refs = 0
    for a, b in sorted(arrows):
        def ref(x):
            nonlocal alias_refs
            opts = []
            if " " not in x:
                opts += ["[" + x + "]", x]
            if x in alias:
                opts.append(alias[x])
            r = rng.choice(opts)
            if x in alias and r == alias[x]:
                alias_refs += 1
            return r
        if rng.random() < 0.5:
            lines.append(f"{ref(a)} {rng.choice(ARROWS_R)} {ref(b)}")
        else:
            lines.append(f"{ref(b)} {rng.choice(ARROWS_L)} {ref(a)}")
    rng.shuffle(lines)
    if rng.random() < 0.2 and not any(" " in nme for nme in names):
        # tokens may be separated by any white space: several blanks, tabs
        sep = rng.choice(["  ", "\t", " \t ", "\t\t"])
        lines = [ln.replace(" ", sep) if rng.random() < 0.7 else ln for ln in lines]
    pre = [rng.choice(NOISE) for _ in range(rng.randint(0, 2))]
    post = [rng.choice(NOISE) for _ in range(rng.randint(0, 2))]
    text = "\n".join(pre + ["@startuml"] + lines + ["@enduml"] + post)
    if rng.random() < 0.3:
        text += "\n"
    # the file may be saved with Windows line endings: reading it in text mode gives the same text
    return {"text": text, "components": sorted(names), "arrows": sorted(arrows), "alias_refs": alias_refs, "crlf": rng.random() < 0.15}


def impl_parse(text) -> str:
    from ..impl import Project, PumlParser, err_kind

    with Project({"d.puml": text}) as p:
        try:
            r = PumlParser().parse(p.path("d.puml"))
        except Exception as e:  # noqa: BLE001
            return "ERR:" + err_kind(e)
    mods = ",".join(sorted(enc(m) for m in r.all_modules))
    deps = ";".join(sorted(enc(k) + "~" + ",".join(sorted(enc(v) for v in vs)) for k, vs in r.dependencies.items()))
    return "OK:" + mods + "|" + deps


def _impl(case):
    return impl_parse(case["text"].replace("\n", "\r\n") if case.get("crlf") else case["text"])


def judge(ctx, stream, cases):
    impl = pmap(_impl, cases, ctx.jobs, chunk=100)
    ans = run_driver(["puml text=" + enc(c["text"]) for c in cases])
    for c, i, a in zip(cases, impl, ans):
        a = parse_answer(a)
        stream.evaluations += 1
        m = a.get("M", "?")
        stream.count("impl:" + i.split(":")[0])
        if c.get("arrows") and c.get("alias_refs"):
            stream.nontrivial.add(digest(c["text"]))
        if len(ctx.samples) < 2 and c.get("alias_refs", 0) >= 2:
            ctx.samples.append({"text": c["text"], "impl": i})
        bad = None
        if c.get("malformed"):
            if i != "ERR:pumlParsingError":
                bad = f"file without start/end tags is not rejected with a parsing error: {i}"
        else:
            deps = {}
            for x, y in c["arrows"]:
                deps.setdefault(x, set()).add(y)
            want = "OK:" + ",".join(sorted(enc(x) for x in c["components"])) + "|" + ";".join(
                sorted(enc(k) + "~" + ",".join(sorted(enc(v) for v in vs)) for k, vs in deps.items()))
            if i != want:
                bad = "parsed components / dependencies differ from the diagram that was drawn"
        if bad:
            ctx.violations.append({"kind": "property-violation", "what": bad, "text": c["text"], "impl": i, "model": m,
                                   "expected_components": c.get("components"), "expected_arrows": c.get("arrows"),
                                   "python": f"from harness.props.c06 import impl_parse; print(impl_parse({c['text']!r}))"})
            if len(ctx.violations) >= 3:
                return
            continue
        if i != m:
            if len(ctx.broken) < 10:
                ctx.broken.append({"kind": "correspondence-broken", "what": "correspondence PumlParser.parse = PtaModel.pumlParse",
                                   "theorem": "Pta.C06.* are statements about PtaModel.pumlParse", "text": c["text"], "impl": i, "model": m})


def _one_parser(texts):
    """several files parsed by ONE PumlParser object, each result next to that of a fresh parser"""
    from ..impl import Project, PumlParser, err_kind

    def show(fn):
        try:
            r = fn()
        except Exception as e:  # noqa: BLE001
            return "ERR:" + err_kind(e)
        mods = ",".join(sorted(enc(m) for m in r.all_modules))
        deps = ";".join(sorted(enc(k) + "~" + ",".join(sorted(enc(v) for v in vs)) for k, vs in r.dependencies.items()))
        return "OK:" + mods + "|" + deps

    out = []
    with Project({f"d{i}.puml": t for i, t in enumerate(texts)}) as p:
        shared = PumlParser()
        for i in range(len(texts)):
            first = show(lambda: shared.parse(p.path(f"d{i}.puml")))
            # what a caller does with a returned result (here: empties its containers in place) is the caller's business:
            # the same unchanged file parsed again, by any parser object, gives the same components and relation
            try:
                r = PumlParser().parse(p.path(f"d{i}.puml"))
                r.all_modules.clear()
                for v in r.dependencies.values():
                    v.clear()
                r.dependencies.clear()
            except Exception:  # noqa: BLE001
                pass
            again = show(lambda: PumlParser().parse(p.path(f"d{i}.puml")))
            out.append((first, again))
    return out


def parser_reuse(ctx, stream, n):
    rng = ctx.rng("one-parser")
    groups = []
    for _ in range(n):
        k = rng.randint(2, 4)
        ds = [gen_diagram(rng) for _ in range(k)]
        if rng.random() < 0.5:
            # a later file uses, as a plain component name, an alias that an earlier file declared
            import re as _re

            als = _re.findall(r" as (\w+)", ds[0]["text"])
            if als:
                a = rng.choice(als)
                ds[-1] = dict(ds[-1], text=ds[-1]["text"].replace("@enduml", f"[{a}] --> [zzz]\n{a} -> [yyy]\n@enduml", 1))
        groups.append([d["text"] for d in ds])
    res = pmap(_one_parser, groups, ctx.jobs, chunk=20)
    for texts, outs in zip(groups, res):
        for i, (shared, fresh) in enumerate(outs):
            stream.evaluations += 1
            if i:
                stream.nontrivial.add(digest((tuple(texts[: i + 1]),)))
            if shared != fresh:
                ctx.violations.append({"kind": "property-violation",
                                       "what": f"a PumlParser object that has parsed other files before parses file #{i} differently from a fresh parser",
                                       "texts": texts[: i + 1], "shared_parser": shared, "fresh_parser": fresh})
                if len(ctx.violations) >= 3:
                    return
                break


def run(ctx: Ctx):
    run_witnesses(ctx)
    quick = ctx.quick()
    rng = ctx.rng("diagrams")
    s = Stream(ctx, "diagrams rendered from random component relations")
    cases = [gen_diagram(rng) for _ in range(ctx.size(10000, 400000))]
    judge(ctx, s, cases)
    s.finish()
    s = Stream(ctx, "files without start/end tags")
    bad = []
    for _ in range(ctx.size(300, 3000)):
        d = gen_diagram(rng)
        t = d["text"]
        k = rng.randrange(3)
        t = t.replace("@startuml", "" if k != 1 else "@startuml").replace("@enduml", "" if k != 0 else "@enduml")
        if k == 2:
            t = t.replace("@", "")
        bad.append({"text": t, "malformed": True})
    judge(ctx, s, bad)
    s.finish()
    if not ctx.violations:
        s = Stream(ctx, "one PumlParser object over several files (aliases of an earlier file re-used as component names later) vs a fresh parser per file")
        parser_reuse(ctx, s, ctx.size(600, 12000))
        s.finish()
    return RULE
