"""C06 - PlantUML diagrams parse to exactly their components, aliases and arrows."""
from __future__ import annotations

from ..core import Ctx, Stream, digest, pmap
from ..proto import enc, parse_answer, run_driver
from ..rules_common import run_witnesses

RULE = (
    "diagrams rendered from random component relations (2-8 components; identifiers, fully qualified dotted names, names "
    "with blanks in brackets; optional aliases, an alias may be spelled exactly like its component, at components with and "
    "without arrows): per component one documented declaration form ([name], component name, "
    "component [name], with 'as alias' on the bracketed forms, or no declaration), per arrow one reference form "
    "(bracketed name, bare name, alias) and one arrow form (-->, ->, <--, <-, -text->, <-text-), shuffled line order "
    "(declarations after uses included), noise text outside @startuml/@enduml; plus files without tags. Real "
    "PumlParser().parse vs PtaModel.pumlParse vs the generating relation. The same diagrams rendered a second time with an "
    "injective substitution of non-ASCII identifier letters (Latin with diacritics, Cyrillic, Greek, CJK/kana, upper case) "
    "applied to every spelling of a component name or alias: real parse vs the generating relation under the substitution "
    "(the model's word characters are ASCII; its twin diagram is the one compared with the model). distinct_nontrivial = distinct diagrams with >= 1 "
    "arrow and >= 1 alias reference."
)

IDENTS = ["A", "B", "core", "api", "db", "web_ui", "M1", "svc", "x", "util"]
# names that merely START like a PlantUML keyword or like a word of the declaration syntax: they are ordinary component names
KEYWORDISH = ["notes", "noted", "titles", "headers", "footer1", "legends", "captions", "skinparams", "components", "component_x",
              "as_x", "asx", "startuml_x", "enduml1", "left", "right_x", "package1", "interfaces"]
ARROWS_R = ["-->", "->", "-uses->", "-depends_on->"]
ARROWS_L = ["<--", "<-", "<-uses-", "<-calls-"]
NOISE = ["This is documentation.", "' a comment", "title demo", "", "some [text] here", "[outside]", "component outsider", "outsider --> [outside]",
         "see [outside] as o"]


# every spelling of a component name or of an alias is rendered between these two marks; the marks are removed for the diagram
# itself and give the places at which a letter substitution applies (non_ascii_twin)
_NB, _NE = "\x01", "\x02"


def _nm(x):
    return _NB + x + _NE


def _plain(marked):
    return marked.replace(_NB, "").replace(_NE, "")


def gen_diagram(rng):
    n = rng.randint(2, 8)
    style = rng.choice(["ident", "dotted", "mixed"])
    names = []
    pool = IDENTS[:]
    if rng.random() < 0.25:
        pool += KEYWORDISH
    rng.shuffle(pool)
    for i in range(n):
        base = pool[i]
        if style == "dotted" or (style == "mixed" and rng.random() < 0.4):
            base = rng.choice(["src", "pkg.sub"]) + "." + base
        elif style == "mixed" and rng.random() < 0.15:
            base = "my " + base
        names.append(base)
    arrows = set()
    for _ in range(rng.randint(0, 2 * n)):
        a, b = rng.sample(names, 2)
        arrows.add((a, b))
    if rng.random() < 0.12:
        # an arrow from a component back to itself is part of the relation that was drawn
        a = rng.choice(names)
        arrows.add((a, a))
    decl = {}
    alias = {}
    for i, nme in enumerate(names):
        spaced = " " in nme
        forms = ["bracket", "comp_bracket", "none"] if spaced else ["bracket", "comp", "comp_bracket", "none"]
        f = rng.choice(forms)
        has_arrows = any(nme in e for e in arrows)
        if spaced:
            f = rng.choice(["bracket", "comp_bracket"])
            if has_arrows:
                alias[nme] = f"al{i}"
        elif f in ("bracket", "comp_bracket"):
            r = rng.random()
            if r < 0.4:
                alias[nme] = f"al{i}"
            elif r < 0.5:
                # an alias spelled exactly like the component it stands for ([model] as model): legal, and whichever way the
                # spelling is read it means this component - with or without arrows at the component
                alias[nme] = nme
        if f == "none" and not has_arrows:
            f = "bracket"
        decl[nme] = f
    lines = []
    for nme in names:
        f = decl[nme]
        al = f" as {_nm(alias[nme])}" if nme in alias else ""
        if f == "bracket":
            lines.append(f"[{_nm(nme)}]{al}")
        elif f == "comp":
            lines.append(f"component {_nm(nme)}")
        elif f == "comp_bracket":
            lines.append(f"component [{_nm(nme)}]{al}")
    alias_refs = 0
    for a, b in sorted(arrows):
        def ref(x):
            nonlocal alias_refs
            opts = []
            if " " not in x:
                opts += ["[" + _nm(x) + "]", _nm(x)]
            if x in alias:
                opts.append(_nm(alias[x]))
            r = rng.choice(opts)
            if x in alias and r == _nm(alias[x]):
                alias_refs += 1
            return r
        if rng.random() < 0.5:
            lines.append(f"{ref(a)} {rng.choice(ARROWS_R)} {ref(b)}")
        else:
            lines.append(f"{ref(b)} {rng.choice(ARROWS_L)} {ref(a)}")
    rng.shuffle(lines)
    if rng.random() < 0.2 and not any(" " in nme for nme in names):
        # tokens may be separated by any white space: several blanks, tabs
        sep = rng.choice(["  ", "\t", " \t ", "\t\t"])
        lines = [ln.replace(" ", sep) if rng.random() < 0.7 else ln for ln in lines]
    pre = [rng.choice(NOISE) for _ in range(rng.randint(0, 2))]
    post = [rng.choice(NOISE) for _ in range(rng.randint(0, 2))]
    marked = "\n".join(pre + ["@startuml"] + lines + ["@enduml"] + post)
    if rng.random() < 0.3:
        marked += "\n"
    self_al = [x for x in names if alias.get(x) == x]
    # the file may be saved with Windows line endings: reading it in text mode gives the same text
    return {"text": _plain(marked), "marked": marked, "components": sorted(names), "arrows": sorted(arrows), "alias_refs": alias_refs,
            "crlf": rng.random() < 0.15, "self_alias": len(self_al),
            "self_alias_no_arrow": sum(1 for x in self_al if not any(x in e for e in arrows))}


def impl_parse(text) -> str:
    from ..impl import Project, PumlParser, err_kind

    with Project({"d.puml": text}) as p:
        try:
            r = PumlParser().parse(p.path("d.puml"))
        except Exception as e:  # noqa: BLE001
            return "ERR:" + err_kind(e)
    mods = ",".join(sorted(enc(m) for m in r.all_modules))
    deps = ";".join(sorted(enc(k) + "~" + ",".join(sorted(enc(v) for v in vs)) for k, vs in r.dependencies.items()))
    return "OK:" + mods + "|" + deps


def _impl(case):
    return impl_parse(case["text"].replace("\n", "\r\n") if case.get("crlf") else case["text"])


def judge(ctx, stream, cases):
    impl = pmap(_impl, cases, ctx.jobs, chunk=100)
    ans = run_driver(["puml text=" + enc(c["text"]) for c in cases])
    for c, i, a in zip(cases, impl, ans):
        a = parse_answer(a)
        stream.evaluations += 1
        m = a.get("M", "?")
        stream.count("impl:" + i.split(":")[0])
        if c.get("self_alias"):
            stream.count("alias spelled like its component")
        if c.get("self_alias_no_arrow"):
            stream.count("alias spelled like its component, component at no arrow")
        if c.get("arrows") and c.get("alias_refs"):
            stream.nontrivial.add(digest(c["text"]))
        if len(ctx.samples) < 2 and c.get("alias_refs", 0) >= 2:
            ctx.samples.append({"text": c["text"], "impl": i})
        bad = None
        if c.get("malformed"):
            if i != "ERR:pumlParsingError":
                bad = f"file without start/end tags is not rejected with a parsing error: {i}"
        else:
            deps = {}
            for x, y in c["arrows"]:
                deps.setdefault(x, set()).add(y)
            want = "OK:" + ",".join(sorted(enc(x) for x in c["components"])) + "|" + ";".join(
                sorted(enc(k) + "~" + ",".join(sorted(enc(v) for v in vs)) for k, vs in deps.items()))
            if i != want:
                bad = "parsed components / dependencies differ from the diagram that was drawn"
        if bad:
            ctx.violations.append({"kind": "property-violation", "what": bad, "text": c["text"], "impl": i, "model": m,
                                   "expected_components": c.get("components"), "expected_arrows": c.get("arrows"),
                                   "python": f"from harness.props.c06 import impl_parse; print(impl_parse({c['text']!r}))"})
            if len(ctx.violations) >= 3:
                return
            continue
        if i != m:
            if len(ctx.broken) < 10:
                ctx.broken.append({"kind": "correspondence-broken", "what": "correspondence PumlParser.parse = PtaModel.pumlParse",
                                   "theorem": "Pta.C06.* are statements about PtaModel.pumlParse", "text": c["text"], "impl": i, "model": m})


# ------------------------------------------------------------------------------- names in other alphabets
# Identifiers - hence module names - may contain letters outside ASCII (PEP 3131).  The model's word characters are ASCII, so
# these diagrams are not sent to it: a diagram of the stream above (which IS compared with the model) is rendered a second
# time with an injective substitution of letters applied to every spelling of a component name or alias - and to nothing
# else - and must parse to the generating relation under that substitution, i.e. to the image of what its ASCII twin gives.
ALPHABETS = {
    "latin": "äöüßéèêñçåøæœšžłőđþ",
    "cyrillic": "абвгдежзиклмнопрстуфхцчшыэюя",
    "greek": "αβγδεζηθικλμνξπρστυφχψω",
    "cjk-kana": "模型数据库核心层あいうえおカキクケコ",
    "upper": "ÄÖÜÉÑÇÅØÆŠŽŁБГДЖЗИЛПФЦЧШЭЮЯΓΔΘΛΞΠΣΦΨΩ",
}


def _letters_ok(chars):
    import re as _re
    import unicodedata

    ok = []
    for ch in chars:
        # a letter that may stand anywhere in an identifier, is a word character, is one character in every normal form
        if ord(ch) > 127 and ch.isidentifier() and _re.fullmatch(r"\w", ch) and not ch.isdigit() \
                and all(unicodedata.normalize(f, ch) == ch for f in ("NFC", "NFKC")) and ch not in ok:
            ok.append(ch)
    return ok


def gen_substitution(rng, d):
    """injective map: some (>= 1) of the ASCII letters that occur in the names / aliases of diagram d -> non-ASCII letters"""
    import re as _re

    used = sorted({ch for spelling in _re.findall(_NB + "(.*?)" + _NE, d["marked"]) for ch in spelling if ch.isascii() and ch.isalpha()})
    kind = rng.choice(sorted(ALPHABETS) + ["any"])
    pool = _letters_ok("".join(ALPHABETS.values()) if kind == "any" else ALPHABETS[kind])
    how = rng.choice(["one", "some", "all"])
    k = 1 if how == "one" else len(used) if how == "all" else rng.randint(1, len(used))
    src = rng.sample(used, min(k, len(pool)))
    dst = rng.sample(pool, len(src))
    return dict(zip(src, dst)), kind, how


def non_ascii_twin(rng, d):
    import re as _re

    sub, kind, how = gen_substitution(rng, d)

    def tr(x):
        return "".join(sub.get(ch, ch) for ch in x)

    text = _re.sub(_NB + "(.*?)" + _NE, lambda m: tr(m.group(1)), d["marked"])
    comps = sorted(tr(x) for x in d["components"])
    assert len(set(comps)) == len(comps) and all(part.isidentifier() for x in comps for w in x.split(" ") for part in w.split("."))
    return dict(d, text=text, ascii_text=d["text"], components=comps, arrows=sorted((tr(a), tr(b)) for a, b in d["arrows"]),
                sub=sub, alphabet=kind, how=how, tr_ascii_components=d["components"], tr_ascii_arrows=d["arrows"])


def _want(components, arrows):
    deps = {}
    for x, y in arrows:
        deps.setdefault(x, set()).add(y)
    return "OK:" + ",".join(sorted(enc(x) for x in components)) + "|" + ";".join(
        sorted(enc(k) + "~" + ",".join(sorted(enc(v) for v in vs)) for k, vs in deps.items()))


def _impl_pair(case):
    return _impl(case), impl_parse(case["ascii_text"].replace("\n", "\r\n") if case.get("crlf") else case["ascii_text"])


def judge_twins(ctx, stream, cases):
    import locale

    try:
        for c in cases[:50]:
            c["text"].encode(locale.getpreferredencoding(False))
    except (UnicodeEncodeError, LookupError):
        # the library reads the file with the platform's default encoding; where that cannot hold the letters there is no such file
        stream.count("skipped: default encoding cannot hold the letters", len(cases))
        return
    res = pmap(_impl_pair, cases, ctx.jobs, chunk=100)
    for c, (i, i_ascii) in zip(cases, res):
        stream.evaluations += 1
        stream.count("impl:" + i.split(":")[0])
        stream.count("alphabet:" + c["alphabet"])
        stream.count("letters substituted:" + c["how"])
        if c.get("self_alias"):
            stream.count("alias spelled like its component")
        if c["arrows"]:
            stream.nontrivial.add(digest(c["text"]))
        bad = None
        if i != _want(c["components"], c["arrows"]):
            bad = "a diagram whose component names have letters outside ASCII: parsed components / dependencies differ from the diagram that was drawn"
        elif i_ascii != _want(c["tr_ascii_components"], c["tr_ascii_arrows"]):
            bad = "parsed components / dependencies differ from the diagram that was drawn"
        if bad:
            ctx.violations.append({"kind": "property-violation", "what": bad, "text": c["text"], "impl": i,
                                   "same_diagram_in_ascii": c["ascii_text"], "impl_on_ascii": i_ascii, "substitution": c["sub"],
                                   "expected_components": c["components"], "expected_arrows": c["arrows"],
                                   "python": f"from harness.props.c06 import impl_parse; print(impl_parse({c['text']!r}))"})
            if len(ctx.violations) >= 3:
                return


def _one_parser(texts):
    """several files parsed by ONE PumlParser object, each result next to that of a fresh parser"""
    from ..impl import Project, PumlParser, err_kind

    def show(fn):
        try:
            r = fn()
        except Exception as e:  # noqa: BLE001
            return "ERR:" + err_kind(e)
        mods = ",".join(sorted(enc(m) for m in r.all_modules))
        deps = ";".join(sorted(enc(k) + "~" + ",".join(sorted(enc(v) for v in vs)) for k, vs in r.dependencies.items()))
        return "OK:" + mods + "|" + deps

    out = []
    with Project({f"d{i}.puml": t for i, t in enumerate(texts)}) as p:
        shared = PumlParser()
        for i in range(len(texts)):
            first = show(lambda: shared.parse(p.path(f"d{i}.puml")))
            # what a caller does with a returned result (here: empties its containers in place) is the caller's business:
            # the same unchanged file parsed again, by any parser object, gives the same components and relation
            try:
                r = PumlParser().parse(p.path(f"d{i}.puml"))
                r.all_modules.clear()
                for v in r.dependencies.values():
                    v.clear()
                r.dependencies.clear()
            except Exception:  # noqa: BLE001
                pass
            again = show(lambda: PumlParser().parse(p.path(f"d{i}.puml")))
            out.append((first, again))
    return out


def parser_reuse(ctx, stream, n):
    rng = ctx.rng("one-parser")
    groups = []
    for _ in range(n):
        k = rng.randint(2, 4)
        ds = [gen_diagram(rng) for _ in range(k)]
        if rng.random() < 0.5:
            # a later file uses, as a plain component name, an alias that an earlier file declared
            import re as _re

            als = _re.findall(r" as (\w+)", ds[0]["text"])
            if als:
                a = rng.choice(als)
                ds[-1] = dict(ds[-1], text=ds[-1]["text"].replace("@enduml", f"[{a}] --> [zzz]\n{a} -> [yyy]\n@enduml", 1))
        groups.append([d["text"] for d in ds])
    res = pmap(_one_parser, groups, ctx.jobs, chunk=20)
    for texts, outs in zip(groups, res):
        for i, (shared, fresh) in enumerate(outs):
            stream.evaluations += 1
            if i:
                stream.nontrivial.add(digest((tuple(texts[: i + 1]),)))
            if shared != fresh:
                ctx.violations.append({"kind": "property-violation",
                                       "what": f"a PumlParser object that has parsed other files before parses file #{i} differently from a fresh parser",
                                       "texts": texts[: i + 1], "shared_parser": shared, "fresh_parser": fresh})
                if len(ctx.violations) >= 3:
                    return
                break


def run(ctx: Ctx):
    run_witnesses(ctx)
    quick = ctx.quick()
    rng = ctx.rng("diagrams")
    s = Stream(ctx, "diagrams rendered from random component relations")
    cases = [gen_diagram(rng) for _ in range(ctx.size(10000, 400000))]
    judge(ctx, s, cases)
    s.finish()
    s = Stream(ctx, "files without start/end tags")
    bad = []
    for _ in range(ctx.size(300, 3000)):
        d = gen_diagram(rng)
        t = d["text"]
        k = rng.randrange(3)
        t = t.replace("@startuml", "" if k != 1 else "@startuml").replace("@enduml", "" if k != 0 else "@enduml")
        if k == 2:
            t = t.replace("@", "")
        bad.append({"text": t, "malformed": True})
    judge(ctx, s, bad)
    s.finish()
    s = Stream(ctx, "the same diagrams with an injective substitution of non-ASCII identifier letters in every component name and alias "
                    "vs the generating relation under the substitution")
    rng_u = ctx.rng("other-alphabets")
    twins = [non_ascii_twin(rng_u, gen_diagram(rng_u)) for _ in range(ctx.size(2500, 60000))]
    judge_twins(ctx, s, twins)
    s.finish()
    if not ctx.violations:
        s = Stream(ctx, "one PumlParser object over several files (aliases of an earlier file re-used as component names later) vs a fresh parser per file")
        parser_reuse(ctx, s, ctx.size(600, 12000))
        s.finish()
    return RULE
