"""C05 - layer-rule verdicts follow the documented semantics, one unit per layer."""
from __future__ import annotations

import itertools
import re

from .. import gen
from ..core import Ctx, InfraError, Stream, digest, pmap
from ..layers_common import impl_layer, layer_line, layer_rule_ops
from ..proto import parse_answer, run_driver
from ..rules_common import run_witnesses

RULE = (
    "cases = (graph, layered architecture, layer rule): graphs as in C01 (tree shapes <= 5 nodes with every relation of "
    "<= 2 imports exhaustively; random trees <= 14 nodes, plain and adversarial names); partitions of 2-6 pairwise "
    "unrelated modules into 2-4 layers (some modules in no layer); each layer given by a name list or by a regex matching "
    "exactly its modules, also mixed among the object layers; layers the rule does not mention of either kind; 12 shapes + "
    "2 'any layer' aliases; 1-2 object layers, given as string or list. Real LayerRule.assert_applies vs "
    "PtaModel.runLayerRuleOps (verdict, error class, message items with layer tags) vs PtaSpec.layerVerdict. "
    "distinct_nontrivial = distinct in-domain cases with an import that has an end in the subject layer."
)


def rx_for(mods):
    """a regex matching exactly `mods`, in one of four spellings (grouped / ungrouped alternation, \\Z, explicit ^) chosen
    from the names themselves, so that case generation stays a function of the seeded choices made so far"""
    alts = [re.escape(m) for m in mods]
    k = sum(len(m) for m in mods) % 4
    if k == 0:
        return "(" + "|".join(alts) + ")$"
    if k == 1:
        return "|".join(a + "$" for a in alts)
    if k == 2:
        return "(?:" + "|".join(alts) + r")\Z"
    return "^(" + "|".join(alts) + ")$"


def make_case(rng, nodes, imps, pool=None, force_kinds=None):
    """pool: candidate listed modules (pairwise unrelated)"""
    if pool is None:
        cand = nodes[:]
        rng.shuffle(cand)
        pool = []
        for c in cand:
            if all(not gen.related(c, d) for d in pool):
                pool.append(c)
    if len(pool) < 2:
        return None
    k = rng.randint(2, min(4, len(pool)))
    pool = pool[:]
    rng.shuffle(pool)
    layers = []
    for i in range(k):
        remaining_layers = k - i - 1
        maxn = max(1, min(2, len(pool) - remaining_layers))
        n = rng.randint(1, maxn)
        mods = [pool.pop() for _ in range(n)]
        kind = (force_kinds[i] if force_kinds else ("R" if rng.random() < 0.35 else "N"))
        layers.append((f"L{i}", kind, mods))
    if rng.random() < 0.3:
        # one layer lists a package AND one of its sub modules (inside one layer listed modules may be related: the sub
        # module, its siblings and everything below the package belong to that layer either way)
        cand = [(i, d) for i, (_, k_, ms) in enumerate(layers) if k_ == "N" for m in ms for d in nodes if d != m and gen.is_desc(d, m) and d not in ms]
        if cand:
            i, d = rng.choice(cand)
            n_, k_, ms = layers[i]
            ms = ms + [d]
            rng.shuffle(ms)
            layers[i] = (n_, k_, ms)
    arch = [(n, k_, (ms if k_ == "N" else rx_for(ms))) for n, k_, ms in layers]
    names = [l[0] for l in layers]
    subj = rng.choice(names)
    others = [n for n in names if n != subj]
    verb, imp, exc, anything = rng.choice(gen.SHAPES)
    objs = rng.sample(others, rng.randint(1, min(2, len(others))))
    lops = layer_rule_ops(verb, imp, exc, subj, objs, anything, obj_as_list=rng.random() < 0.6)
    spec = {"lv": verb, "ld": "i" if imp else "b", "lx": "1" if exc else "0", "lsub": subj,
            "lobj": [] if anything else objs, "la": "1" if anything else "0"}
    # now and then the architecture object receives its last layer(s) only after the rule has been started on it
    late = rng.randint(1, len(arch) - 1) if rng.random() < 0.15 else 0
    return {"nodes": nodes, "imps": imps, "arch": arch, "lops": lops, "spec": spec, "late": late, "_layers": layers,
            "_subject_mods": next(ms for n, _, ms in layers if n == subj)}


def judge(ctx, stream, cases):
    impl = pmap(impl_layer, cases, ctx.jobs, chunk=500)
    ans = run_driver([layer_line(c) for c in cases])
    for c, i, a in zip(cases, impl, ans):
        a = parse_answer(a)
        stream.evaluations += 1
        ibody, _, iidx = i.partition(" I=")
        icls = "FAIL" if ibody.startswith("FAIL") else ibody
        m = a.get("M", "?")
        mcls = "FAIL" if m.startswith("FAIL") else m
        s, dom = a.get("S", "NA"), a.get("D", "-")
        in_domain = dom == "wd"
        stream.count("impl:" + icls.split(":")[0])
        stream.count("in-domain" if in_domain else "out-of-domain")
        kinds = "".join(sorted({k for _, k, _ in c["arch"]}))
        stream.count("layer-kinds:" + kinds)
        if in_domain and any(any(gen.is_desc(x, s_) for s_ in c["_subject_mods"]) for e in c["imps"] for x in e):
            stream.nontrivial.add(digest((c["nodes"], c["imps"], c["arch"], c["lops"])))
        if len(ctx.samples) < 3 and in_domain and icls == "FAIL" and "R" in kinds:
            ctx.samples.append({"line": layer_line(c), "impl": i, "answer": a})
        if in_domain and mcls != s:
            raise InfraError(f"layer model and specification disagree inside the domain: {layer_line(c)} -> {a}")
        if in_domain and icls != s:
            ctx.violations.append({"kind": "property-violation", "what": "layer-rule verdict differs from the documented layer semantics",
                                   "line": layer_line(c), "impl": i, "model": m, "spec": s, "case": {k: v for k, v in c.items() if not k.startswith("_")}})
            if len(ctx.violations) >= 5:
                return
            continue
        if icls != mcls or (icls == "FAIL" and ibody != m) or (icls.startswith("ERR") and iidx != a.get("I")):
            rec = {"kind": "correspondence-broken", "what": "correspondence impl = PtaModel.runLayerRuleOps (layer rules)",
                   "theorem": "Pta.C05.* are statements about PtaModel.assertAppliesLayer", "line": layer_line(c), "impl": i,
                   "model": m, "model_index": a.get("I")}
            if len(ctx.broken) < 20:
                (ctx.broken if in_domain else ctx.drift).append(rec)



def _layer_reuse(case):
    """ONE LayerRule object applied to a first architecture and then to the case's architecture; outcome of the second
    application and of a fresh rule object on the second architecture"""
    from ..impl import LayerRule, err_kind, make_graph, parse_message
    from ..layers_common import LOPS, make_arch

    def build():
        arch = make_arch(case["arch"])
        r = LayerRule()
        for op, arg in case["lops"]:
            r = r.based_on(arch) if op == "based" else LOPS[op](r, arg)
        return r

    def apply(r, g):
        try:
            r.assert_applies(g)
        except AssertionError as e:
            return "FAIL:" + ";".join(parse_message(str(e)))
        except Exception as e:  # noqa: BLE001
            return "ERR:" + err_kind(e)
        return "PASS"

    g1 = make_graph(case["nodes1"], case["imps1"])
    g2 = make_graph(case["nodes"], case["imps"])
    try:
        r = build()
        fresh = build()
    except Exception as e:  # noqa: BLE001
        return ("BUILDERR:" + type(e).__name__,) * 2
    apply(r, g1)
    return apply(r, g2), apply(fresh, g2)


def layer_reuse_stream(ctx, stream, n):
    rng = ctx.rng("layer-reuse")
    cases = []
    while len(cases) < n:
        nodes = gen.random_tree(rng, max_nodes=14, comps=gen.IDENT_ADVERSARIAL)
        if len(nodes) < 5:
            continue
        imps = gen.random_imports(rng, nodes, 10)
        c = make_case(rng, nodes, imps, force_kinds=["R", "R", "R", "R"] if rng.random() < 0.7 else None)
        if not c:
            continue
        listed = {m for _, k, p in c["arch"] for m in (p if k == "N" else [])}
        leaves = [m for m in nodes if not any(x.startswith(m + ".") for x in nodes) and m not in listed]
        drop = set(rng.sample(leaves, min(len(leaves), rng.randint(1, 3)))) if leaves else set()
        c["nodes1"] = [m for m in nodes if m not in drop]
        c["imps1"] = [e for e in imps if e[0] not in drop and e[1] not in drop][: max(0, len(imps) - 2)]
        if len(c["nodes1"]) >= 2:
            cases.append(c)
    res = pmap(_layer_reuse, cases, ctx.jobs, chunk=100)
    for c, (a, b) in zip(cases, res):
        stream.evaluations += 1
        stream.count("reuse:" + a.split(":")[0])
        stream.nontrivial.add(digest((c["nodes"], c["imps"], c["arch"], c["lops"], c["nodes1"])))
        if a != b:
            ctx.violations.append({"kind": "property-violation", "what": "a LayerRule object that was applied to another architecture before gives a different outcome than a fresh one",
                                   "reused": a, "fresh": b, "line": layer_line(c), "first_architecture": {"nodes": c["nodes1"], "imports": c["imps1"]}})
            if len(ctx.violations) >= 3:
                return


def redundant_spelling_stream(ctx, stream, n):
    """spellings that say nothing new: a module listed twice in one layer, an object layer named twice, the subject layer named
    among the exception layers of an 'except' rule (imports inside the subject layer never count anyway) - the rule is the rule
    without the repetition"""
    rng = ctx.rng("redundant")
    base, varied, kinds = [], [], []
    while len(base) < n:
        nodes = gen.random_tree(rng, max_nodes=12, comps=gen.IDENT_ADVERSARIAL)
        if len(nodes) < 4:
            continue
        c = make_case(rng, nodes, gen.random_imports(rng, nodes, 10))
        if not c:
            continue
        c = dict(c, late=0, spec=None)
        v = dict(c)
        k = rng.randrange(3)
        lops = [list(x) for x in c["lops"]]
        obj_i = [i for i, (op, arg) in enumerate(lops) if op in ("named", "namedl") and i >= 4]
        if k == 0:
            named = [i for i, (_, kind, _) in enumerate(c["arch"]) if kind == "N"]
            if not named:
                continue
            i = rng.choice(named)
            n_, kind, ms = c["arch"][i]
            arch = list(c["arch"])
            arch[i] = (n_, kind, list(ms) + [rng.choice(ms)])
            v["arch"] = arch
        elif k == 1:
            if not obj_i:
                continue
            i = obj_i[0]
            objs = lops[i][1] if isinstance(lops[i][1], list) else [lops[i][1]]
            lops[i] = ["namedl", objs + [rng.choice(objs)]]
            v["lops"] = [tuple(x) for x in lops]
        else:
            if not obj_i or not any(op in ("accx", "accbyx") for op, _ in lops):
                continue
            i = obj_i[0]
            objs = lops[i][1] if isinstance(lops[i][1], list) else [lops[i][1]]
            subj = lops[2][1]
            if subj in objs:
                continue
            objs = objs + [subj]
            rng.shuffle(objs)
            lops[i] = ["namedl", objs]
            v["lops"] = [tuple(x) for x in lops]
        base.append(c)
        varied.append(v)
        kinds.append(("module listed twice in a layer", "object layer named twice", "subject layer among the exception layers")[k])
    a = pmap(impl_layer, base, ctx.jobs, chunk=300)
    b = pmap(impl_layer, varied, ctx.jobs, chunk=300)
    for c, v, kind, x, y in zip(base, varied, kinds, a, b):
        stream.evaluations += 1
        stream.count(kind + ":" + x.split(":")[0].split(" ")[0])
        stream.nontrivial.add(digest((c["nodes"], c["imps"], v["arch"], v["lops"])))
        xc, yc = x.rpartition(" I=")[0], y.rpartition(" I=")[0]
        if xc.split(":")[0] != yc.split(":")[0] or (xc.startswith("FAIL") and kind == "module listed twice in a layer" and set(xc[5:].split(";")) != set(yc[5:].split(";"))):
            ctx.violations.append({"kind": "property-violation", "what": f"{kind}: the layer rule differs from the rule without the repetition",
                                   "plain": layer_line(c), "with_repetition": layer_line(v), "impl_plain": x, "impl_with_repetition": y})
            if len(ctx.violations) >= 3:
                return


def run(ctx: Ctx):
    from ..rules_common import interpreter_modes

    interpreter_modes(ctx, "layers")
    run_witnesses(ctx)
    quick = ctx.quick()
    s = Stream(ctx, "tree shapes <= 5 nodes x relations <= 2 imports x layer partitions/rules (sampled per graph)", exhaustive=False)
    rng = ctx.rng("ex")
    cases = []
    for nodes in gen.tree_shapes(5):
        if len(nodes) < 3:
            continue
        pairs = gen.wf_pairs(nodes)
        for k in range(0, 3):
            for imps in itertools.combinations(pairs, k):
                for _ in range(2 if quick else 10):
                    c = make_case(rng, nodes, list(imps))
                    if c:
                        cases.append(c)
    for i in range(0, len(cases), 40000):
        judge(ctx, s, cases[i : i + 40000])
    s.finish()
    n = ctx.size(60000, 600000)
    for name, comps in (("layers-random-plain", gen.PLAIN), ("layers-random-adversarial", gen.IDENT_ADVERSARIAL)):
        s = Stream(ctx, name)
        rng = ctx.rng(name)
        done = 0
        while done < n // 2 and ctx.left() > 20 and not ctx.violations:
            cases = []
            while len(cases) < min(10000, n // 2 - done):
                nodes = gen.random_tree(rng, max_nodes=14, comps=comps)
                if len(nodes) < 4:
                    continue
                c = make_case(rng, nodes, gen.random_imports(rng, nodes, 10))
                if c:
                    cases.append(c)
            judge(ctx, s, cases)
            done += len(cases)
        s.finish()
    if not ctx.violations:
        s = Stream(ctx, "redundant spellings: a module listed twice in a layer, an object layer named twice, the subject layer among the exception layers")
        redundant_spelling_stream(ctx, s, ctx.size(3000, 40000))
        s.finish()
    if not ctx.violations:
        s = Stream(ctx, "re-used LayerRule objects (regex layers resolved per architecture): second application vs a fresh object")
        layer_reuse_stream(ctx, s, ctx.size(1500, 15000))
        s.finish()
    return RULE
