"""C05 - layer-rule verdicts follow the documented semantics, one unit per layer."""
from __future__ import annotations

import itertools
import re

from .. import gen
from .. import scan_common as sc
from ..core import Ctx, InfraError, Stream, digest, pmap
from ..layers_common import impl_layer, layer_line, layer_rule_ops
from ..proto import parse_answer, run_driver
from ..rules_common import run_witnesses

RULE = (
    "cases = (graph, layered architecture, layer rule): graphs as in C01 (tree shapes <= 5 nodes with every relation of "
    "<= 2 imports exhaustively; random trees <= 14 nodes, plain and adversarial names); partitions of 2-6 pairwise "
    "unrelated modules into 2-4 layers (some modules in no layer); each layer given by a name list or by a regex matching "
    "exactly its modules, also mixed among the object layers; layers the rule does not mention of either kind; 12 shapes + "
    "2 'any layer' aliases; 1-2 object layers, given as string or list. Real LayerRule.assert_applies vs "
    "PtaModel.runLayerRuleOps (verdict, error class, message items with layer tags) vs PtaSpec.layerVerdict. "
    "Also on SCANNED projects: random project trees whose files hold imports at every statement-list position (nested in "
    "try/except/match/def/class/if/with/loops) and from-imports mixing object names and sub modules (absolute / relative); the real "
    "LayerRule on the real scan vs model / specification on the graph of the imports the files contain (scan specification). "
    "distinct_nontrivial = distinct in-domain cases with an import that has an end in the subject layer."
)


def rx_for(mods):
    """a regex matching exactly `mods`, in one of four spellings (grouped / ungrouped alternation, \\Z, explicit ^) chosen
    from the names themselves, so that case generation stays a function of the seeded choices made so far"""
    alts = [re.escape(m) for m in mods]
    k = sum(len(m) for m in mods) % 4
    if k == 0:
        return "(" + "|".join(alts) + ")$"
    if k == 1:
        return "|".join(a + "$" for a in alts)
    if k == 2:
        return "(?:" + "|".join(alts) + r")\Z"
    return "^(" + "|".join(alts) + ")$"


def make_case(rng, nodes, imps, pool=None, force_kinds=None):
    """pool: candidate listed modules (pairwise unrelated)"""
    if pool is None:
        cand = nodes[:]
        rng.shuffle(cand)
        pool = []
        for c in cand:
            if all(not gen.related(c, d) for d in pool):
                pool.append(c)
    if len(pool) < 2:
        return None
    k = rng.randint(2, min(4, len(pool)))
    pool = pool[:]
    rng.shuffle(pool)
    layers = []
    for i in range(k):
        remaining_layers = k - i - 1
        maxn = max(1, min(2, len(pool) - remaining_layers))
        n = rng.randint(1, maxn)
        mods = [pool.pop() for _ in range(n)]
        kind = (force_kinds[i] if force_kinds else ("R" if rng.random() < 0.35 else "N"))
        layers.append((f"L{i}", kind, mods))
    if rng.random() < 0.3:
        # one layer lists a package AND one of its sub modules (inside one layer listed modules may be related: the sub
        # module, its siblings and everything below the package belong to that layer either way)
        cand = [(i, d) for i, (_, k_, ms) in enumerate(layers) if k_ == "N" for m in ms for d in nodes if d != m and gen.is_desc(d, m) and d not in ms]
        if cand:
            i, d = rng.choice(cand)
            n_, k_, ms = layers[i]
            ms = ms + [d]
            rng.shuffle(ms)
            layers[i] = (n_, k_, ms)
    arch = [(n, k_, (ms if k_ == "N" else rx_for(ms))) for n, k_, ms in layers]
    names = [l[0] for l in layers]
    subj = rng.choice(names)
    others = [n for n in names if n != subj]
    verb, imp, exc, anything = rng.choice(gen.SHAPES)
    objs = rng.sample(others, rng.randint(1, min(2, len(others))))
    lops = layer_rule_ops(verb, imp, exc, subj, objs, anything, obj_as_list=rng.random() < 0.6)
    spec = {"lv": verb, "ld": "i" if imp else "b", "lx": "1" if exc else "0", "lsub": subj,
            "lobj": [] if anything else objs, "la": "1" if anything else "0"}
    # now and then the architecture object receives its last layer(s) only after the rule has been started on it
    late = rng.randint(1, len(arch) - 1) if rng.random() < 0.15 else 0
    return {"nodes": nodes, "imps": imps, "arch": arch, "lops": lops, "spec": spec, "late": late, "_layers": layers,
            "_subject_mods": next(ms for n, _, ms in layers if n == subj)}


def judge(ctx, stream, cases):
    impl = pmap(impl_layer, cases, ctx.jobs, chunk=500)
    judge_results(ctx, stream, cases, impl)


def judge_results(ctx, stream, cases, impl, what="layer-rule verdict differs from the documented layer semantics"):
    """impl: the real library's outcome per case ('PASS I=..' / 'FAIL:items I=..' / 'ERR:kind I=..'), judged against the
    model and the specification evaluated on the case's graph (nodes, imps)"""
    ans = run_driver([layer_line(c) for c in cases])
    for c, i, a in zip(cases, impl, ans):
        a = parse_answer(a)
        stream.evaluations += 1
        ibody, _, iidx = i.partition(" I=")
        icls = "FAIL" if ibody.startswith("FAIL") else ibody
        m = a.get("M", "?")
        mcls = "FAIL" if m.startswith("FAIL") else m
        s, dom = a.get("S", "NA"), a.get("D", "-")
        in_domain = dom == "wd"
        stream.count("impl:" + icls.split(":")[0])
        stream.count("in-domain" if in_domain else "out-of-domain")
        kinds = "".join(sorted({k for _, k, _ in c["arch"]}))
        stream.count("layer-kinds:" + kinds)
        if in_domain and any(any(gen.is_desc(x, s_) for s_ in c["_subject_mods"]) for e in c["imps"] for x in e):
            stream.nontrivial.add(digest((c["nodes"], c["imps"], c["arch"], c["lops"])))
        if len(ctx.samples) < 3 and in_domain and icls == "FAIL" and "R" in kinds:
            ctx.samples.append({"line": layer_line(c), "impl": i, "answer": a})
        if in_domain and mcls != s:
            raise InfraError(f"layer model and specification disagree inside the domain: {layer_line(c)} -> {a}")
        if in_domain and icls != s:
            ctx.violations.append({"kind": "property-violation", "what": what,
                                   "line": layer_line(c), "impl": i, "model": m, "spec": s, "case": {k: v for k, v in c.items() if not k.startswith("_")}})
            if len(ctx.violations) >= 5:
                return
            continue
        if icls != mcls or (icls == "FAIL" and ibody != m) or (icls.startswith("ERR") and iidx != a.get("I")):
            rec = {"kind": "correspondence-broken", "what": "correspondence impl = PtaModel.runLayerRuleOps (layer rules)",
                   "theorem": "Pta.C05.* are statements about PtaModel.assertAppliesLayer", "line": layer_line(c), "impl": i,
                   "model": m, "model_index": a.get("I")}
            if len(ctx.broken) < 20:
                (ctx.broken if in_domain else ctx.drift).append(rec)



def _layer_reuse(case):
    """ONE LayerRule object applied to a first architecture and then to the case's architecture; outcome of the second
    application and of a fresh rule object on the second architecture"""
    from ..impl import LayerRule, err_kind, make_graph, parse_message
    from ..layers_common import LOPS, make_arch

    def build():
        arch = make_arch(case["arch"])
        r = LayerRule()
        for op, arg in case["lops"]:
            r = r.based_on(arch) if op == "based" else LOPS[op](r, arg)
        return r

    def apply(r, g):
        try:
            r.assert_applies(g)
        except AssertionError as e:
            return "FAIL:" + ";".join(parse_message(str(e)))
        except Exception as e:  # noqa: BLE001
            return "ERR:" + err_kind(e)
        return "PASS"

    g1 = make_graph(case["nodes1"], case["imps1"])
    g2 = make_graph(case["nodes"], case["imps"])
    try:
        r = build()
        fresh = build()
    except Exception as e:  # noqa: BLE001
        return ("BUILDERR:" + type(e).__name__,) * 2
    apply(r, g1)
    return apply(r, g2), apply(fresh, g2)


def layer_reuse_stream(ctx, stream, n):
    rng = ctx.rng("layer-reuse")
    cases = []
    while len(cases) < n:
        nodes = gen.random_tree(rng, max_nodes=14, comps=gen.IDENT_ADVERSARIAL)
        if len(nodes) < 5:
            continue
        imps = gen.random_imports(rng, nodes, 10)
        c = make_case(rng, nodes, imps, force_kinds=["R", "R", "R", "R"] if rng.random() < 0.7 else None)
        if not c:
            continue
        listed = {m for _, k, p in c["arch"] for m in (p if k == "N" else [])}
        leaves = [m for m in nodes if not any(x.startswith(m + ".") for x in nodes) and m not in listed]
        drop = set(rng.sample(leaves, min(len(leaves), rng.randint(1, 3)))) if leaves else set()
        c["nodes1"] = [m for m in nodes if m not in drop]
        c["imps1"] = [e for e in imps if e[0] not in drop and e[1] not in drop][: max(0, len(imps) - 2)]
        if len(c["nodes1"]) >= 2:
            cases.append(c)
    res = pmap(_layer_reuse, cases, ctx.jobs, chunk=100)
    for c, (a, b) in zip(cases, res):
        stream.evaluations += 1
        stream.count("reuse:" + a.split(":")[0])
        stream.nontrivial.add(digest((c["nodes"], c["imps"], c["arch"], c["lops"], c["nodes1"])))
        if a != b:
            ctx.violations.append({"kind": "property-violation", "what": "a LayerRule object that was applied to another architecture before gives a different outcome than a fresh one",
                                   "reused": a, "fresh": b, "line": layer_line(c), "first_architecture": {"nodes": c["nodes1"], "imports": c["imps1"]}})
            if len(ctx.violations) >= 3:
                return


def redundant_spelling_stream(ctx, stream, n):
    """spellings that say nothing new: a module listed twice in one layer, an object layer named twice, the subject layer named
    among the exception layers of an 'except' rule (imports inside the subject layer never count anyway) - the rule is the rule
    without the repetition"""
    rng = ctx.rng("redundant")
    base, varied, kinds = [], [], []
    while len(base) < n:
        nodes = gen.random_tree(rng, max_nodes=12, comps=gen.IDENT_ADVERSARIAL)
        if len(nodes) < 4:
            continue
        c = make_case(rng, nodes, gen.random_imports(rng, nodes, 10))
        if not c:
            continue
        c = dict(c, late=0, spec=None)
        v = dict(c)
        k = rng.randrange(3)
        lops = [list(x) for x in c["lops"]]
        obj_i = [i for i, (op, arg) in enumerate(lops) if op in ("named", "namedl") and i >= 4]
        if k == 0:
            named = [i for i, (_, kind, _) in enumerate(c["arch"]) if kind == "N"]
            if not named:
                continue
            i = rng.choice(named)
            n_, kind, ms = c["arch"][i]
            arch = list(c["arch"])
            arch[i] = (n_, kind, list(ms) + [rng.choice(ms)])
            v["arch"] = arch
        elif k == 1:
            if not obj_i:
                continue
            i = obj_i[0]
            objs = lops[i][1] if isinstance(lops[i][1], list) else [lops[i][1]]
            lops[i] = ["namedl", objs + [rng.choice(objs)]]
            v["lops"] = [tuple(x) for x in lops]
        else:
            if not obj_i or not any(op in ("accx", "accbyx") for op, _ in lops):
                continue
            i = obj_i[0]
            objs = lops[i][1] if isinstance(lops[i][1], list) else [lops[i][1]]
            subj = lops[2][1]
            if subj in objs:
                continue
            objs = objs + [subj]
            rng.shuffle(objs)
            lops[i] = ["namedl", objs]
            v["lops"] = [tuple(x) for x in lops]
        base.append(c)
        varied.append(v)
        kinds.append(("module listed twice in a layer", "object layer named twice", "subject layer among the exception layers")[k])
    a = pmap(impl_layer, base, ctx.jobs, chunk=300)
    b = pmap(impl_layer, varied, ctx.jobs, chunk=300)
    for c, v, kind, x, y in zip(base, varied, kinds, a, b):
        stream.evaluations += 1
        stream.count(kind + ":" + x.split(":")[0].split(" ")[0])
        stream.nontrivial.add(digest((c["nodes"], c["imps"], v["arch"], v["lops"])))
        xc, yc = x.rpartition(" I=")[0], y.rpartition(" I=")[0]
        if xc.split(":")[0] != yc.split(":")[0] or (xc.startswith("FAIL") and kind == "module listed twice in a layer" and set(xc[5:].split(";")) != set(yc[5:].split(";"))):
            ctx.violations.append({"kind": "property-violation", "what": f"{kind}: the layer rule differs from the rule without the repetition",
                                   "plain": layer_line(c), "with_repetition": layer_line(v), "impl_plain": x, "impl_with_repetition": y})
            if len(ctx.violations) >= 3:
                return


# ----------------------------------------------------------------------------- layer rules on SCANNED projects
# The layer semantics speak about the imports of the modules of a layer. For a scanned project these are the imports the
# written files contain (C02): wherever in a file the statement stands and whatever mix of names it lists. The stream below
# writes project trees whose files hold the full range of statement shapes, computes the import edges the files demand with
# the scan SPECIFICATION (PtaSpec.scanImports, fed the files' ASTs), evaluates layer model / layer specification on that
# expected graph and compares with the real LayerRule applied to the REAL scan of the written tree.
_OBJECT_NAMES = ["func", "Klass", "CONST", "helper", "VERSION", "zz_missing"]


def mixed_from_imports(rng, tree, relpath):
    """(chain, statement) items for file `relpath`: from-imports of a package that list sub modules of the package AND names
    that are no modules (objects of the package) in any order, 2-4 names, now and then aliased / parenthesised over several
    lines; absolute or relative to the importing file's package; at a random statement-list position chain"""
    mods = sorted({sc.module_of(q) for q, v in tree.items() if v is None or q.endswith(".py")})
    ident = re.compile(r"[A-Za-z_]\w*(\.[A-Za-z_]\w*)*\Z")
    mods = [m for m in mods if ident.match(m)]
    children = {}
    for m in mods:
        if "." in m:
            par, name = m.rsplit(".", 1)
            if name != "__init__":
                children.setdefault(par, []).append(name)
    packages = [m for m in mods if m in children]
    if not packages:
        return []
    importer = sc.module_of(relpath)
    depth = importer.count(".")
    out = []
    for _ in range(rng.randint(1, 2)):
        P = rng.choice(packages)
        subs = rng.sample(children[P], min(len(children[P]), rng.randint(1, 2)))
        objs = rng.sample(_OBJECT_NAMES, rng.randint(0, 2))
        names = subs + objs
        rng.shuffle(names)
        names = [n + (" as q%d" % i if rng.random() < 0.15 else "") for i, n in enumerate(names)]
        source = P
        if depth >= 1 and rng.random() < 0.35:
            # the same package written relative to the importing file, where that is possible
            for level in rng.sample(range(1, depth + 1), depth):
                base = ".".join(importer.split(".")[: depth - level + 1])
                if P == base:
                    source = "." * level
                    break
                if P.startswith(base + "."):
                    source = "." * level + P[len(base) + 1:]
                    break
        if rng.random() < 0.2:
            st = f"from {source} import (\n" + "".join(f"    {n},\n" for n in names) + ")"
        else:
            st = f"from {source} import " + ", ".join(names)
        chain = [rng.choice(sc.POS_NAMES) for _ in range(rng.choice([0, 0, 1, 1, 2, 3]))]
        out.append((chain, st))
    return out


def _impl_layer_on(ev, case) -> str:
    """impl_layer of layers_common, on a given evaluable (a scanned one) instead of a constructed graph"""
    from ..impl import LayerRule, err_kind, parse_message
    from ..layers_common import LOPS, make_arch

    late = case.get("late", 0)
    ops = case["lops"]
    try:
        arch = make_arch(case["arch"][: len(case["arch"]) - late] if late else case["arch"])
    except Exception as e:  # noqa: BLE001
        return "ARCHERR:" + type(e).__name__
    r = LayerRule()
    for i, (op, arg) in enumerate(ops):
        if late and i == 2:
            try:
                make_arch(case["arch"][len(case["arch"]) - late:], arch)
            except Exception as e:  # noqa: BLE001
                return "ARCHERR:" + type(e).__name__
        try:
            r = r.based_on(arch) if op == "based" else LOPS[op](r, arg)
        except AssertionError:
            raise
        except Exception as e:  # noqa: BLE001
            return f"ERR:{err_kind(e)} I={i}"
    try:
        r.assert_applies(ev)
    except AssertionError as e:
        return "FAIL:" + ";".join(parse_message(str(e))) + f" I={len(ops)}"
    except Exception as e:  # noqa: BLE001
        return f"ERR:{err_kind(e)} I={len(ops)}"
    return f"PASS I={len(ops)}"


def _scanned_layer_job(job):
    """writes the tree, scans it, applies the job's layer rules to the scanned architecture.
    -> (scan error or None, modules of the scan, its imports of an importer's own ancestor packages, outcome per rule)"""
    from ..impl import err_kind, get_evaluable_architecture, graph_snapshot

    tree, root, mp, cases = job
    with sc.write_project(tree) as proj:
        try:
            ev = get_evaluable_architecture(proj.path(root), proj.path(mp))
        except Exception as e:  # noqa: BLE001
            return "ERR:" + err_kind(e), [], [], []
        nodes, imps, _ = graph_snapshot(ev)
        own_ancestors = [(u, v) for u, v in imps if u.startswith(v + ".")]
        return None, nodes, own_ancestors, [_impl_layer_on(ev, c) for c in cases]


def _layer_pool(rng, nodes, imps):
    """2-6 pairwise unrelated modules to build layers from; modules that import / are imported are preferred three times
    out of four (a layer rule over modules without imports says little), a module above all others is never taken"""
    ends = sorted({x for e in imps for x in e})
    rng.shuffle(ends)
    rest = [n for n in nodes if n not in ends]
    rng.shuffle(rest)
    cand = ends + rest
    if rng.random() < 0.25:
        rng.shuffle(cand)
    pool = []
    for c in cand:
        if all(gen.is_desc(d, c) for d in nodes):
            continue
        if all(not gen.related(c, d) for d in pool):
            pool.append(c)
    return pool[: rng.randint(2, 6)]


def scanned_layer_stream(ctx, stream, n_trees, per_tree=4):
    rng = ctx.rng("scanned-layers")
    trees = []
    while len(trees) < n_trees:
        tree = sc.gen_tree(rng, extra_files=False)
        placed = sc.fill_sources(rng, tree, externals=rng.random() < 0.5)
        for p in sorted(placed):
            if rng.random() < 0.5:
                items = mixed_from_imports(rng, tree, p)
                tree[p] += "".join(sc.place(st, ch) for ch, st in items)
                placed[p] = placed[p] + items
        dirs = sorted(p for p, v in tree.items() if v is None)
        mp = "proj" if rng.random() < 0.8 else rng.choice(dirs)
        trees.append((tree, mp, placed))
    # what the written files demand: modules and imports by the scan specification (the base directory only matters to
    # exclusion patterns, of which there are none but the default one)
    ans = run_driver([sc.scan_line("scan", "/t/proj", t, "proj", mp) for t, mp, _ in trees])
    jobs, metas = [], []
    for (tree, mp, placed), a in zip(trees, ans):
        S = sc.parse_snapshot(parse_answer(a).get("S", "ERR"))
        if S is None:
            stream.count("scan:specification undefined (relative import above the root)")
            continue
        nodes = sorted(S[0])
        want = sorted((u, v) for u, v in S[1] if not u.startswith(v + "."))
        cases = []
        for _ in range(per_tree * 3):
            if len(cases) >= per_tree:
                break
            pool = _layer_pool(rng, nodes, want)
            c = make_case(rng, nodes, want, pool=pool) if len(pool) >= 2 else None
            if c:
                cases.append(c)
        if not cases:
            stream.count("scan:no two unrelated modules")
            continue
        jobs.append((tree, "proj", mp, cases))
        metas.append((nodes, want, placed))
    res = pmap(_scanned_layer_job, jobs, ctx.jobs, chunk=10)
    flat, impl = [], []
    for (tree, root, mp, cases), (nodes, want, placed), (err, real_nodes, own_anc, outs) in zip(jobs, metas, res):
        if err:
            stream.count("scan:" + err)
            continue
        if sorted(real_nodes) != nodes:
            stream.count("scan:modules differ from the directory tree (C04's subject)")
            continue
        stream.count("scan:ok")
        chains = {pos for items in placed.values() for ch, _ in items for pos in ch}
        stream.count("trees with an import in an except handler / match case", int(any(("handler" in x or "case" in x) for x in chains)))
        # imports of the importing file's own ancestor packages are outside C02's claim: taken as the scan reports them
        nset = set(nodes)
        edges = sorted(set(want) | {e for e in own_anc if e[0] in nset and e[1] in nset})
        files = {p: v for p, v in tree.items() if v is not None}
        for c, o in zip(cases, outs):
            c = dict(c, imps=edges, files=files, module_path=mp,
                     python="write `files`, ev = get_evaluable_architecture(<dir>/proj, <dir>/<module_path>); build the LayeredArchitecture `arch` and the rule `lops`; rule.assert_applies(ev)")
            flat.append(c)
            impl.append(o)
    judge_results(ctx, stream, flat, impl,
                  what="layer-rule verdict on a SCANNED project differs from the documented layer semantics applied to the imports its files contain")


def run(ctx: Ctx):
    from ..rules_common import interpreter_modes

    interpreter_modes(ctx, "layers")
    run_witnesses(ctx)
    quick = ctx.quick()
    s = Stream(ctx, "tree shapes <= 5 nodes x relations <= 2 imports x layer partitions/rules (sampled per graph)", exhaustive=False)
    rng = ctx.rng("ex")
    cases = []
    for nodes in gen.tree_shapes(5):
        if len(nodes) < 3:
            continue
        pairs = gen.wf_pairs(nodes)
        for k in range(0, 3):
            for imps in itertools.combinations(pairs, k):
                for _ in range(2 if quick else 10):
                    c = make_case(rng, nodes, list(imps))
                    if c:
                        cases.append(c)
    for i in range(0, len(cases), 40000):
        judge(ctx, s, cases[i : i + 40000])
    s.finish()
    n = ctx.size(60000, 600000)
    for name, comps in (("layers-random-plain", gen.PLAIN), ("layers-random-adversarial", gen.IDENT_ADVERSARIAL)):
        s = Stream(ctx, name)
        rng = ctx.rng(name)
        done = 0
        while done < n // 2 and ctx.left() > 20 and not ctx.violations:
            cases = []
            while len(cases) < min(10000, n // 2 - done):
                nodes = gen.random_tree(rng, max_nodes=14, comps=comps)
                if len(nodes) < 4:
                    continue
                c = make_case(rng, nodes, gen.random_imports(rng, nodes, 10))
                if c:
                    cases.append(c)
            judge(ctx, s, cases)
            done += len(cases)
        s.finish()
    if not ctx.violations:
        s = Stream(ctx, "redundant spellings: a module listed twice in a layer, an object layer named twice, the subject layer among the exception layers")
        redundant_spelling_stream(ctx, s, ctx.size(3000, 40000))
        s.finish()
    if not ctx.violations:
        s = Stream(ctx, "layer rules on SCANNED projects: files with imports at every statement position (try/except/match/def/class/if/with/loops, nested) "
                        "and from-imports mixing object names and sub modules, absolute and relative; expected graph = imports the files contain (scan specification)")
        scanned_layer_stream(ctx, s, ctx.size(500, 8000))
        s.finish()
    if not ctx.violations:
        s = Stream(ctx, "re-used LayerRule objects (regex layers resolved per architecture): second application vs a fresh object")
        layer_reuse_stream(ctx, s, ctx.size(1500, 15000))
        s.finish()
    return RULE
