"""C14 - module identity follows dotted-name boundaries, never raw string prefixes.
Relational: every case is evaluated under two injective renamings of path components (a collision-free one and an
adversarial one that makes siblings string prefixes / substrings of each other); outcomes must agree up to the renaming."""
from __future__ import annotations

import re

from .. import gen
from .. import scan_common as sc
from ..core import Ctx, Stream, digest, pmap
from ..layers_common import impl_layer, layer_line
from ..proto import dec, enc, parse_answer, run_driver
from ..rules_common import run_witnesses, split_impl, split_model

RULE = (
    "cases over abstract components c0..c9: (a) rules of the whole name-based rule space (both filter kinds, batches, "
    "'anything', related names); (b) layer rules over name-list layers; (c) plot labels with alias maps; (d) scans with "
    "module_path below root_path, externals included and an external pattern (internal/external classification). Each case "
    "is materialised under a collision-free renaming (c_i -> n<i>q) and an adversarial one (c_i -> a, ab, a_b, aa, a1, abc, "
    "b, ba, b_a, a_ in a seeded order; for graph-level cases also a+b, a(b, b$) and the outcomes - verdict class, message "
    "items, layer tags, label maps, module/import sets - are compared after mapping names back. The adversarial outcome of "
    "(a) and (b) is also compared with the model. distinct_nontrivial = distinct cases in which the adversarial renaming "
    "makes one used name a raw string prefix of an unrelated used name."
)

ADV_IDENT = ["a", "ab", "a_b", "aa", "a1", "abc", "b", "ba", "b_a", "a_"]
ADV_ANY = ["a", "ab", "a_b", "aa", "a+b", "a(b", "b$", "b", "ba", "a1"]
ADV_SCAN = ["py", "pya", "a", "apy", "a_py", "p", "pyc", "__init__x", "_", "__"]
# capitalised siblings (case-sensitive ordering), and components that are suffixes of their ancestors' names
ADV_CASE = ["a", "B", "b", "Ab", "ab", "aB", "Z", "z_a", "_a", "A"]
ABSTRACT = [f"c{i}" for i in range(10)]


def renamings(rng, pool):
    if isinstance(pool, tuple):        # several adversarial pools: one is drawn per case
        pool = rng.choice(pool)
    adv = pool[:]
    rng.shuffle(adv)
    r1 = {c: f"n{i}q" for i, c in enumerate(ABSTRACT)}
    r2 = {c: adv[i] for i, c in enumerate(ABSTRACT)}
    return r1, r2


def ren(name, r):
    return ".".join(r.get(c, c) for c in name.split("."))


def inv(r):
    return {v: k for k, v in r.items()}


def has_prefix_clash(names):
    names = sorted(set(names))
    return any(a != b and b.startswith(a) and not b.startswith(a + ".") for a in names for b in names)


# ------------------------------------------------------------------------------------------------ (a) rules
def rename_case(case, r):
    c = dict(case)
    c["nodes"] = [ren(n, r) for n in case["nodes"]]
    c["imps"] = [(ren(u, r), ren(v, r)) for u, v in case["imps"]]
    c["ops"] = [(op, ([ren(x, r) for x in arg] if isinstance(arg, list) else arg)) for op, arg in case["ops"]]
    c["spec"] = None
    return c


def unrename_items(items: str, r):
    back = inv(r)
    out = []
    for it in items.split(";"):
        if not it:
            continue
        f = it.split("|")
        if f[0] in ("imp", "limp"):
            f[1], f[2] = enc(ren(dec(f[1]), back)), enc(ren(dec(f[2]), back))
        elif f[0] == "miss":
            f[2] = f[2][0] + enc(ren(dec(f[2][1:]), back))
            f[3] = ",".join(sorted(x[0] + enc(ren(dec(x[1:]), back)) for x in f[3].split(",") if x))
        out.append("|".join(f))
    return ";".join(sorted(out))


def judge_rules(ctx, stream, cases, pool):
    rng = ctx.rng("ren-rules")
    triples = []
    for c in cases:
        r1, r2 = renamings(rng, pool)
        triples.append((c, r1, r2))
    flat = [rename_case(c, r) for c, r1, r2 in triples for r in (r1, r2)]
    impl = pmap(gen.impl_rule, flat, ctx.jobs)
    ans = run_driver([gen.rule_line(c) for c in flat])
    for j, (c, r1, r2) in enumerate(triples):
        i1, i2 = impl[2 * j], impl[2 * j + 1]
        a2 = parse_answer(ans[2 * j + 1])
        stream.evaluations += 1
        c1, it1, _ = split_impl(i1)
        c2, it2, _ = split_impl(i2)
        used = [ren(n, r2) for n in c["nodes"]]
        if has_prefix_clash(used):
            stream.nontrivial.add(digest((c["nodes"], c["imps"], c["ops"], sorted(r2.items()))))
        stream.count("verdict:" + c1.split(":")[0])
        if len(ctx.samples) < 2 and c1 == "FAIL" and has_prefix_clash(used):
            ctx.samples.append({"abstract": gen.rule_line(c), "adversarial": gen.rule_line(flat[2 * j + 1]), "impl": [i1, i2]})
        if c1 != c2 or unrename_items(it1, r1) != unrename_items(it2, r2):
            ctx.violations.append({"kind": "property-violation", "what": "rule outcome is not invariant under an injective renaming of path components",
                                   "collision_free": gen.rule_line(flat[2 * j]), "adversarial": gen.rule_line(flat[2 * j + 1]), "impl": [i1, i2],
                                   "renaming": r2})
            if len(ctx.violations) >= 3:
                return
            continue
        mcls, mitems = split_model(a2.get("M", "?"))
        if mcls != c2 or (c2 == "FAIL" and mitems != it2):
            if len(ctx.broken) < 10:
                ctx.broken.append({"kind": "correspondence-broken", "what": "correspondence impl = model on adversarially renamed rule",
                                   "theorem": "Pta.C14.*", "line": gen.rule_line(flat[2 * j + 1]), "impl": i2, "model": a2.get("M")})


# ------------------------------------------------------------------------------------------------ (b) layers
def rename_layer_case(case, r):
    c = dict(case)
    c["nodes"] = [ren(n, r) for n in case["nodes"]]
    c["imps"] = [(ren(u, r), ren(v, r)) for u, v in case["imps"]]
    from .c05 import rx_for

    # a regex-defined layer is re-written for the renamed modules (a regex matching exactly them)
    c["arch"] = [(n, k, [ren(m, r) for m in ms] if k == "N" else rx_for([ren(m, r) for m in ms])) for n, k, ms in case["_layers"]]
    c["late"] = 0
    c["spec"] = None
    return c


def judge_layers(ctx, stream, cases, pool):
    rng = ctx.rng("ren-layers")
    triples = [(c,) + renamings(rng, pool) for c in cases]
    flat = [rename_layer_case(c, r) for c, r1, r2 in triples for r in (r1, r2)]
    impl = pmap(impl_layer, flat, ctx.jobs, chunk=300)
    ans = run_driver([layer_line(c) for c in flat])
    for j, (c, r1, r2) in enumerate(triples):
        i1, i2 = impl[2 * j].rpartition(" I=")[0], impl[2 * j + 1].rpartition(" I=")[0]
        stream.evaluations += 1
        c1, c2 = ("FAIL" if i1.startswith("FAIL") else i1), ("FAIL" if i2.startswith("FAIL") else i2)
        used = [ren(n, r2) for n in c["nodes"]]
        if has_prefix_clash(used):
            stream.nontrivial.add(digest((c["nodes"], c["imps"], c["arch"], c["lops"], sorted(r2.items()))))
        it1 = unrename_items(i1[5:], r1) if c1 == "FAIL" else ""
        it2 = unrename_items(i2[5:], r2) if c2 == "FAIL" else ""
        if c1 != c2 or it1 != it2:
            ctx.violations.append({"kind": "property-violation", "what": "layer-rule outcome / layer attribution is not invariant under renaming",
                                   "collision_free": layer_line(flat[2 * j]), "adversarial": layer_line(flat[2 * j + 1]), "impl": [i1, i2], "renaming": r2})
            if len(ctx.violations) >= 3:
                return
            continue
        m = parse_answer(ans[2 * j + 1]).get("M", "?")
        if m != i2:
            if len(ctx.broken) < 10:
                ctx.broken.append({"kind": "correspondence-broken", "what": "correspondence impl = model on adversarially renamed layer rule",
                                   "theorem": "Pta.C14.layerOf_*", "line": layer_line(flat[2 * j + 1]), "impl": i2, "model": m})


# ------------------------------------------------------------------------------------------------ (c) labels
def _labels(case):
    from .c17 import impl_label

    return impl_label(case)


def judge_labels(ctx, stream, cases, pool):
    rng = ctx.rng("ren-labels")
    for nodes, aliases in cases:
        r1, r2 = renamings(rng, pool)
        outs = []
        for r in (r1, r2):
            out = _labels({"nodes": [ren(n, r) for n in nodes], "aliases": [(ren(k, r), v) for k, v in aliases], "kw": {}})
            body = out.split(" ")[0]
            back = inv(r)
            if body.startswith("OK:"):
                m = {}
                for kv in body[3:].split(","):
                    k, v = (dec(x) for x in kv.split(">"))
                    tok = re.match(r"(@\d+@)(.*)$", v)
                    m[ren(k, back)] = (tok.group(1) + ren(tok.group(2), back)) if tok else ren(v, back)
                outs.append(m)
            else:
                outs.append(body.split(":")[:2])
        stream.evaluations += 1
        if has_prefix_clash([ren(n, r2) for n in nodes]):
            stream.nontrivial.add(digest((nodes, aliases, sorted(r2.items()))))
        if outs[0] != outs[1]:
            ctx.violations.append({"kind": "property-violation", "what": "plot labels are not invariant under renaming of path components",
                                   "nodes": nodes, "aliases": aliases, "renaming": r2, "collision_free": outs[0], "adversarial": outs[1]})
            if len(ctx.violations) >= 3:
                return


# ------------------------------------------------------------------------------------------------ (d) scans
def _scan(case):
    tree, mp, r = case
    def rn(s):
        return re.sub(r"\bc\d\b", lambda m: r[m.group(0)], s)
    t2 = {rn(p): (None if v is None else rn(v)) for p, v in tree.items()}
    root = rn("c0")
    back = inv(r)
    # an external library whose name is the root package's name without its first character (`roj` next to `proj`): it has
    # nothing to do with the internal modules, whatever the components are called
    ext = root[1:]
    if mp == "c0" and re.fullmatch(r"[A-Za-z_]\w*", ext or "") and ext not in r.values():
        for q in sorted(t2):
            if q.endswith(".py"):
                t2[q] += f"import {ext}.{rn('c1')}\nimport {ext}\n"
                break
        back = dict(back)
        back[ext] = "EXT0"
    # an external library whose name is module_path's dotted name with the dots replaced by underscores (`proj_src` next to the
    # internal prefix `proj.src`), excluded by an external exclusion pattern: it shares no dotted component with the internal
    # modules, so the pattern applies to it and it must not be part of the architecture
    joined = rn(mp).replace("/", "_")
    extra_excl = ()
    if mp != "c0" and re.fullmatch(r"[A-Za-z_]\w*", joined) and joined not in r.values():
        for q in sorted(t2):
            if q.endswith(".py") and q.startswith(rn(mp) + "/"):
                t2[q] += f"import {joined}.helpers\nimport {joined}\n"
                back = dict(back)
                back[joined] = "EXTJ"
                extra_excl = (joined,)
                break
    with sc.write_project(t2) as proj:
        out = sc.real_scan(proj, root, rn(mp), exclude_external_libraries=False, external_exclusions=(rn("c0.c1") + "x",) + extra_excl)
    snap = sc.parse_snapshot(out)
    if snap is None:
        return out
    # the library `EXT0` itself is left out of the comparison (it is only imported under renamings for which its name is an
    # identifier); what must not change is everything else - in particular no import of it may turn into an internal import
    nodes = sorted(ren(n, back) for n in snap[0])
    imps = sorted((ren(u, back), ren(v, back)) for u, v in snap[1])
    return ([n for n in nodes if n.split(".")[0] != "EXT0"], [e for e in imps if e[1].split(".")[0] != "EXT0"])


def judge_scans(ctx, stream, n):
    rng = ctx.rng("ren-scans")
    for _ in range(n):
        tree = sc.gen_tree(rng, comps=["c1", "c2", "c3", "c4", "c5"], root="c0", extra_files=False)
        dirs = sorted(p for p, v in tree.items() if v is None)
        for p in [q for q in tree if q.endswith(".py")]:
            mods = sorted({sc.module_of(q) for q, v in tree.items() if v is None or q.endswith(".py")})
            tree[p] = "".join(f"import {rng.choice(mods)}\n" for _ in range(rng.randint(0, 2))) + rng.choice(["", "import c9.c8\n", "import c0x\n"])
        mp = rng.choice(dirs)
        if mp != "c0":
            # absolute imports spelled relative to module_path's parent directory (C04): how they resolve must not depend on
            # how the directories above module_path are called
            parent = sc.module_of(mp).rsplit(".", 1)[0]
            inside = [m for m in sorted({sc.module_of(q) for q, v in tree.items() if v is None or q.endswith(".py")}) if m.startswith(sc.module_of(mp))]
            for p in [q for q in tree if q.endswith(".py") and q.startswith(mp + "/")]:
                if inside and rng.random() < 0.6:
                    t = rng.choice(inside)[len(parent) + 1:]
                    tree[p] += rng.choice([f"import {t}\n", f"from {t} import thing\n", f"import {t} as q\n"])
        # second pool: components that look like file suffixes / contain the root's name / are prefixes of "__init__"
        r1, r2 = renamings(rng, (ADV_IDENT, ADV_SCAN, ADV_CASE))
        o1, o2 = _scan((tree, mp, r1)), _scan((tree, mp, r2))
        stream.evaluations += 1
        if has_prefix_clash([ren(sc.module_of(p), r2) for p in tree]):
            stream.nontrivial.add(digest((sorted(tree), mp, sorted(r2.items()))))
        leaked = [o for o in (o1, o2) if isinstance(o, tuple) and any(n.split(".")[0] == "EXTJ" for n in o[0])]
        if leaked:
            ctx.violations.append({"kind": "property-violation", "what": "an external library that differs from the internal prefix only in the separator (a_b next to a.b) is treated as internal: its exclusion pattern is not applied",
                                   "files": dict(tree), "module_path": mp, "renaming": r2, "scan": leaked[0]})
            if len(ctx.violations) >= 3:
                return
        elif o1 != o2:
            ctx.violations.append({"kind": "property-violation", "what": "scan (internal/external classification) is not invariant under renaming of path components",
                                   "files": dict(tree), "module_path": mp, "renaming": r2, "collision_free": o1, "adversarial": o2})
            if len(ctx.violations) >= 3:
                return


def run(ctx: Ctx):
    from ..rules_common import random_cases
    from . import c05

    run_witnesses(ctx)
    quick = ctx.quick()
    s = Stream(ctx, "(a) rules under two renamings")
    cases = random_cases(ctx.rng("rules"), ctx.size(6000, 120000), comps=ABSTRACT, strict=False, max_nodes=12, max_imports=10)
    cases += random_cases(ctx.rng("rules-strict"), ctx.size(3000, 60000), comps=ABSTRACT, strict=True, max_nodes=12, max_imports=10)
    lrng = ctx.rng("rules-limit")
    for c in cases:
        if lrng.random() < 0.2:
            # a level-limited architecture (names deeper than the limit then raise a lookup error under every renaming alike)
            c["lim"] = lrng.randint(0, max(1, max(n.count(".") for n in c["nodes"])))
    judge_rules(ctx, s, cases, (ADV_ANY, ADV_ANY, ADV_CASE))
    s.finish()
    s = Stream(ctx, "(b) layer rules under two renamings")
    rng = ctx.rng("layers")
    lcases = []
    while len(lcases) < (ctx.size(4000, 80000)):
        nodes = gen.random_tree(rng, max_nodes=12, comps=ABSTRACT)
        if len(nodes) < 4:
            continue
        c = c05.make_case(rng, nodes, gen.random_imports(rng, nodes, 10), force_kinds=["N"] * 4)
        if c:
            lcases.append(c)
    judge_layers(ctx, s, lcases, (ADV_ANY, ADV_ANY, ADV_CASE))
    s.finish()
    if not ctx.violations:
        # name-defined layers next to regex-defined ones (each regex re-written to match exactly the renamed modules). Only
        # identifier-like images here: a regex text can then never coincide with a module name, and the regex layers merely
        # accompany the name-defined layers whose attribution the property speaks about
        s = Stream(ctx, "(b') layer rules mixing name-defined and regex-defined layers under two identifier renamings")
        mixed = []
        while len(mixed) < ctx.size(1500, 30000):
            nodes = gen.random_tree(rng, max_nodes=12, comps=ABSTRACT)
            if len(nodes) < 4:
                continue
            c = c05.make_case(rng, nodes, gen.random_imports(rng, nodes, 10))
            if c and any(k == "R" for _, k, _ in c["_layers"]) and any(k == "N" for _, k, _ in c["_layers"]):
                mixed.append(c)
        judge_layers(ctx, s, mixed, (ADV_IDENT, ADV_IDENT, ADV_CASE))
        s.finish()
    s = Stream(ctx, "(c) plot labels under two renamings")
    rng = ctx.rng("labels")
    lab = []
    for _ in range(ctx.size(1500, 30000)):
        nodes = gen.random_tree(rng, max_nodes=10, comps=ABSTRACT)
        mods = rng.sample(nodes, rng.randint(1, min(3, len(nodes))))
        lab.append((nodes, [(m, f"@{j}@") for j, m in enumerate(mods)]))
    judge_labels(ctx, s, lab, (ADV_ANY, ADV_ANY, ADV_CASE))
    s.finish()
    s = Stream(ctx, "(d) scans with module_path below root under two renamings")
    judge_scans(ctx, s, ctx.size(150, 3000))
    s.finish()
    if not ctx.violations:
        from . import c07

        s = Stream(ctx, "(e) diagram rules over sibling components whose names are string prefixes of one another (conformance by whole dotted components)")
        rng = ctx.rng("diagrams")
        c07.judge(ctx, s, [c07.make_case(rng, ["a", "ab", "a_b", "aa", "b", "ba", "a1", "abc"] if k % 2 else ["pa", "pb", "p_c", "pp", "p1", "pab", "platform_x", "codex"], absent=False)
                           for k in range(ctx.size(3000, 60000))])
        s.finish()
    return RULE
