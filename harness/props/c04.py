"""C04 - modules and hierarchy mirror the scanned directory tree, named from root_path."""
from . import c02

USES_GENERATED = ("C04",)


def run(ctx):
    return c02.run(ctx, aspect="C04")
