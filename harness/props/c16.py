"""C16 - layer definitions are well-formed: one layer per module, unique names; LayerRule ordering guards."""
from __future__ import annotations

import itertools

from ..core import Ctx, Stream, digest, pmap
from ..layers_common import impl_larch, impl_layer, larch_line, layer_line
from ..proto import enc, parse_answer, run_driver
from ..rules_common import run_witnesses

RULE = (
    "LayeredArchitecture histories: every call sequence of length <= L (quick 5, thorough 6) over {layer(a), layer(b), "
    "containing_modules('x'), ('y'), (['x']), (['y']), (['x','y']), have_modules_with_names_matching('r.*'), with_layer()} "
    "(two layer names, two module names: duplicates are forced, string and list forms both) plus seeded random longer "
    "sequences over multi-character names sharing characters ('mod', 'm', 'dom', 'mo'); each compared with "
    "PtaModel.runLArch (exception class, index of the raising call, str(arch), arch[layer]) and judged against "
    "PtaSpec.classifyLArch (accepted with exact listing / rejected at call i / unspecified). Caller-owned argument lists: the "
    "list objects handed to containing_modules() belong to the caller, who removes / appends / clears and refills them or re-uses "
    "one buffer for the next layer between builder calls (every sequence of length <= 5 over 9 calls and buffer edits, plus "
    "random ones over two buffers); each history is judged as the history of the VALUES the lists had when they were passed. "
    "Every fully accepted history whose layers all have modules must also list exactly the defined layers, in order of "
    "definition, in layer_mapping.all_layers (also for regex layers sharing one pattern string). LayerRule histories: every "
    "sequence of length <= 4 over the 14-call LayerRule vocabulary and all prefixes of complete chains with one call "
    "inserted, judged against PtaSpec.classifyLayerRule. distinct_nontrivial = distinct histories the specification "
    "rejects at some call."
)

LVOCAB = [("layer", "a"), ("layer", "b"), ("cms", "x"), ("cms", "y"), ("cml", ["x"]), ("cml", ["y"]), ("cml", ["x", "y"]), ("cml", []),
          ("rx", "r.*"), ("with",)]


# --- caller-owned argument lists -----------------------------------------------------------------------------------
# additional op forms (the caller's side of the history; they are no builder calls):
#   ("buf", k, "new", [..])   the caller binds buffer k to a fresh list object with these names
#   ("buf", k, "set", [..])   buffer k is cleared and refilled IN PLACE (the list object stays the same)
#   ("buf", k, "app", name)   name appended to buffer k in place
#   ("buf", k, "rem", name)   name removed from buffer k in place (no-op if it is not in there)
#   ("cmb", k)                containing_modules(<the list object that is buffer k>)


def _buf_edit(bufs, op):
    _, k, how, arg = op
    if how == "new":
        bufs[k] = list(arg)
        return
    b = bufs.setdefault(k, [])
    if how == "set":
        b.clear()
        b.extend(arg)
    elif how == "app":
        b.append(arg)
    elif how == "rem" and arg in b:
        b.remove(arg)


def plain_history(ops):
    """the builder calls of a history with caller-owned lists, each containing_modules(<buffer>) with the VALUE the buffer had
    at the moment of the call - what the library is to see, since a call's argument is the argument at the time of the call"""
    bufs, out = {}, []
    for op in ops:
        if op[0] == "buf":
            _buf_edit(bufs, op)
        elif op[0] == "cmb":
            out.append(("cml", list(bufs.get(op[1], []))))
        else:
            out.append(op)
    return out


def impl_larch_caller(ops) -> str:
    """as layers_common.impl_larch (same result format; call indices count builder calls only), for histories that may contain
    caller-side buffer edits; in addition layer_mapping.all_layers is compared with the definition history when every call was
    accepted and no layer is left without modules"""
    from ..impl import LayeredArchitecture, err_kind

    a = LayeredArchitecture()
    bufs, names, i = {}, [], 0
    for op in ops:
        if op[0] == "buf":
            _buf_edit(bufs, op)
            continue
        try:
            if op[0] == "with":
                a = a.with_layer()
            elif op[0] == "layer":
                a = a.layer(op[1])
                if op[1] not in names:
                    names.append(op[1])
            elif op[0] == "cmb":
                a = a.containing_modules(bufs.setdefault(op[1], []))       # the caller's own list object
            elif op[0] in ("cms", "cml"):
                a = a.containing_modules(op[1])
            elif op[0] == "rx":
                a = a.have_modules_with_names_matching(op[1])
        except Exception as e:  # noqa: BLE001
            return f"ERR:{err_kind(e)} I={i}"
        i += 1
        try:
            _ = a.layer_mapping
        except Exception:  # noqa: BLE001
            pass
    listing = []
    extra = ""
    try:
        complete = True
        for n in names:
            fs = a[n]
            complete = complete and len(fs) > 0
            listing.append(enc(n) + "~" + ",".join(("R:" if f.identifier_is_regex else "N:") + enc(f.identifier) for f in fs))
            via_mapping = [x.identifier for x in a.layer_mapping.get_module_filters(n)]
            if via_mapping != [f.identifier for f in fs]:
                return f"OK:MAPPING-DIFFERS:{enc(n)}:{','.join(enc(x) for x in via_mapping)} I={i}"
        s = str(a)
        want = "Layered Architecture: " + "; ".join(f"Layer {n}: [{', '.join(f.identifier for f in a[n])}]" for n in names)
        if s != want:
            extra = " STR-MISMATCH:" + enc(s)
        elif complete:
            got = list(a.layer_mapping.all_layers)
            if got != names:
                extra = " LAYERS-MISMATCH:" + ",".join(enc(str(x)) for x in got)
    except Exception as e:  # noqa: BLE001  (the object the history ends with does not list its layers)
        return f"OK:UNLISTABLE:{type(a).__name__}:{type(e).__name__} I={i}"
    return "OK:" + ";".join(listing) + f" I={i}" + extra


def judge_larch(ctx, stream, seqs, impl_fn=impl_larch, caller_lists=False):
    impl = pmap(impl_fn, seqs, ctx.jobs, chunk=2000)
    plain = [plain_history(s) for s in seqs] if caller_lists else seqs
    ans = run_driver([larch_line(s) for s in plain])
    for ops, pl, i, a in zip(seqs, plain, impl, ans):
        a = parse_answer(a)
        stream.evaluations += 1
        ibody, _, iidx = i.partition(" I=")
        iidx, _, extra = iidx.partition(" ")
        m, s = a.get("M", "?"), a.get("S", "NA")
        stream.count("spec:" + s.split(":")[0])
        if caller_lists:
            edits = sum(1 for k, op in enumerate(ops) if op[0] == "buf" and op[2] != "new"
                        and any(o == ("cmb", op[1]) for o in ops[:k]))
            stream.count("in-place edits of a list after it was passed:" + str(min(edits, 3)))
        if s.startswith("REJ"):
            stream.nontrivial.add(digest(ops))
        if len(ctx.samples) < 2 and s.startswith("REJ") and len(ops) >= 4:
            ctx.samples.append({"line": larch_line(pl), "impl": i, "answer": a})
        bad = None
        if extra.startswith("LAYERS-MISMATCH"):
            bad = ("every call was accepted and every layer has modules, but layer_mapping.all_layers does not list exactly the "
                   "defined layers in order of definition: " + extra)
        elif extra:
            bad = "str(architecture) does not list exactly the supplied layers/modules: " + extra
        elif s.startswith("REJ"):
            want = s[4:]
            if not ibody.startswith("ERR:improperlyConfigured") or iidx != want:
                bad = f"sequence must be rejected with a configuration error at call {want}; implementation: {i}"
        elif s.startswith("OK"):
            if ibody.startswith("OK:MAPPING-DIFFERS") or ibody.startswith("OK:UNLISTABLE"):
                bad = f"the accepted definition does not list the supplied layers / modules consistently (architecture[layer] vs layer_mapping): {ibody}"
            elif not ibody.startswith("OK"):
                bad = f"well-formed definition rejected: {i}"
            else:
                ids = ";".join(l.split("~")[0] + "~" + ",".join(x[2:] for x in l.split("~")[1].split(",") if x) for l in ibody[3:].split(";") if l)
                if ids != s[3:]:
                    bad = f"accepted definition lists {ids}, supplied {s[3:]}"
        if bad:
            rec = {"kind": "property-violation", "what": bad, "line": larch_line(pl), "impl": i, "model": m, "spec": s,
                   "python": f"from harness.layers_common import build_larch; print(build_larch({ops!r}))"}
            if impl_fn is impl_larch_caller:
                rec["python"] = f"from harness.props.c16 import impl_larch_caller; print(impl_larch_caller({ops!r}))"
            if caller_lists:
                rec["what"] += ("  [the lists passed to containing_modules are the caller's own objects, edited in place / re-used "
                                "between the calls; 'line' shows the values they had when passed]")
                rec["calls"] = [list(o) for o in ops]
            ctx.violations.append(rec)
            if len(ctx.violations) >= 5:
                return
            continue
        if ibody != m or iidx != a.get("I"):
            rec = {"kind": "correspondence-broken", "what": "correspondence impl = PtaModel.runLArch (LayeredArchitecture histories)",
                   "theorem": "Pta.C16.* are statements about PtaModel.LArch.step", "line": larch_line(pl), "impl": i, "model": m,
                   "model_index": a.get("I")}
            if caller_lists:
                rec["calls"] = [list(o) for o in ops]
            (ctx.drift if s == "NA" else ctx.broken).append(rec)


CALLER_INIT = [("buf", 0, "new", ["x", "y"])]
CALLER_VOCAB = [("layer", "a"), ("layer", "b"), ("cmb", 0), ("buf", 0, "rem", "y"), ("buf", 0, "app", "z"), ("buf", 0, "set", ["z"]),
                ("cms", "y"), ("cms", "z"), ("rx", "r.*")]


def random_caller_history(rng):
    """a definition loop as a caller writes it: per layer the modules come as a string, a fresh list, a pattern, or one of two
    list objects the caller keeps editing in place / re-using; few names and patterns, so that names recur across layers"""
    names = ["mod", "m", "dom", "mo", "mod.x", "o"]
    pats = ["r.*", "m.*", "mod"]
    ops = []

    def edit():
        k = rng.randrange(2)
        how = rng.random()
        if how < 0.35:
            ops.append(("buf", k, "set", rng.sample(names, rng.randint(1, 3))))
        elif how < 0.6:
            ops.append(("buf", k, "rem", rng.choice(names)))
        elif how < 0.85:
            ops.append(("buf", k, "app", rng.choice(names)))
        elif how < 0.95:
            ops.append(("buf", k, "new", rng.sample(names, rng.randint(0, 2))))
        else:
            ops.append(("buf", k, "set", []))

    layer_names = rng.choice(["abcdef", "abc", "ab"])
    ops.append(("buf", 0, "new", rng.sample(names, rng.randint(1, 3))))
    for _ in range(rng.randint(2, 5)):
        if rng.random() < 0.92:
            ops.append(("layer", rng.choice(layer_names)))
        for _ in range(rng.choice([0, 0, 1, 1, 2])):
            edit()
        r = rng.random()
        if r < 0.45:
            ops.append(("cmb", rng.randrange(2)))
        elif r < 0.58:
            ops.append(("cms", rng.choice(names)))
        elif r < 0.70:
            ops.append(("cml", rng.sample(names, rng.randint(1, 2))))
        elif r < 0.94:
            ops.append(("rx", rng.choice(pats)))
        elif r < 0.97:
            ops.append(("with",))
        for _ in range(rng.choice([0, 1, 1, 2])):
            edit()
    return ops


def caller_owned_lists(ctx, maxlen):
    s = Stream(ctx, f"LayeredArchitecture: caller-owned argument lists edited in place / re-used between calls - all sequences of "
                    f"length <= {maxlen} over {len(CALLER_VOCAB)} calls and buffer edits (buffer starts as ['x', 'y'])", exhaustive=True)
    seqs = [CALLER_INIT + list(t) for n in range(0, maxlen + 1) for t in itertools.product(CALLER_VOCAB, repeat=n)]
    judge_larch(ctx, s, seqs, impl_larch_caller, caller_lists=True)
    s.finish()
    if ctx.violations:
        return
    s = Stream(ctx, "LayeredArchitecture: caller-owned argument lists, random definition loops over two buffers; patterns shared between layers")
    rng = ctx.rng("larch-caller-lists")
    judge_larch(ctx, s, [random_caller_history(rng) for _ in range(ctx.size(3000, 40000))], impl_larch_caller, caller_lists=True)
    s.finish()


def _after_errors(ops):
    from ..layers_common import larch_after_errors

    rejected, final = larch_after_errors(ops)
    kept = [op for i, op in enumerate(ops) if i not in rejected]
    rejected2, final2 = larch_after_errors(kept)
    return rejected, final, rejected2, final2


def rejected_calls_have_no_effect(ctx, stream, seqs):
    """the builder object is used on after a call was rejected (the caller catches the configuration error): the definition must
    be what the accepted calls alone produce, and those calls alone must all be accepted"""
    res = pmap(_after_errors, seqs, ctx.jobs, chunk=2000)
    for ops, (rejected, final, rejected2, final2) in zip(seqs, res):
        stream.evaluations += 1
        stream.count("rejected calls:" + str(min(len(rejected), 3)))
        if rejected:
            stream.nontrivial.add(digest(ops))
        if rejected2 or final != final2:
            ctx.violations.append({"kind": "property-violation",
                                   "what": "a rejected builder call is not without effect: continuing with the same LayeredArchitecture object differs from making the accepted calls alone",
                                   "calls": [list(o) for o in ops], "rejected_calls": rejected, "definition_after_all_calls": final,
                                   "accepted_calls_alone": {"rejected": rejected2, "definition": final2}})
            if len(ctx.violations) >= 3:
                return


# ------------------------------------------------------------------------------------------- LayerRule histories
ARCH = [("L1", "N", ["p.a"]), ("L2", "N", ["p.b"]), ("L3", "R", r"p\.c.*")]
NODES = ["p", "p.a", "p.b", "p.c", "p.c.x"]
IMPS = [("p.a", "p.b")]
LRVOCAB = [("based", None), ("lt", None), ("named", "L1"), ("named", "L2"), ("namedl", ["L1", "L2"]), ("named", "L9"),
           ("should", None), ("only", None), ("not", None), ("acc", None), ("accby", None), ("accx", None),
           ("accany", None), ("accbyany", None)]


def lr_case(ops):
    return {"nodes": NODES, "imps": IMPS, "arch": ARCH, "lops": list(ops), "spec": None}


def judge_layer_histories(ctx, stream, cases, prop="C16"):
    impl = pmap(impl_layer, cases, ctx.jobs, chunk=1000)
    ans = run_driver([layer_line(c) for c in cases])
    for c, i, a in zip(cases, impl, ans):
        a = parse_answer(a)
        stream.evaluations += 1
        ibody, _, iidx = i.partition(" I=")
        icls = "FAIL" if ibody.startswith("FAIL") else ibody
        m = a.get("M", "?")
        mcls = "FAIL" if m.startswith("FAIL") else m
        cls = a.get("C", "?")
        key = "rejectedAt" if cls.startswith("rejectedAt") else "lookupAt" if cls.startswith("lookupAt") else cls
        stream.count("class:" + key)
        bad = None
        if cls.startswith("rejectedAt"):
            stream.nontrivial.add(digest(c["lops"]))
            if icls != "ERR:improperlyConfigured" or iidx != cls[len("rejectedAt"):]:
                bad = f"history must be rejected with a configuration error at call {cls[len('rejectedAt'):]}; implementation: {i}"
        elif cls.startswith("lookupAt"):
            stream.nontrivial.add(digest(c["lops"]))
            if not icls.startswith("ERR"):
                bad = f"history naming an undefined layer returns {icls}"
        elif cls in ("incomplete", "contradictory", "notStarted"):
            stream.nontrivial.add(digest(c["lops"]))
            if not icls.startswith("ERR"):
                bad = f"history classified {cls} returns a verdict ({icls})"
        elif cls == "complete" and icls in ("ERR:improperlyConfigured", "ERR:ruleInconsistency"):
            bad = f"complete history rejected with {icls} at {iidx}"
        if bad:
            ctx.violations.append({"kind": "property-violation", "what": bad, "line": layer_line(c), "impl": i, "model": m, "class": cls})
            if len(ctx.violations) >= 5:
                return
            continue
        if icls != mcls or (icls.startswith("ERR") and iidx != a.get("I")) or (icls == "FAIL" and ibody != m):
            if len(ctx.broken) < 20:
                ctx.broken.append({"kind": "correspondence-broken", "what": "correspondence impl = PtaModel.runLayerRuleOps (LayerRule histories)",
                                   "theorem": "Pta.C16.* / Pta.C13.* are statements about PtaModel.LayerRuleState.step",
                                   "line": layer_line(c), "impl": i, "model": m, "model_index": a.get("I")})


COMPLETE_LR = [
    [("based", None), ("lt", None), ("named", "L1"), ("should", None), ("acc", None), ("named", "L2")],
    [("based", None), ("lt", None), ("named", "L1"), ("not", None), ("accbyany", None)],
    [("based", None), ("lt", None), ("named", "L2"), ("only", None), ("accx", None), ("namedl", ["L1", "L3"])],
]


def layer_rule_histories(ctx, maxlen, prop="C16"):
    s = Stream(ctx, f"LayerRule histories: all sequences of length <= {maxlen} over 14 calls", exhaustive=True)
    cases = []
    for L in range(0, maxlen + 1):
        for seq in itertools.product(LRVOCAB, repeat=L):
            cases.append(lr_case(seq))
    for i in range(0, len(cases), 50000):
        judge_layer_histories(ctx, s, cases[i : i + 50000], prop)
    s.finish()
    s = Stream(ctx, "LayerRule: prefixes of complete chains, with one call inserted / duplicated / deleted", exhaustive=True)
    cases = []
    for ch in COMPLETE_LR:
        for k in range(len(ch) + 1):
            pre = ch[:k]
            cases.append(lr_case(pre))
            for extra in LRVOCAB:
                for pos in range(len(pre) + 1):
                    cases.append(lr_case(pre[:pos] + [extra] + pre[pos:]))
        for k in range(len(ch)):
            cases.append(lr_case(ch[:k] + ch[k + 1 :]))
    judge_layer_histories(ctx, s, cases, prop)
    s.finish()
    s = Stream(ctx, "LayerRule: one rule object used for a second rule - a complete chain, layers_that() again, then every continuation of length <= 3",
               exhaustive=True)
    cases = []
    for ch in COMPLETE_LR:
        for L in range(0, 4):
            for seq in itertools.product(LRVOCAB, repeat=L):
                cases.append(lr_case(ch + [("lt", None)] + list(seq)))
    for i in range(0, len(cases), 50000):
        judge_layer_histories(ctx, s, cases[i : i + 50000], prop)
    s.finish()


def run(ctx: Ctx):
    run_witnesses(ctx)
    from ..rules_common import interpreter_modes

    interpreter_modes(ctx, "errors")
    quick = ctx.quick()
    L = 6 if quick else 7
    s = Stream(ctx, f"LayeredArchitecture histories: all sequences of length <= {L} over 9 calls", exhaustive=True)
    for n in range(0, L + 1):
        seqs = [list(t) for t in itertools.product(LVOCAB, repeat=n)]
        for i in range(0, len(seqs), 100000):
            # the short histories are also observed through layer_mapping.all_layers
            judge_larch(ctx, s, seqs[i : i + 100000], impl_larch_caller if n <= 4 else impl_larch)
        if ctx.violations:
            break
    s.finish()
    s = Stream(ctx, "LayeredArchitecture histories: random, names sharing characters")
    rng = ctx.rng("larch")
    # also names with leading / trailing blanks (as `"a, m".split(",")` produces them): they are names like any other
    names = ["mod", "m", "dom", "mo", "mod.x", "o", " m", "m ", "\tmod"]
    seqs = []
    for _ in range(ctx.size(4000, 60000)):
        n = rng.randint(2, 10)
        seq = []
        for _ in range(n):
            k = rng.randrange(6)
            if k == 0:
                # also names that are falsy or blank as Python values: they are layer names like any other
                seq.append(("layer", rng.choice(["a", "b", "c", "mod", "", "0", " "])))
            elif k == 1:
                seq.append(("cms", rng.choice(names)))
            elif k == 2:
                ms = rng.sample(names, rng.randint(1, 3))
                if rng.random() < 0.2:
                    ms = ms + [ms[0]]                     # the same name twice in one list: supplied twice, listed twice
                seq.append(("cml", ms))
            elif k == 3:
                seq.append(("rx", rng.choice(["r.*", "mod", "m.*"])))
            elif k == 4:
                seq.append(("with",))
            else:
                seq.append(("layer", rng.choice("abcdef")))
        seqs.append(seq)
    judge_larch(ctx, s, seqs, impl_larch_caller)
    s.finish()
    if not ctx.violations:
        caller_owned_lists(ctx, 5 if quick else 6)
    if not ctx.violations:
        s = Stream(ctx, "LayeredArchitecture: the same builder object used on after rejected calls vs the accepted calls alone")
        short = [list(t) for n in range(2, 5) for t in itertools.product(LVOCAB, repeat=n)]
        rejected_calls_have_no_effect(ctx, s, short + seqs)
        s.finish()
    layer_rule_histories(ctx, 4 if quick else 5)
    return RULE
