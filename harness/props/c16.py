"""C16 - layer definitions are well-formed: one layer per module, unique names; LayerRule ordering guards."""
from __future__ import annotations

import itertools

from ..core import Ctx, Stream, digest, pmap
from ..layers_common import impl_larch, impl_layer, larch_line, layer_line
from ..proto import parse_answer, run_driver
from ..rules_common import run_witnesses

RULE = (
    "LayeredArchitecture histories: every call sequence of length <= L (quick 5, thorough 6) over {layer(a), layer(b), "
    "containing_modules('x'), ('y'), (['x']), (['y']), (['x','y']), have_modules_with_names_matching('r.*'), with_layer()} "
    "(two layer names, two module names: duplicates are forced, string and list forms both) plus seeded random longer "
    "sequences over multi-character names sharing characters ('mod', 'm', 'dom', 'mo'); each compared with "
    "PtaModel.runLArch (exception class, index of the raising call, str(arch), arch[layer]) and judged against "
    "PtaSpec.classifyLArch (accepted with exact listing / rejected at call i / unspecified). LayerRule histories: every "
    "sequence of length <= 4 over the 14-call LayerRule vocabulary and all prefixes of complete chains with one call "
    "inserted, judged against PtaSpec.classifyLayerRule. distinct_nontrivial = distinct histories the specification "
    "rejects at some call."
)

LVOCAB = [("layer", "a"), ("layer", "b"), ("cms", "x"), ("cms", "y"), ("cml", ["x"]), ("cml", ["y"]), ("cml", ["x", "y"]), ("cml", []),
          ("rx", "r.*"), ("with",)]


def judge_larch(ctx, stream, seqs):
    impl = pmap(impl_larch, seqs, ctx.jobs, chunk=2000)
    ans = run_driver([larch_line(s) for s in seqs])
    for ops, i, a in zip(seqs, impl, ans):
        a = parse_answer(a)
        stream.evaluations += 1
        ibody, _, iidx = i.partition(" I=")
        iidx, _, extra = iidx.partition(" ")
        m, s = a.get("M", "?"), a.get("S", "NA")
        stream.count("spec:" + s.split(":")[0])
        if s.startswith("REJ"):
            stream.nontrivial.add(digest(ops))
        if len(ctx.samples) < 2 and s.startswith("REJ") and len(ops) >= 4:
            ctx.samples.append({"line": larch_line(ops), "impl": i, "answer": a})
        bad = None
        if extra:
            bad = "str(architecture) does not list exactly the supplied layers/modules: " + extra
        elif s.startswith("REJ"):
            want = s[4:]
            if not ibody.startswith("ERR:improperlyConfigured") or iidx != want:
                bad = f"sequence must be rejected with a configuration error at call {want}; implementation: {i}"
        elif s.startswith("OK"):
            if ibody.startswith("OK:MAPPING-DIFFERS") or ibody.startswith("OK:UNLISTABLE"):
                bad = f"the accepted definition does not list the supplied layers / modules consistently (architecture[layer] vs layer_mapping): {ibody}"
            elif not ibody.startswith("OK"):
                bad = f"well-formed definition rejected: {i}"
            else:
                ids = ";".join(l.split("~")[0] + "~" + ",".join(x[2:] for x in l.split("~")[1].split(",") if x) for l in ibody[3:].split(";") if l)
                if ids != s[3:]:
                    bad = f"accepted definition lists {ids}, supplied {s[3:]}"
        if bad:
            ctx.violations.append({"kind": "property-violation", "what": bad, "line": larch_line(ops), "impl": i, "model": m, "spec": s,
                                   "python": f"from harness.layers_common import build_larch; print(build_larch({ops!r}))"})
            if len(ctx.violations) >= 5:
                return
            continue
        if ibody != m or iidx != a.get("I"):
            rec = {"kind": "correspondence-broken", "what": "correspondence impl = PtaModel.runLArch (LayeredArchitecture histories)",
                   "theorem": "Pta.C16.* are statements about PtaModel.LArch.step", "line": larch_line(ops), "impl": i, "model": m,
                   "model_index": a.get("I")}
            (ctx.drift if s == "NA" else ctx.broken).append(rec)


def _after_errors(ops):
    from ..layers_common import larch_after_errors

    rejected, final = larch_after_errors(ops)
    kept = [op for i, op in enumerate(ops) if i not in rejected]
    rejected2, final2 = larch_after_errors(kept)
    return rejected, final, rejected2, final2


def rejected_calls_have_no_effect(ctx, stream, seqs):
    """the builder object is used on after a call was rejected (the caller catches the configuration error): the definition must
    be what the accepted calls alone produce, and those calls alone must all be accepted"""
    res = pmap(_after_errors, seqs, ctx.jobs, chunk=2000)
    for ops, (rejected, final, rejected2, final2) in zip(seqs, res):
        stream.evaluations += 1
        stream.count("rejected calls:" + str(min(len(rejected), 3)))
        if rejected:
            stream.nontrivial.add(digest(ops))
        if rejected2 or final != final2:
            ctx.violations.append({"kind": "property-violation",
                                   "what": "a rejected builder call is not without effect: continuing with the same LayeredArchitecture object differs from making the accepted calls alone",
                                   "calls": [list(o) for o in ops], "rejected_calls": rejected, "definition_after_all_calls": final,
                                   "accepted_calls_alone": {"rejected": rejected2, "definition": final2}})
            if len(ctx.violations) >= 3:
                return


# ------------------------------------------------------------------------------------------- LayerRule histories
ARCH = [("L1", "N", ["p.a"]), ("L2", "N", ["p.b"]), ("L3", "R", r"p\.c.*")]
NODES = ["p", "p.a", "p.b", "p.c", "p.c.x"]
IMPS = [("p.a", "p.b")]
LRVOCAB = [("based", None), ("lt", None), ("named", "L1"), ("named", "L2"), ("namedl", ["L1", "L2"]), ("named", "L9"),
           ("should", None), ("only", None), ("not", None), ("acc", None), ("accby", None), ("accx", None),
           ("accany", None), ("accbyany", None)]


def lr_case(ops):
    return {"nodes": NODES, "imps": IMPS, "arch": ARCH, "lops": list(ops), "spec": None}


def judge_layer_histories(ctx, stream, cases, prop="C16"):
    impl = pmap(impl_layer, cases, ctx.jobs, chunk=1000)
    ans = run_driver([layer_line(c) for c in cases])
    for c, i, a in zip(cases, impl, ans):
        a = parse_answer(a)
        stream.evaluations += 1
        ibody, _, iidx = i.partition(" I=")
        icls = "FAIL" if ibody.startswith("FAIL") else ibody
        m = a.get("M", "?")
        mcls = "FAIL" if m.startswith("FAIL") else m
        cls = a.get("C", "?")
        key = "rejectedAt" if cls.startswith("rejectedAt") else "lookupAt" if cls.startswith("lookupAt") else cls
        stream.count("class:" + key)
        bad = None
        if cls.startswith("rejectedAt"):
            stream.nontrivial.add(digest(c["lops"]))
            if icls != "ERR:improperlyConfigured" or iidx != cls[len("rejectedAt"):]:
                bad = f"history must be rejected with a configuration error at call {cls[len('rejectedAt'):]}; implementation: {i}"
        elif cls.startswith("lookupAt"):
            stream.nontrivial.add(digest(c["lops"]))
            if not icls.startswith("ERR"):
                bad = f"history naming an undefined layer returns {icls}"
        elif cls in ("incomplete", "contradictory", "notStarted"):
            stream.nontrivial.add(digest(c["lops"]))
            if not icls.startswith("ERR"):
                bad = f"history classified {cls} returns a verdict ({icls})"
        elif cls == "complete" and icls in ("ERR:improperlyConfigured", "ERR:ruleInconsistency"):
            bad = f"complete history rejected with {icls} at {iidx}"
        if bad:
            ctx.violations.append({"kind": "property-violation", "what": bad, "line": layer_line(c), "impl": i, "model": m, "class": cls})
            if len(ctx.violations) >= 5:
                return
            continue
        if icls != mcls or (icls.startswith("ERR") and iidx != a.get("I")) or (icls == "FAIL" and ibody != m):
            if len(ctx.broken) < 20:
                ctx.broken.append({"kind": "correspondence-broken", "what": "correspondence impl = PtaModel.runLayerRuleOps (LayerRule histories)",
                                   "theorem": "Pta.C16.* / Pta.C13.* are statements about PtaModel.LayerRuleState.step",
                                   "line": layer_line(c), "impl": i, "model": m, "model_index": a.get("I")})


COMPLETE_LR = [
    [("based", None), ("lt", None), ("named", "L1"), ("should", None), ("acc", None), ("named", "L2")],
    [("based", None), ("lt", None), ("named", "L1"), ("not", None), ("accbyany", None)],
    [("based", None), ("lt", None), ("named", "L2"), ("only", None), ("accx", None), ("namedl", ["L1", "L3"])],
]


def layer_rule_histories(ctx, maxlen, prop="C16"):
    s = Stream(ctx, f"LayerRule histories: all sequences of length <= {maxlen} over 14 calls", exhaustive=True)
    cases = []
    for L in range(0, maxlen + 1):
        for seq in itertools.product(LRVOCAB, repeat=L):
            cases.append(lr_case(seq))
    for i in range(0, len(cases), 50000):
        judge_layer_histories(ctx, s, cases[i : i + 50000], prop)
    s.finish()
    s = Stream(ctx, "LayerRule: prefixes of complete chains, with one call inserted / duplicated / deleted", exhaustive=True)
    cases = []
    for ch in COMPLETE_LR:
        for k in range(len(ch) + 1):
            pre = ch[:k]
            cases.append(lr_case(pre))
            for extra in LRVOCAB:
                for pos in range(len(pre) + 1):
                    cases.append(lr_case(pre[:pos] + [extra] + pre[pos:]))
        for k in range(len(ch)):
            cases.append(lr_case(ch[:k] + ch[k + 1 :]))
    judge_layer_histories(ctx, s, cases, prop)
    s.finish()
    s = Stream(ctx, "LayerRule: one rule object used for a second rule - a complete chain, layers_that() again, then every continuation of length <= 3",
               exhaustive=True)
    cases = []
    for ch in COMPLETE_LR:
        for L in range(0, 4):
            for seq in itertools.product(LRVOCAB, repeat=L):
                cases.append(lr_case(ch + [("lt", None)] + list(seq)))
    for i in range(0, len(cases), 50000):
        judge_layer_histories(ctx, s, cases[i : i + 50000], prop)
    s.finish()


def run(ctx: Ctx):
    run_witnesses(ctx)
    from ..rules_common import interpreter_modes

    interpreter_modes(ctx, "errors")
    quick = ctx.quick()
    L = 6 if quick else 7
    s = Stream(ctx, f"LayeredArchitecture histories: all sequences of length <= {L} over 9 calls", exhaustive=True)
    for n in range(0, L + 1):
        seqs = [list(t) for t in itertools.product(LVOCAB, repeat=n)]
        for i in range(0, len(seqs), 100000):
            judge_larch(ctx, s, seqs[i : i + 100000])
        if ctx.violations:
            break
    s.finish()
    s = Stream(ctx, "LayeredArchitecture histories: random, names sharing characters")
    rng = ctx.rng("larch")
    # also names with leading / trailing blanks (as `"a, m".split(",")` produces them): they are names like any other
    names = ["mod", "m", "dom", "mo", "mod.x", "o", " m", "m ", "\tmod"]
    seqs = []
    for _ in range(ctx.size(4000, 60000)):
        n = rng.randint(2, 10)
        seq = []
        for _ in range(n):
            k = rng.randrange(6)
            if k == 0:
                # also names that are falsy or blank as Python values: they are layer names like any other
                seq.append(("layer", rng.choice(["a", "b", "c", "mod", "", "0", " "])))
            elif k == 1:
                seq.append(("cms", rng.choice(names)))
            elif k == 2:
                ms = rng.sample(names, rng.randint(1, 3))
                if rng.random() < 0.2:
                    ms = ms + [ms[0]]                     # the same name twice in one list: supplied twice, listed twice
                seq.append(("cml", ms))
            elif k == 3:
                seq.append(("rx", rng.choice(["r.*", "mod", "m.*"])))
            elif k == 4:
                seq.append(("with",))
            else:
                seq.append(("layer", rng.choice("abcdef")))
        seqs.append(seq)
    judge_larch(ctx, s, seqs)
    s.finish()
    if not ctx.violations:
        s = Stream(ctx, "LayeredArchitecture: the same builder object used on after rejected calls vs the accepted calls alone")
        short = [list(t) for n in range(2, 5) for t in itertools.product(LVOCAB, repeat=n)]
        rejected_calls_have_no_effect(ctx, s, short + seqs)
        s.finish()
    layer_rule_histories(ctx, 4 if quick else 5)
    return RULE
