"""C08 - exclusions remove exactly the matching files/directories, nothing else."""
from __future__ import annotations

import itertools
import re

from .. import scan_common as sc
from ..core import Ctx, InfraError, Stream, digest, pmap
from ..impl import convert_partial_match_to_regex
from ..proto import enc, parse_answer, run_driver
from ..rules_common import run_witnesses

RULE = (
    "(1) glob conversion: every pattern and every subject string of length <= N over {a, b, *, ., +, (} (quick N=4, "
    "thorough N=5 plus <= 6 over {a,*,.,(}): real re.match(convert_partial_match_to_regex(p), s) vs "
    "PtaModel.matchEmitted(convertPartialMatch p) vs the documented meaning (PtaModel.globSpec); the emitted regex "
    "strings are compared too. (2) scans: random project trees x exclusion tuples built from the tree's own file and "
    "directory names in the four glob shapes (text, *text, text*, *text*) and equivalent regexes (regex_exclusions), "
    "names with regex metacharacters included; the filtered scan is compared with the unfiltered scan minus every sub "
    "tree rooted at a matching path (relational, on the implementation) and with PtaModel.generateGraph. "
    "distinct_nontrivial = distinct (pattern, subject) pairs that match / distinct scans whose exclusions remove >= 1 module."
)


def _glob_row(p):
    rx = convert_partial_match_to_regex(p)
    cre = re.compile(rx)
    return rx, "".join("1" if cre.match(s) else "0" for s in _SUBJECTS)


_SUBJECTS = []


def glob_table(ctx, alphabet, n, name):
    global _SUBJECTS
    s = Stream(ctx, name, exhaustive=True)
    strings = [""]
    for k in range(1, n + 1):
        strings += ["".join(t) for t in itertools.product(alphabet, repeat=k)]
    _SUBJECTS = strings
    rows = pmap(_glob_row, strings, ctx.jobs, chunk=50)
    subj = ",".join(enc(x) for x in strings)
    ans = run_driver(["glob p=" + enc(p) + " s=" + subj for p in strings])
    for p, (rx, bits), a in zip(strings, rows, ans):
        a = parse_answer(a)
        s.evaluations += len(strings)
        ones = bits.count("1")
        s.hist["matches"] = s.hist.get("matches", 0) + ones
        if ones:
            s.nontrivial.add(p)
        if a.get("m") != a.get("S"):
            raise InfraError(f"matchEmitted and globSpec disagree (theorem c08_glob false?) on pattern {p!r}")
        if bits != a.get("S"):
            i = next(i for i in range(len(bits)) if bits[i] != a["S"][i])
            ctx.violations.append({"kind": "property-violation", "what": "glob pattern does not mean 'literal text with optional leading/trailing *'",
                                   "pattern": p, "subject": strings[i], "regex": rx, "impl_matches": bits[i] == "1", "documented": a["S"][i] == "1",
                                   "python": f"import re; from pytestarch.utils.partial_match_to_regex_converter import convert_partial_match_to_regex as c; print(bool(re.match(c({p!r}), {strings[i]!r})))"})
            if len(ctx.violations) >= 3:
                break
            continue
        if enc(rx) != a.get("M"):
            ctx.broken.append({"kind": "correspondence-broken", "what": "convert_partial_match_to_regex output differs from PtaModel.convertPartialMatch",
                               "theorem": "Pta.C08.glob_spec", "pattern": p, "impl": rx, "model": a.get("M")})
    if len(ctx.samples) < 2:
        ctx.samples.append({"pattern": "*a.", "regex": convert_partial_match_to_regex("*a."), "matches": [x for x in strings if re.match(convert_partial_match_to_regex("*a."), x)][:6]})
    s.finish()


# ------------------------------------------------------------------------------------------------ scans
META_COMPS = ["a", "b", "ab", "a+b", "a(b", "b$", "gen", "gen_x", "tests", "test_a", "cafe\u0301", "pru\u0308f"]   # the last two: decomposed (non-NFC) spellings


def exclusion_for(rng, tree, base_placeholder="@BASE@"):
    """patterns built from the tree's own names; returns (kind, patterns) with @BASE@ to be replaced by the real base"""
    names = sorted({p.split("/")[-1] for p in tree if "/" in p})
    pats = []
    for _ in range(rng.randint(1, 2)):
        nme = rng.choice(names)
        shape = rng.randrange(10)
        if shape == 9:
            # a backslash is a character like any other (it is not a path separator here): `*dir\name*` matches no path of the tree
            rel = rng.choice([p for p in tree if "/" in p]).split("/")
            pats.append("*" + "\\".join(rel[-2:]) + rng.choice(["", "*"]))
        elif shape == 8:
            # the name in another letter case: patterns are matched character by character, so this excludes nothing
            # (unless the tree happens to contain that spelling too)
            pats.append("*" + (nme.upper() if nme != nme.upper() else nme.lower()))
        elif shape == 5:
            pats.append("*/" + nme + "/")              # ends in a separator: no path string ends like that - nothing is excluded
        elif shape == 6:
            pats.append("*/" + nme + "/*")             # everything BELOW the directory, not the directory itself
        elif shape == 7:
            pats.append("*" + nme[:-1])                # the name without its last character: only a path ending exactly there
        elif shape == 0:
            pats.append("*" + nme)                     # *text : path ends with name
        elif shape == 1:
            pats.append("*" + nme + "*")               # *text*
        elif shape == 2:
            pats.append("*/" + nme.split(".")[0] + "*")
        elif shape == 3:
            pats.append(base_placeholder + "*")        # text* on the full path prefix -> everything
        else:
            pats.append(base_placeholder + "/" + rng.choice([p for p in tree if "/" in p]).split("/", 1)[1])  # exact text
    return pats


def _eval_scan(case):
    tree, root, mp = case["tree"], case["root"], case["mp"]
    with sc.write_project(tree) as proj:
        base = proj.path(root)
        pats = [p.replace("@BASE@", base) for p in case["pats"]]
        if case["regex"]:
            # each regex is applied on its own: a global inline flag at the start of one of them ((?s) does not change
            # what matches a path without newlines) concerns that pattern only, wherever it stands in the tuple
            flagged = case.get("flagged")
            ex = ("R", tuple(("(?s)" if flagged is not None and flagged % len(pats) == i else "") + _glob_to_regex(p) for i, p in enumerate(pats)))
        else:
            ex = ("G", tuple(pats))
        # the reference scan "without that pattern": no exclusion pattern at all (exclusions=(), no regex_exclusions)
        none = ("G", ())
        filtered = sc.real_scan(proj, root, mp, **sc.kw_for(ex, True, None, ("R", ())))
        plain = sc.real_scan(proj, root, mp, **sc.kw_for(none, True, None, ("R", ())))
        line = sc.scan_line("scan", base, tree, root, mp, ex)
        # the same exclusion with external libraries included: an excluded file must still contribute nothing
        filtered_ext = sc.real_scan(proj, root, mp, **sc.kw_for(ex, False, None, ("R", ()))) if case.get("with_externals") else None
        # ... and the file patterns concern files and directories: the external modules imported by the remaining modules are
        # those of the scan without any pattern (externals included)
        plain_ext = sc.real_scan(proj, root, mp, **sc.kw_for(none, False, None, ("R", ()))) if case.get("with_externals") else None
        # regex_exclusions given WITHOUT exclusions=(): the glob exclusions keep their default, the call is either refused
        # (ImproperlyConfigured: both kinds given) or honours the regexes - it must never silently ignore them
        bare = None
        if case["regex"] and case.get("bare_regex_call"):
            bare = sc.real_scan(proj, root, mp, regex_exclusions=ex[1])
        # which paths match (documented glob meaning, on the path strings the library sees)
        matched = []
        for p in tree:
            path_str = base + "".join("/" + c for c in p.split("/")[1:])
            if any(sc.glob_spec(g, path_str) for g in pats):
                matched.append(p)
    return filtered, plain, line, matched, filtered_ext, bare, plain_ext


def _glob_to_regex(g):
    """an equivalent proper regex written by the harness (not by the library)"""
    start, end = g.startswith("*"), g.endswith("*")
    lit = g[(1 if start else 0) : (len(g) - 1 if end else len(g))]
    return ("(?s:.*)" if start else "") + re.escape(lit) + ("" if end else r"\Z")


def judge_scans(ctx, stream, cases):
    res = pmap(_eval_scan, cases, ctx.jobs, chunk=20)
    ans = run_driver([r[2] for r in res])
    for case, (filtered, plain, line, matched, filtered_ext, bare, plain_ext), a in zip(cases, res, ans):
        a = parse_answer(a)
        stream.evaluations += 1
        F, P = sc.parse_snapshot(filtered), sc.parse_snapshot(plain)
        m = a.get("M", "?")
        stream.count("regex" if case["regex"] else "glob")
        if P is None and F is not None:
            # "exactly as in the scan without that pattern": that scan must exist whenever the filtered one does
            ctx.violations.append({"kind": "property-violation",
                                   "what": f"the scan without any exclusion pattern (exclusions=()) raises {plain} although the scan with the patterns succeeds",
                                   "files": dict(case["tree"]), "module_path": case["mp"], "patterns": case["pats"], "regex_form": case["regex"],
                                   "filtered": filtered, "unfiltered": plain,
                                   "python": "get_evaluable_architecture(root, module_path, exclusions=())"})
            if len(ctx.violations) >= 3:
                return
            continue
        if F is None or P is None:
            stream.count("impl:ERR")
            if filtered != m:
                ctx.broken.append({"kind": "correspondence-broken", "what": "scan error class differs from the model", "impl": filtered, "model": m, "line": line[:3000]})
            continue
        # expected: remove the sub tree of every matching path at or below module_path
        mp = case["mp"]
        gone = set()
        for p in matched:
            if not (p == mp or p.startswith(mp + "/")):
                continue
            is_dir = case["tree"][p] is None
            if is_dir:
                gone |= {sc.module_of(q) for q in case["tree"] if q == p or q.startswith(p + "/")}
            elif p.endswith(".py"):
                gone.add(sc.module_of(p))
        # modules that would also exist as ancestors of module_path stay
        anc = {".".join(mp.split("/")[:i]) for i in range(1, mp.count("/") + 2)}
        survivors = {n for n in P[0] if n not in gone or n in anc}
        if mp in matched:
            survivors = set()    # the scanned directory itself is excluded: nothing at all
        # carve-out (DESIGN C08): an excluded module that is the sub-module target of `from P import n` whose package survives
        want_imps = {(u, v) for (u, v) in P[1] if u in survivors and v in survivors}
        # `from P import n` names P.n only when that is a scanned module: once P.n is excluded the statement names P
        allowed_extra = {(u, g_.rsplit(".", 1)[0]) for (u, g_) in P[1]
                         if g_ in gone and "." in g_ and u in survivors and g_.rsplit(".", 1)[0] in survivors and u != g_.rsplit(".", 1)[0]}
        if gone & P[0]:
            stream.nontrivial.add(digest((sorted(case["tree"]), case["pats"], mp)))
        bad = None
        if F[0] != survivors and survivors:
            bad = f"modules after exclusion differ: unexpectedly present {sorted(F[0] - survivors)[:5]}, unexpectedly missing {sorted(survivors - F[0])[:5]}"
        elif not survivors and F[0]:
            bad = f"the excluded module_path still contributes modules {sorted(F[0])[:5]}"
        elif not (want_imps <= F[1] <= want_imps | allowed_extra):
            bad = f"imports between remaining modules changed: {sorted(F[1] ^ want_imps)[:5]}"
        if not bad and filtered_ext is not None and survivors:
            E_ = sc.parse_snapshot(filtered_ext)
            if E_ is not None:
                back = {n for n in E_[0] if n in gone and n not in anc}
                into = {(u, v) for (u, v) in E_[1] if (u in gone or v in gone) and u not in anc and v not in anc}
                if back or into:
                    bad = (f"with external libraries included an excluded file/directory contributes again: modules {sorted(back)[:5]}, "
                           f"imports {sorted(into)[:5]}")
        if not bad and filtered_ext is not None and plain_ext is not None and survivors:
            E_, PE = sc.parse_snapshot(filtered_ext), sc.parse_snapshot(plain_ext)
            if E_ is not None and PE is not None:
                internal = P[0]
                want_ext = {(u, v) for (u, v) in PE[1] if v not in internal and u in survivors}
                got_ext = {(u, v) for (u, v) in E_[1] if v not in internal}
                if got_ext != want_ext:
                    bad = (f"file exclusion patterns change the external part of the architecture: imports of external modules "
                           f"{sorted(got_ext ^ want_ext)[:5]}")
        if not bad and bare is not None:
            stream.count("bare regex_exclusions call:" + ("refused" if bare.startswith("ERR") else "evaluated"))
            if bare != "ERR:improperlyConfigured" and bare != filtered:
                bad = ("regex_exclusions passed without exclusions=() are neither refused nor applied: the scan differs from the scan "
                       f"with the same regexes and exclusions=() ({bare[:200]})")
        if bad:
            ctx.violations.append({"kind": "property-violation", "what": bad, "files": dict(case["tree"]), "module_path": mp,
                                   "patterns": case["pats"], "regex_form": case["regex"], "filtered": filtered, "unfiltered": plain, "model": m})
            if len(ctx.violations) >= 3:
                return
            continue
        if filtered != m:
            if len(ctx.broken) < 10:
                ctx.broken.append({"kind": "correspondence-broken", "what": "correspondence filtered scan = PtaModel.generateGraph",
                                   "theorem": "Pta.C08.* are statements about PtaModel.parseWalk / isExcluded", "files": dict(case["tree"]),
                                   "module_path": mp, "patterns": case["pats"], "impl": filtered, "model": m, "line": line[:3000]})


def _link_case(case):
    """a file of the tree is a symbolic link (to a store outside the tree); exclusion patterns are matched against the path of
    the file IN THE SCANNED TREE, as for directories: the link's own name decides, the target's name is irrelevant.  Also run
    with root_path / module_path given relative to the working directory and patterns spelled with that relative path."""
    import os
    import shutil

    from ..impl import err_kind, get_evaluable_architecture, graph_snapshot

    tree, link, pats, relative = case[:4]
    dlink = case[4] if len(case) > 4 else None
    logical = tree
    if dlink:
        # a DIRECTORY of the tree is also reachable under a second name (a symbolic link next to it or elsewhere in the tree):
        # the scan must equal the scan of the tree in which the second name is a regular copy
        d, newd = dlink
        logical = dict(tree)
        for q, v in tree.items():
            if q == d or q.startswith(d + "/"):
                logical[newd + q[len(d):]] = v
    with sc.write_project(tree) as proj:
        if dlink:
            os.symlink(proj.path(dlink[0]), proj.path(dlink[1]), target_is_directory=True)
        if link:
            os.makedirs(proj.path("_store"))
            shutil.move(proj.path(link), proj.path("_store/f0_target.py"))
            os.symlink(proj.path("_store/f0_target.py"), proj.path(link))
        base = "proj" if relative else proj.path("proj")
        ps = tuple(p.replace("@BASE@", base) for p in pats)
        cwd = os.getcwd()
        try:
            if relative:
                os.chdir(proj.path())
            try:
                ev = get_evaluable_architecture(base, base, exclusions=ps)
                got = sc.snapshot_str(*graph_snapshot(ev))
            except Exception as e:  # noqa: BLE001
                got = "ERR:" + err_kind(e)
        finally:
            os.chdir(cwd)
        line = sc.scan_line("scan", base, logical, "proj", "proj", ("G", ps))
    return got, line, ps


def link_and_relative_stream(ctx, stream, n):
    rng = ctx.rng("links-exclusions")
    cases = []
    while len(cases) < n:
        tree = sc.gen_tree(rng, comps=META_COMPS, extra_files=False)
        sc.fill_sources(rng, tree, externals=False)
        files = sorted(p for p in tree if p.endswith(".py") and not p.endswith("__init__.py"))
        if not files:
            continue
        relative = rng.random() < 0.5
        link = rng.choice(files) if rng.random() < 0.6 else None
        f = link or rng.choice(files)
        name = f.split("/")[-1]
        pats = [rng.choice(["*" + name, "*/" + name, "@BASE@/" + f.split("/", 1)[1], "*f0_target.py", "*_store*", "@BASE@*" + name])]
        if rng.random() < 0.3:
            d = rng.choice(sorted(p for p, v in tree.items() if v is None))
            pats.append("@BASE@" + ("/" + d.split("/", 1)[1] if "/" in d else ""))
        dlink = None
        subdirs = sorted(p for p, v in tree.items() if v is None and p != "proj")
        if subdirs and rng.random() < 0.4:
            d = rng.choice(subdirs)
            dn = d.split("/")[-1]
            parent = rng.choice([d.rsplit("/", 1)[0], d.rsplit("/", 1)[0], "proj"])
            newd = parent + "/" + rng.choice([dn + "_old", "a0" + dn, "zz" + dn, dn + "2", "old"])
            if newd not in tree and newd + ".py" not in tree and not (newd + "/").startswith(d + "/"):
                dlink = (d, newd)
                nn = newd.split("/")[-1]
                # patterns that match only one of the two names, both, or something below them
                pats = [rng.choice(["*" + nn, "*/" + dn, "*" + nn + "*", "*/" + dn + "/*", "@BASE@/" + newd.split("/", 1)[1], "@BASE@/" + d.split("/", 1)[1], "*" + dn])] + \
                       (pats if rng.random() < 0.3 else [])
        cases.append((tree, link, pats, relative, dlink))
    res = pmap(_link_case, cases, ctx.jobs, chunk=10)
    ans = run_driver([r[1] for r in res])
    for (tree, link, pats, relative, dlink), (got, line, ps), a in zip(cases, res, ans):
        stream.evaluations += 1
        stream.count(("link " if link else "plain ") + ("relative-root" if relative else "absolute-root"))
        if dlink:
            stream.count("directory reachable under a second name")
        m = parse_answer(a).get("M", "?")
        stream.nontrivial.add(digest((sorted(tree), link, pats, relative)))
        if got != m:
            G, M = sc.parse_snapshot(got), sc.parse_snapshot(m)
            what = ("modules under exclusion patterns differ from what the paths of the scanned tree demand (patterns are matched against the path of each file "
                    "and directory as it lies in the tree): " + (f"unexpectedly present {sorted(G[0] - M[0])[:5]}, unexpectedly missing {sorted(M[0] - G[0])[:5]}" if G and M else f"{got[:100]} vs {m[:100]}"))
            ctx.violations.append({"kind": "property-violation", "what": what, "files": dict(tree), "symbolic_link": link, "patterns": list(ps),
                                   "relative_root": relative, "directory_link": dlink, "impl": got, "expected": m})
            if len(ctx.violations) >= 3:
                return


def run(ctx: Ctx):
    run_witnesses(ctx)
    quick = ctx.quick()
    glob_table(ctx, "ab*.+(", 4 if quick else 5, f"glob table: all patterns x subjects of length <= {4 if quick else 5} over {{a,b,*,.,+,(}}")
    if not quick:
        glob_table(ctx, "a*.(", 6, "glob table: all patterns x subjects of length <= 6 over {a,*,.,(}")
    s = Stream(ctx, "random trees x exclusion tuples from the tree's own names (glob and regex forms)")
    tree_stream(ctx, s, ctx.size(3000, 30000), ctx.rng("scans"))
    s.finish()
    if not ctx.violations:
        s = Stream(ctx, "exclusion patterns vs symbolically linked files and relative root paths (patterns on the link's name, on the target's name, spelled with the relative root)")
        link_and_relative_stream(ctx, s, ctx.size(400, 6000))
        s.finish()
    return RULE


def tree_stream(ctx: Ctx, s, n, rng):
    done = 0
    while done < n and ctx.left() > 20 and not ctx.violations:
        cases = []
        for _ in range(min(500, n - done)):
            tree = sc.gen_tree(rng, comps=META_COMPS, pycache=True)
            with_ext = rng.random() < 0.5
            sc.fill_sources(rng, tree, externals=with_ext)
            dirs = sorted(p for p, v in tree.items() if v is None)
            cases.append({"tree": tree, "root": "proj", "mp": rng.choice(dirs) if rng.random() < 0.3 else "proj",
                          "pats": exclusion_for(rng, tree) + ([rng.choice(["*lib*", "*os", "*ext*", "*x", "*test*"])] if with_ext and rng.random() < 0.5 else []),
                          "regex": rng.random() < 0.4, "with_externals": with_ext,
                          "flagged": rng.randrange(4) if rng.random() < 0.3 else None, "bare_regex_call": rng.random() < 0.3})
        judge_scans(ctx, s, cases)
        done += len(cases)
