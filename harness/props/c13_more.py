"""C13, continued: LayerRule / DiagramRule histories and entry-point options."""
from . import c16


def run(ctx):
    c16.layer_rule_histories(ctx, 3 if ctx.quick() else 4, prop="C13")
    try:
        from . import c13_entry
    except ImportError:
        return None
    return c13_entry.run(ctx)
