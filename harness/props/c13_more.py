"""C13, continued: LayerRule / DiagramRule histories and entry-point options (filled in once the layer / diagram
models exist)."""


def run(ctx):
    return None
