"""C13 - undefined or incomplete specifications never produce a verdict."""
from __future__ import annotations

import itertools

from .. import gen
from ..core import Ctx, Stream, digest
from ..rules_common import evaluate, python_snippet, run_witnesses, split_impl, split_model

RULE = (
    "histories: every sequence of length <= 5 over the 13-call Rule vocabulary (k-th naming call gets name a/b alternately; "
    "graph with modules a, b and a->b) followed by assert_applies, classified by PtaSpec.classifyRule "
    "(errorAtCall / incomplete / contradictory / unspecified / complete); every single deletion, duplication and "
    "transposition of every complete chain (length <= 7); rules of C01's space with one name misspelt / extended / "
    "truncated (absent from the architecture), also on level-limited graphs with too-deep names; regexes matching "
    "nothing; LayerRule / DiagramRule call-chain prefixes and entry-point option combinations (see streams). "
    "Observed: exception class or its absence. distinct_nontrivial = distinct histories that the specification "
    "automaton classifies as must-raise."
)

USES_GENERATED = ("C13",)

VOCAB = ["mt", "named", "sub", "match", "should", "only", "not", "imp", "by", "impx", "byx", "impany", "byany"]
NAMING = {"named", "sub", "match"}
G_NODES = ["a", "b", "c"]
G_IMPS = [("a", "b")]


def ops_from(seq):
    ops = []
    k = 0
    for op in seq:
        if op in NAMING:
            name = "ab"[k % 2]
            k += 1
            ops.append((op, name if op == "match" else [name]))
        else:
            ops.append((op, None))
    return ops


def seq_case(seq):
    import re

    return {"nodes": G_NODES, "imps": G_IMPS, "lim": None, "ops": ops_from(seq), "spec": None,
            "mtab": [(p, [m for m in G_NODES if re.match(p, m)]) for p in ("a", "b")]}


def judge_histories(ctx, stream, cases):
    res = evaluate(ctx, cases)
    for case, impl, ans in res:
        stream.evaluations += 1
        icls, iitems, iidx = split_impl(impl)
        mcls, mitems = split_model(ans.get("M", "?"))
        cls = ans.get("C", "?")
        key = "errorAt" if cls.startswith("errorAt") else cls
        stream.count("class:" + key)
        must = cls.startswith("errorAt") or cls in ("incomplete", "contradictory")
        if must:
            stream.nontrivial.add(digest(case["ops"]))
        if len(ctx.samples) < 3 and cls == "contradictory":
            ctx.samples.append({"line": gen.rule_line(case), "impl": impl, "class": cls})
        bad = None
        if must and not icls.startswith("ERR"):
            bad = f"history classified {cls} returns a verdict ({icls})"
        elif cls.startswith("errorAt") and iidx != cls[len("errorAt"):]:
            bad = f"history classified {cls} raises at call {iidx}"
        elif cls == "complete" and icls in ("ERR:improperlyConfigured", "ERR:ruleInconsistency"):
            bad = f"complete history rejected with {icls}"
        if bad:
            ctx.violations.append({"kind": "property-violation", "what": bad, "line": gen.rule_line(case), "impl": impl,
                                   "model": ans.get("M"), "class": cls, "python": python_snippet(case)})
            if len(ctx.violations) >= 5:
                return
            continue
        if icls != mcls or (icls.startswith("ERR") and iidx != ans.get("I")) or (icls == "FAIL" and iitems != mitems):
            if len(ctx.broken) < 20:
                ctx.broken.append({"kind": "correspondence-broken", "what": "correspondence impl = PtaModel.runRuleOps (call histories)",
                                   "theorem": "Pta.C13.* are statements about PtaModel.RuleState.step / assertApplies",
                                   "line": gen.rule_line(case), "impl": impl, "model": ans.get("M"), "model_index": ans.get("I"),
                                   "python": python_snippet(case)})


COMPLETE_CHAINS = [
    ["mt", "named", "should", "imp", "named"],
    ["mt", "sub", "only", "byx", "named"],
    ["mt", "named", "not", "impany"],
    ["mt", "match", "not", "by", "sub"],
    ["mt", "named", "only", "impx", "match"],
    ["mt", "named", "not", "byany"],
    ["mt", "named", "should", "by", "named", "mt", "named"],
]


def mutations(chain):
    out = []
    for i in range(len(chain)):
        out.append(chain[:i] + chain[i + 1 :])
        out.append(chain[: i + 1] + chain[i:])
        if i + 1 < len(chain):
            out.append(chain[:i] + [chain[i + 1], chain[i]] + chain[i + 2 :])
    return out


def misspell(rng, name):
    k = rng.randrange(4)
    if k == 0:
        i = rng.randrange(len(name))
        c = "q" if name[i] != "q" else "w"
        return name[:i] + c + name[i + 1 :]
    if k == 1:
        return name + ".zz"
    if k == 2:
        return name + "x"
    return "." + name if rng.random() < 0.3 else name[:-1] or "zz"


def in_region_c13b(case) -> bool:
    """Region of open finding F-C13b: an 'anything' rule with several subjects in which every absent name is a
    dotted extension of another subject (it is dropped by the parent/sub-module de-duplication before any lookup)."""
    ops = case["ops"]
    if not any(op in ("impany", "byany") for op, _ in ops):
        return False
    subj = next((arg for op, arg in ops if isinstance(arg, list)), [])
    absent = case.get("absent") or []
    return bool(absent) and all(any(a.startswith(s + ".") for s in subj if s != a) for a in absent)


def name_cases(ctx, rng, n, stream):
    from ..rules_common import random_cases

    cases = []
    for c in random_cases(rng, n, comps=gen.IDENT_ADVERSARIAL, strict=False, max_nodes=10, max_imports=8):
        # optionally level-limit the graph; then names deeper than the limit are absent
        nodes = c["nodes"]
        lim = None
        if rng.random() < 0.4:
            lim = rng.randint(0, 2)
        present = set(nodes) if lim is None else {".".join(m.split(".")[: lim + 1]) for m in nodes}
        ops = []
        broke = False
        named_positions = [i for i, (op, arg) in enumerate(c["ops"]) if isinstance(arg, list)]
        target = rng.choice(named_positions)
        for i, (op, arg) in enumerate(c["ops"]):
            if i == target:
                arg = list(arg)
                j = rng.randrange(len(arg))
                if lim is not None and arg[j] not in present:
                    broke = True          # a too-deep name
                else:
                    for _ in range(5):
                        cand = misspell(rng, arg[j])
                        if cand not in present:
                            arg[j] = cand
                            broke = True
                            break
            ops.append((op, arg))
        if broke:
            absent = [a for op, arg in ops if isinstance(arg, list) for a in arg if a not in present]
            cases.append({"nodes": nodes, "imps": c["imps"], "lim": lim, "ops": ops, "spec": None, "absent": absent})
    res = evaluate(ctx, cases)
    for case, impl, ans in res:
        stream.evaluations += 1
        icls, iitems, iidx = split_impl(impl)
        mcls, _ = split_model(ans.get("M", "?"))
        stream.count("impl:" + icls)
        stream.nontrivial.add(digest((case["nodes"], case["ops"], case["lim"])))
        if not icls.startswith("ERR"):
            # a subject dropped by the 'anything' de-duplication or shadowed set semantics could hide a name;
            # the property says: a rule that mentions an absent module never yields a verdict
            ctx.violations.append({"kind": "property-violation", "what": f"rule mentioning a module absent from the architecture returns {icls}",
                                   "line": gen.rule_line(case), "impl": impl, "model": ans.get("M"), "python": python_snippet(case)})
            if len(ctx.violations) >= 5:
                return
        elif icls != mcls:
            ctx.broken.append({"kind": "correspondence-broken", "what": "correspondence impl = PtaModel (unknown names)",
                               "theorem": "Pta.C13.unknown_name", "line": gen.rule_line(case), "impl": impl, "model": ans.get("M")})


def regex_batch_cases(ctx, rng, n, stream):
    """several patterns in one specification, one of which matches nothing: the no-match error, never a verdict"""
    import re as _re

    from pytestarch.utils.partial_match_to_regex_converter import convert_partial_match_to_regex as conv

    from ..rules_common import random_cases

    cases = []
    for c in random_cases(rng, n, comps=gen.IDENT_ADVERSARIAL, strict=False, max_nodes=10, max_imports=8):
        nodes = c["nodes"]
        ok = rng.choice(nodes)
        ok = rng.choice([ok, "*" + ok.split(".")[-1], ok[:1] + "*"])
        bad = rng.choice(["zz_no_such_module", "*zz_no_such", "zz_no_such*"])
        frags = [ok, bad] if rng.random() < 0.5 else [bad, ok]
        if rng.random() < 0.3:
            frags.append(rng.choice(nodes))
        side = rng.choice(["subject", "object"])
        ops = []
        replaced = False
        positions = [i for i, (op, arg) in enumerate(c["ops"]) if isinstance(arg, list)]
        if not positions:
            continue
        target = positions[0] if side == "subject" else positions[-1]
        for i, (op, arg) in enumerate(c["ops"]):
            if i == target:
                ops.append(("contain", frags))
                replaced = True
            else:
                ops.append((op, arg))
        if not replaced:
            continue
        rxs = [conv(f) for f in frags]
        from ..rules_common import _safe_matches

        tab = [(rx, _safe_matches(rx, nodes)) for rx in rxs]
        cases.append({"nodes": nodes, "imps": c["imps"], "lim": None, "ops": ops, "spec": None, "mtab": tab})
    res = evaluate(ctx, cases)
    for case, impl, ans in res:
        stream.evaluations += 1
        icls, _, _ = split_impl(impl)
        mcls, _ = split_model(ans.get("M", "?"))
        stream.count("impl:" + icls)
        stream.nontrivial.add(digest((case["nodes"], case["ops"])))
        if not icls.startswith("ERR"):
            ctx.violations.append({"kind": "property-violation", "what": f"a specification containing a pattern that matches no module returns {icls}",
                                   "line": gen.rule_line(case), "impl": impl, "model": ans.get("M"), "python": python_snippet(case)})
            if len(ctx.violations) >= 5:
                return
        elif icls != mcls:
            ctx.broken.append({"kind": "correspondence-broken", "what": "correspondence impl = PtaModel (pattern batches with a non-matching pattern)",
                               "theorem": "Pta.C13.no_match", "line": gen.rule_line(case), "impl": impl, "model": ans.get("M")})


def run(ctx: Ctx):
    from ..rules_common import interpreter_modes

    interpreter_modes(ctx, "errors")
    run_witnesses(ctx)
    quick = ctx.quick()
    maxlen = 5
    s = Stream(ctx, f"Rule histories: all sequences of length <= {maxlen} over 13 calls", exhaustive=True)
    for L in range(0, maxlen + 1):
        seqs = itertools.product(VOCAB, repeat=L)
        batch = []
        for seq in seqs:
            batch.append(seq_case(list(seq)))
            if len(batch) >= 100000:
                judge_histories(ctx, s, batch)
                batch = []
        if batch:
            judge_histories(ctx, s, batch)
        if ctx.violations:
            break
    s.finish()
    s = Stream(ctx, "single deletions / duplications / transpositions of complete chains", exhaustive=True)
    muts = []
    for ch in COMPLETE_CHAINS:
        muts.append(ch)
        muts.extend(mutations(ch))
    judge_histories(ctx, s, [seq_case(m) for m in muts])
    s.finish()
    s = Stream(ctx, "complete chains with an EMPTY list as rule subject and / or rule object (a specification that names nothing)", exhaustive=True)
    empties = []
    for ch in COMPLETE_CHAINS:
        naming = [i for i, op in enumerate(ch) if op in ("named", "sub")]
        for k in range(1, 1 << len(naming)):
            c = seq_case(ch)
            for j, i in enumerate(naming):
                if k >> j & 1:
                    c["ops"][i] = (ch[i], [])
            empties.append(c)
    judge_histories(ctx, s, empties)
    s.finish()
    s = Stream(ctx, "misspelt / too-deep module names (also level-limited graphs)")
    name_cases(ctx, ctx.rng("names"), ctx.size(4000, 200000), s)
    regex_batch_cases(ctx, ctx.rng("regex-batches"), ctx.size(1500, 20000), s)
    s.finish()
    from . import c13_more

    c13_more.run(ctx)
    if not ctx.violations:
        from . import c07

        st = Stream(ctx, "diagram rules naming a component that the architecture does not have, next to violated generated rules")
        c07.absent_component_stream(ctx, st, ctx.size(1500, 20000))
        st.finish()
    if not ctx.violations:
        from ..rules_common import reuse_stream

        st = Stream(ctx, "rule objects applied before (also to an architecture that has all the modules) vs fresh rule objects: the same lookup / no-match error")
        reuse_stream(ctx, st, ctx.size(1000, 15000))
        st.finish()
    return RULE
