"""C13 - undefined or incomplete specifications never produce a verdict."""
from __future__ import annotations

import itertools

from .. import gen
from ..core import Ctx, Stream, digest
from ..rules_common import evaluate, python_snippet, run_witnesses, split_impl, split_model

RULE = (
    "histories: every sequence of length <= 5 over the 13-call Rule vocabulary (k-th naming call gets name a/b alternately; "
    "graph with modules a, b and a->b) followed by assert_applies, classified by PtaSpec.classifyRule "
    "(errorAtCall / incomplete / contradictory / unspecified / complete); every single deletion, duplication and "
    "transposition of every complete chain (length <= 7); rules of C01's space with one name misspelt / extended / "
    "truncated (absent from the architecture), also on level-limited graphs with too-deep names; regexes matching "
    "nothing; layer rules naming 2-3 object layers of mixed kinds (name list / regex) in one are_named call or chained calls, "
    "a named name-defined layer listing an absent module (prefix of an existing name / misspelt / extended), with the "
    "well-defined control compared with PtaModel.runLayerRuleOps; LayerRule / DiagramRule call-chain prefixes and entry-point option combinations (see streams). "
    "Observed: exception class or its absence. distinct_nontrivial = distinct histories that the specification "
    "automaton classifies as must-raise."
)

USES_GENERATED = ("C13",)

VOCAB = ["mt", "named", "sub", "match", "should", "only", "not", "imp", "by", "impx", "byx", "impany", "byany"]
NAMING = {"named", "sub", "match"}
G_NODES = ["a", "b", "c"]
G_IMPS = [("a", "b")]


def ops_from(seq):
    ops = []
    k = 0
    for op in seq:
        if op in NAMING:
            name = "ab"[k % 2]
            k += 1
            ops.append((op, name if op == "match" else [name]))
        else:
            ops.append((op, None))
    return ops


def seq_case(seq):
    import re

    return {"nodes": G_NODES, "imps": G_IMPS, "lim": None, "ops": ops_from(seq), "spec": None,
            "mtab": [(p, [m for m in G_NODES if re.match(p, m)]) for p in ("a", "b")]}


def judge_histories(ctx, stream, cases):
    res = evaluate(ctx, cases)
    for case, impl, ans in res:
        stream.evaluations += 1
        icls, iitems, iidx = split_impl(impl)
        mcls, mitems = split_model(ans.get("M", "?"))
        cls = ans.get("C", "?")
        key = "errorAt" if cls.startswith("errorAt") else cls
        stream.count("class:" + key)
        must = cls.startswith("errorAt") or cls in ("incomplete", "contradictory")
        if must:
            stream.nontrivial.add(digest(case["ops"]))
        if len(ctx.samples) < 3 and cls == "contradictory":
            ctx.samples.append({"line": gen.rule_line(case), "impl": impl, "class": cls})
        bad = None
        if must and not icls.startswith("ERR"):
            bad = f"history classified {cls} returns a verdict ({icls})"
        elif cls.startswith("errorAt") and iidx != cls[len("errorAt"):]:
            bad = f"history classified {cls} raises at call {iidx}"
        elif cls == "complete" and icls in ("ERR:improperlyConfigured", "ERR:ruleInconsistency"):
            bad = f"complete history rejected with {icls}"
        if bad:
            ctx.violations.append({"kind": "property-violation", "what": bad, "line": gen.rule_line(case), "impl": impl,
                                   "model": ans.get("M"), "class": cls, "python": python_snippet(case)})
            if len(ctx.violations) >= 5:
                return
            continue
        if icls != mcls or (icls.startswith("ERR") and iidx != ans.get("I")) or (icls == "FAIL" and iitems != mitems):
            if len(ctx.broken) < 20:
                ctx.broken.append({"kind": "correspondence-broken", "what": "correspondence impl = PtaModel.runRuleOps (call histories)",
                                   "theorem": "Pta.C13.* are statements about PtaModel.RuleState.step / assertApplies",
                                   "line": gen.rule_line(case), "impl": impl, "model": ans.get("M"), "model_index": ans.get("I"),
                                   "python": python_snippet(case)})


COMPLETE_CHAINS = [
    ["mt", "named", "should", "imp", "named"],
    ["mt", "sub", "only", "byx", "named"],
    ["mt", "named", "not", "impany"],
    ["mt", "match", "not", "by", "sub"],
    ["mt", "named", "only", "impx", "match"],
    ["mt", "named", "not", "byany"],
    ["mt", "named", "should", "by", "named", "mt", "named"],
]


def mutations(chain):
    out = []
    for i in range(len(chain)):
        out.append(chain[:i] + chain[i + 1 :])
        out.append(chain[: i + 1] + chain[i:])
        if i + 1 < len(chain):
            out.append(chain[:i] + [chain[i + 1], chain[i]] + chain[i + 2 :])
    return out


def misspell(rng, name):
    k = rng.randrange(4)
    if k == 0:
        i = rng.randrange(len(name))
        c = "q" if name[i] != "q" else "w"
        return name[:i] + c + name[i + 1 :]
    if k == 1:
        return name + ".zz"
    if k == 2:
        return name + "x"
    return "." + name if rng.random() < 0.3 else name[:-1] or "zz"


def in_region_c13b(case) -> bool:
    """Region of open finding F-C13b: an 'anything' rule with several subjects in which every absent name is a
    dotted extension of another subject (it is dropped by the parent/sub-module de-duplication before any lookup)."""
    ops = case["ops"]
    if not any(op in ("impany", "byany") for op, _ in ops):
        return False
    subj = next((arg for op, arg in ops if isinstance(arg, list)), [])
    absent = case.get("absent") or []
    return bool(absent) and all(any(a.startswith(s + ".") for s in subj if s != a) for a in absent)


def name_cases(ctx, rng, n, stream):
    from ..rules_common import random_cases

    cases = []
    for c in random_cases(rng, n, comps=gen.IDENT_ADVERSARIAL, strict=False, max_nodes=10, max_imports=8):
        # optionally level-limit the graph; then names deeper than the limit are absent
        nodes = c["nodes"]
        lim = None
        if rng.random() < 0.4:
            lim = rng.randint(0, 2)
        present = set(nodes) if lim is None else {".".join(m.split(".")[: lim + 1]) for m in nodes}
        ops = []
        broke = False
        named_positions = [i for i, (op, arg) in enumerate(c["ops"]) if isinstance(arg, list)]
        target = rng.choice(named_positions)
        for i, (op, arg) in enumerate(c["ops"]):
            if i == target:
                arg = list(arg)
                j = rng.randrange(len(arg))
                if lim is not None and arg[j] not in present:
                    broke = True          # a too-deep name
                else:
                    for _ in range(5):
                        cand = misspell(rng, arg[j])
                        if cand not in present:
                            arg[j] = cand
                            broke = True
                            break
            ops.append((op, arg))
        if broke:
            absent = [a for op, arg in ops if isinstance(arg, list) for a in arg if a not in present]
            cases.append({"nodes": nodes, "imps": c["imps"], "lim": lim, "ops": ops, "spec": None, "absent": absent})
    res = evaluate(ctx, cases)
    for case, impl, ans in res:
        stream.evaluations += 1
        icls, iitems, iidx = split_impl(impl)
        mcls, _ = split_model(ans.get("M", "?"))
        stream.count("impl:" + icls)
        stream.nontrivial.add(digest((case["nodes"], case["ops"], case["lim"])))
        if not icls.startswith("ERR"):
            # a subject dropped by the 'anything' de-duplication or shadowed set semantics could hide a name;
            # the property says: a rule that mentions an absent module never yields a verdict
            ctx.violations.append({"kind": "property-violation", "what": f"rule mentioning a module absent from the architecture returns {icls}",
                                   "line": gen.rule_line(case), "impl": impl, "model": ans.get("M"), "python": python_snippet(case)})
            if len(ctx.violations) >= 5:
                return
        elif icls != mcls:
            ctx.broken.append({"kind": "correspondence-broken", "what": "correspondence impl = PtaModel (unknown names)",
                               "theorem": "Pta.C13.unknown_name", "line": gen.rule_line(case), "impl": impl, "model": ans.get("M")})


def regex_batch_cases(ctx, rng, n, stream):
    """several patterns in one specification, one of which matches nothing: the no-match error, never a verdict"""
    import re as _re

    from pytestarch.utils.partial_match_to_regex_converter import convert_partial_match_to_regex as conv

    from ..rules_common import random_cases

    cases = []
    for c in random_cases(rng, n, comps=gen.IDENT_ADVERSARIAL, strict=False, max_nodes=10, max_imports=8):
        nodes = c["nodes"]
        ok = rng.choice(nodes)
        ok = rng.choice([ok, "*" + ok.split(".")[-1], ok[:1] + "*"])
        bad = rng.choice(["zz_no_such_module", "*zz_no_such", "zz_no_such*"])
        frags = [ok, bad] if rng.random() < 0.5 else [bad, ok]
        if rng.random() < 0.3:
            frags.append(rng.choice(nodes))
        side = rng.choice(["subject", "object"])
        ops = []
        replaced = False
        positions = [i for i, (op, arg) in enumerate(c["ops"]) if isinstance(arg, list)]
        if not positions:
            continue
        target = positions[0] if side == "subject" else positions[-1]
        for i, (op, arg) in enumerate(c["ops"]):
            if i == target:
                ops.append(("contain", frags))
                replaced = True
            else:
                ops.append((op, arg))
        if not replaced:
            continue
        rxs = [conv(f) for f in frags]
        from ..rules_common import _safe_matches

        tab = [(rx, _safe_matches(rx, nodes)) for rx in rxs]
        cases.append({"nodes": nodes, "imps": c["imps"], "lim": None, "ops": ops, "spec": None, "mtab": tab})
    res = evaluate(ctx, cases)
    for case, impl, ans in res:
        stream.evaluations += 1
        icls, _, _ = split_impl(impl)
        mcls, _ = split_model(ans.get("M", "?"))
        stream.count("impl:" + icls)
        stream.nontrivial.add(digest((case["nodes"], case["ops"])))
        if not icls.startswith("ERR"):
            ctx.violations.append({"kind": "property-violation", "what": f"a specification containing a pattern that matches no module returns {icls}",
                                   "line": gen.rule_line(case), "impl": impl, "model": ans.get("M"), "python": python_snippet(case)})
            if len(ctx.violations) >= 5:
                return
        elif icls != mcls:
            ctx.broken.append({"kind": "correspondence-broken", "what": "correspondence impl = PtaModel (pattern batches with a non-matching pattern)",
                               "theorem": "Pta.C13.no_match", "line": gen.rule_line(case), "impl": impl, "model": ans.get("M")})


def absent_like(rng, name, present):
    """a module name that the architecture does not have, shaped after an existing one: a proper string prefix of it (which,
    read as a pattern anchored at the start only, would match the existing module), a misspelling or an extension; None if
    no such name is found"""
    for _ in range(8):
        k = rng.random()
        if k < 0.6 and len(name) >= 2:
            cand = name[: rng.randint(1, len(name) - 1)]
        elif k < 0.8:
            cand = misspell(rng, name)
        else:
            cand = name + rng.choice(["x", ".zz", "_", "."])
        if cand and cand not in present:
            return cand
    return None


def make_mixed_layer_case(rng):
    """(case with a named layer containing an absent module, control case without it) or None.
    3-4 layers over pairwise unrelated modules, every layer name-defined or regex-defined; the rule names 2-3 object layers
    in ONE are_named([...]) call (kinds mixed in either order) or in chained single-layer calls."""
    from ..layers_common import layer_rule_ops
    from . import c05

    nodes = gen.random_tree(rng, max_nodes=12, comps=rng.choice([gen.PLAIN, gen.IDENT_ADVERSARIAL]))
    cand = nodes[:]
    rng.shuffle(cand)
    pool = []
    for c in cand:
        if all(not gen.related(c, d) for d in pool):
            pool.append(c)
    if len(pool) < 3:
        return None
    imps = gen.random_imports(rng, nodes, 8)
    k = rng.randint(3, min(4, len(pool)))
    layers = []
    for i in range(k):
        n = rng.randint(1, max(1, min(2, len(pool) - (k - i - 1))))
        layers.append([f"L{i}", "N", [pool.pop() for _ in range(n)]])
    names = [l[0] for l in layers]
    subj = rng.choice(names)
    others = [n for n in names if n != subj]
    objs = rng.sample(others, rng.randint(2, len(others)))
    # kinds of the object layers: mixed (a name-defined layer before or after a regex-defined one) most of the time
    mode = rng.random()
    by_name = {l[0]: l for l in layers}
    if mode < 0.7:
        kinds = ["N", "R"] + [rng.choice("NR") for _ in objs[2:]]
        rng.shuffle(kinds)
        if rng.random() < 0.5:
            # the regex-defined layer at the very end / at the very beginning of the list
            kinds.sort(reverse=rng.random() < 0.5)
        for o, kd in zip(objs, kinds):
            by_name[o][1] = kd
    else:
        for o in objs:
            by_name[o][1] = rng.choice("NR")
    for l in layers:
        if l[0] not in objs:
            l[1] = rng.choice("NNR")
    verb, imp, exc, _ = rng.choice([s for s in gen.SHAPES if not s[3]])
    form = rng.choice(["list", "list", "list", "chained"])
    lops = layer_rule_ops(verb, imp, exc, subj, objs, False, obj_as_list=True)
    if form == "chained":
        lops = lops[:-1] + [("named", o) for o in objs]
    control_arch = [(n, kd, (list(ms) if kd == "N" else c05.rx_for(ms))) for n, kd, ms in layers]
    # the absent name goes into a name-defined layer that the rule names (object layers preferred)
    named_n = [l for l in layers if l[1] == "N" and l[0] in objs] * 3 + [l for l in layers if l[1] == "N" and l[0] == subj]
    if not named_n:
        return None
    target = rng.choice(named_n)
    present = set(nodes)
    model_after = rng.choice(target[2]) if rng.random() < 0.6 else rng.choice(nodes)
    bad = absent_like(rng, model_after, present)
    if bad is None:
        return None
    mods = list(target[2])
    if bad in mods:
        return None
    how = rng.random()
    if how < 0.4 or any(bad in l[2] for l in layers):
        mods[rng.randrange(len(mods))] = bad          # replaces a listed module
    elif how < 0.7:
        mods.append(bad)
    else:
        mods.insert(0, bad)
    arch = [(n, kd, (mods if n == target[0] else list(ms)) if kd == "N" else c05.rx_for(ms)) for n, kd, ms in layers]
    okinds = "".join(by_name[o][1] for o in objs)
    meta = {"absent": bad, "in_layer": target[0], "object_kinds": okinds, "form": form,
            "prefix_of_existing": any(m != bad and m.startswith(bad) for m in nodes)}
    case = {"nodes": nodes, "imps": imps, "arch": arch, "lops": lops, "spec": None, "_meta": meta}
    control = {"nodes": nodes, "imps": imps, "arch": control_arch, "lops": lops, "spec": None, "_meta": meta}
    return case, control


def mixed_layer_batch_cases(ctx, rng, n, stream):
    """layer rules whose are_named call lists several layers of mixed kinds; a named name-defined layer lists an absent
    module: never a verdict.  The same rule without the absent name does give a verdict (and the one the model gives)."""
    from ..core import pmap
    from ..layers_common import impl_layer, layer_line
    from ..proto import parse_answer, run_driver

    pairs = []
    for _ in range(n):
        p = make_mixed_layer_case(rng)
        if p:
            pairs.append(p)
    cases = [p[0] for p in pairs]
    controls = [p[1] for p in pairs]
    impl = pmap(impl_layer, cases + controls, ctx.jobs, chunk=500)
    ans = run_driver([layer_line(c) for c in controls])
    for j, case in enumerate(cases):
        stream.evaluations += 1
        got = impl[j]
        meta = case["_meta"]
        gcls = got.partition(" I=")[0].split(":")[0]
        stream.count("layers:" + gcls)
        stream.count("object-kinds:" + meta["object_kinds"] + "/" + meta["form"])
        if meta["prefix_of_existing"]:
            stream.count("absent-name-is-prefix-of-existing")
        stream.nontrivial.add(digest((case["nodes"], case["arch"], case["lops"])))
        if gcls != "ERR":
            ctx.violations.append({"kind": "property-violation", "impl": got, "line": layer_line(case), "arch": case["arch"], "lops": case["lops"],
                                   "nodes": case["nodes"], "imports": case["imps"], "absent": meta["absent"], "in_layer": meta["in_layer"],
                                   "what": f"layer rule naming a layer that lists a module absent from the architecture returns {gcls}"})
            if len(ctx.violations) >= 5:
                return
    if ctx.violations:
        return
    # the controls: the same rules over layers that list existing modules only give the verdict the model gives
    for j, case in enumerate(controls):
        stream.evaluations += 1
        ctl = impl[len(cases) + j]
        cbody, _, cidx = ctl.partition(" I=")
        ccls = "FAIL" if cbody.startswith("FAIL") else cbody
        a = parse_answer(ans[j])
        m = a.get("M", "?")
        mcls = "FAIL" if m.startswith("FAIL") else m
        stream.count("control:" + ccls.split(":")[0])
        if ccls == "ERR:lookupError":
            ctx.violations.append({"kind": "property-violation", "impl": ctl, "model": m, "line": layer_line(case), "arch": case["arch"],
                                   "lops": case["lops"], "nodes": case["nodes"], "imports": case["imps"],
                                   "what": "layer rule over layers that list existing modules only ends in a lookup error"})
            if len(ctx.violations) >= 5:
                return
        elif (ccls != mcls or (ccls == "FAIL" and cbody != m)) and len(ctx.broken) < 20:
            ctx.broken.append({"kind": "correspondence-broken", "what": "correspondence impl = PtaModel.runLayerRuleOps (several object layers of mixed kinds)",
                               "theorem": "Pta.C13.* / Pta.C05.* are statements about PtaModel.assertAppliesLayer",
                               "line": layer_line(case), "impl": ctl, "model": m})


def run(ctx: Ctx):
    from ..rules_common import interpreter_modes

    interpreter_modes(ctx, "errors")
    run_witnesses(ctx)
    quick = ctx.quick()
    maxlen = 5
    s = Stream(ctx, f"Rule histories: all sequences of length <= {maxlen} over 13 calls", exhaustive=True)
    for L in range(0, maxlen + 1):
        seqs = itertools.product(VOCAB, repeat=L)
        batch = []
        for seq in seqs:
            batch.append(seq_case(list(seq)))
            if len(batch) >= 100000:
                judge_histories(ctx, s, batch)
                batch = []
        if batch:
            judge_histories(ctx, s, batch)
        if ctx.violations:
            break
    s.finish()
    s = Stream(ctx, "single deletions / duplications / transpositions of complete chains", exhaustive=True)
    muts = []
    for ch in COMPLETE_CHAINS:
        muts.append(ch)
        muts.extend(mutations(ch))
    judge_histories(ctx, s, [seq_case(m) for m in muts])
    s.finish()
    s = Stream(ctx, "complete chains with an EMPTY list as rule subject and / or rule object (a specification that names nothing)", exhaustive=True)
    empties = []
    for ch in COMPLETE_CHAINS:
        naming = [i for i, op in enumerate(ch) if op in ("named", "sub")]
        for k in range(1, 1 << len(naming)):
            c = seq_case(ch)
            for j, i in enumerate(naming):
                if k >> j & 1:
                    c["ops"][i] = (ch[i], [])
            empties.append(c)
    judge_histories(ctx, s, empties)
    s.finish()
    s = Stream(ctx, "misspelt / too-deep module names (also level-limited graphs)")
    name_cases(ctx, ctx.rng("names"), ctx.size(4000, 200000), s)
    regex_batch_cases(ctx, ctx.rng("regex-batches"), ctx.size(1500, 20000), s)
    s.finish()
    if not ctx.violations:
        s = Stream(ctx, "layer rules naming several layers of mixed kinds (name-defined / regex-defined, either order, one are_named([...]) call or "
                        "chained calls); a named name-defined layer lists an absent module (string prefix of an existing one / misspelt / extended)")
        mixed_layer_batch_cases(ctx, ctx.rng("mixed-layer-batches"), ctx.size(2500, 30000), s)
        s.finish()
    from . import c13_more

    c13_more.run(ctx)
    if not ctx.violations:
        from . import c07

        st = Stream(ctx, "diagram rules naming a component that the architecture does not have, next to violated generated rules")
        c07.absent_component_stream(ctx, st, ctx.size(1500, 20000))
        st.finish()
    if not ctx.violations:
        from ..rules_common import reuse_stream

        st = Stream(ctx, "rule objects applied before (also to an architecture that has all the modules) vs fresh rule objects: the same lookup / no-match error")
        reuse_stream(ctx, st, ctx.size(1000, 15000))
        st.finish()
    return RULE
