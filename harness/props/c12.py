"""C12 - rule algebra: duality, negation, decomposition, alias and monotonicity laws.
Relational: evaluated on the implementation alone (whole rule space, related identifiers included);
every rule is also sent through the model, and a disagreement impl != M is a broken correspondence."""
from __future__ import annotations

from .. import gen
from ..core import Ctx, Stream, digest
from ..impl import rule_ops_for
from ..rules_common import evaluate, python_snippet, run_witnesses, split_impl, split_model

USES_GENERATED = ("C12",)
RULE = (
    "law instances = (graph, family of rules) over random trees (plain and adversarial names, <=12 nodes, <=10 imports, "
    "subjects/objects drawn from ALL nodes, so ancestors/descendants of one another occur) and over every tree shape <=4 "
    "nodes with every relation of <=2 imports: duality (should / should_not, import vs be-imported-by), negation (single "
    "subject/object, plain and except), decomposition of should_only and should_only-except, 'anything' alias, monotonicity "
    "under adding one import between unrelated modules. Each rule is evaluated by the real assert_applies and by "
    "PtaModel.assertApplies. distinct_nontrivial = distinct instances whose graph has >= 1 import and whose rules do not all "
    "have the same verdict class or that contain a failing rule. Also: the 16-row flag tables regenerated from the Python "
    "source are compared with the model tables by the kernel (Pta.C12.generated_flags_agree) and by execution."
)


def _case(nodes, imps, verb, imp, exc, sk, subs, ok, objs, anything=False):
    return {"nodes": nodes, "imps": imps, "lim": None,
            "ops": rule_ops_for(verb, imp, exc, (sk, subs), (ok, objs), anything), "spec": None}


def instances(rng, nodes, imps):
    """yield (law name, [cases], predicate on verdict classes)"""
    sk, ok = rng.choice("NP"), rng.choice("NP")
    ns, no = rng.randint(1, 2), rng.randint(1, 2)
    subs = rng.sample(nodes, min(ns, len(nodes)))
    objs = rng.sample(nodes, min(no, len(nodes)))
    s1, o1 = [rng.choice(nodes)], [rng.choice(nodes)]
    out = []
    # duality
    for verb in ("should", "not"):
        out.append(("duality", [_case(nodes, imps, verb, True, False, sk, subs, ok, objs),
                                _case(nodes, imps, verb, False, False, ok, objs, sk, subs)],
                    lambda v: v[0] == v[1]))
    # negation (single subject / object)
    for imp in (True, False):
        for exc in (False, True):
            out.append(("negation", [_case(nodes, imps, "should", imp, exc, sk, s1, ok, o1),
                                     _case(nodes, imps, "not", imp, exc, sk, s1, ok, o1)],
                        lambda v: any(x.startswith("ERR") for x in v) or ((v[0] == "PASS") == (v[1] == "FAIL"))))
    # decomposition
    for imp in (True, False):
        out.append(("decomposition", [_case(nodes, imps, "only", imp, False, sk, subs, ok, objs),
                                      _case(nodes, imps, "should", imp, False, sk, subs, ok, objs),
                                      _case(nodes, imps, "not", imp, True, sk, subs, ok, objs)],
                    lambda v: any(x.startswith("ERR") for x in v) or ((v[0] == "PASS") == (v[1] == "PASS" and v[2] == "PASS"))))
        out.append(("decomposition-except", [_case(nodes, imps, "only", imp, True, sk, subs, ok, objs),
                                             _case(nodes, imps, "should", imp, True, sk, subs, ok, objs),
                                             _case(nodes, imps, "not", imp, False, sk, subs, ok, objs)],
                    lambda v: any(x.startswith("ERR") for x in v) or ((v[0] == "PASS") == (v[1] == "PASS" and v[2] == "PASS"))))
    # the same laws with a regular expression on the subject side (its matches may be nested: a package and modules below it)
    import re as _re

    base = rng.choice(nodes)
    pat = rng.choice([_re.escape(base) + r"(\..*)?$", _re.escape(base.split(".")[0]) + ".*", _re.escape(base[: max(1, len(base) - 1)]) + ".*"])
    tab = [(pat, [m for m in nodes if _re.match(pat, m)])]

    def rc(verb, imp, exc, regex_as_subject=True):
        c = _case(nodes, imps, verb, imp, exc, "R", pat, ok, objs) if regex_as_subject else _case(nodes, imps, verb, imp, exc, ok, objs, "R", pat)
        c["mtab"] = tab
        return c

    if tab[0][1]:
        for imp in (True, False):
            out.append(("decomposition-regex", [rc("only", imp, False), rc("should", imp, False), rc("not", imp, True)],
                        lambda v: any(x.startswith("ERR") for x in v) or ((v[0] == "PASS") == (v[1] == "PASS" and v[2] == "PASS"))))
            out.append(("decomposition-except-regex", [rc("only", imp, True), rc("should", imp, True), rc("not", imp, False)],
                        lambda v: any(x.startswith("ERR") for x in v) or ((v[0] == "PASS") == (v[1] == "PASS" and v[2] == "PASS"))))
        for verb in ("should", "not"):
            out.append(("duality-regex", [rc(verb, True, False), rc(verb, False, False, regex_as_subject=False)], lambda v: v[0] == v[1]))
    # alias ('anything' = except itself); single subject so that the de-duplication is not involved
    for imp in (True, False):
        out.append(("alias", [_case(nodes, imps, "not", imp, False, sk, s1, sk, s1, anything=True),
                              _case(nodes, imps, "not", imp, True, sk, s1, sk, s1)],
                    lambda v: v[0] == v[1]))
    # alias with a batch of pairwise unrelated subjects (the parent/sub-module de-duplication must leave them alone)
    pool = nodes[:]
    rng.shuffle(pool)
    batch = []
    for c in pool:
        if all(not gen.related(c, d) for d in batch):
            batch.append(c)
        if len(batch) == 3:
            break
    if len(batch) >= 2:
        for imp in (True, False):
            out.append(("alias-batch", [_case(nodes, imps, "not", imp, False, sk, batch, sk, batch, anything=True),
                                        _case(nodes, imps, "not", imp, True, sk, batch, sk, batch)],
                        lambda v: v[0] == v[1]))
    # alias with a batch that contains a module and one of its descendants (what the parent/sub-module de-duplication of
    # the alias removes must not change the verdict: 'anything' stays 'except the subject itself', the whole batch)
    rel = [(a, b) for a in nodes for b in nodes if a != b and gen.is_desc(b, a)]
    if rel:
        a, b = rng.choice(rel)
        rbatch = [a, b] + ([rng.choice(nodes)] if rng.random() < 0.3 else [])
        rng.shuffle(rbatch)
        rbatch = list(dict.fromkeys(rbatch))
        for imp in (True, False):
            out.append(("alias-batch-related", [_case(nodes, imps, "not", imp, False, sk, rbatch, sk, rbatch, anything=True),
                                                _case(nodes, imps, "not", imp, True, sk, rbatch, sk, rbatch)],
                        lambda v: v[0] == v[1]))
    # monotonicity: add one import between unrelated modules
    cand = [(u, v) for u in nodes for v in nodes if not gen.related(u, v) and (u, v) not in imps]
    if cand:
        extra = rng.choice(cand)
        imps2 = imps + [extra]
        imp, exc = rng.random() < 0.5, rng.random() < 0.5
        out.append(("monotone-should", [_case(nodes, imps, "should", imp, exc, sk, subs, ok, objs),
                                        _case(nodes, imps2, "should", imp, exc, sk, subs, ok, objs)],
                    lambda v: not (v[0] == "PASS" and v[1] != "PASS")))
        out.append(("monotone-should_not", [_case(nodes, imps, "not", imp, exc, sk, subs, ok, objs),
                                            _case(nodes, imps2, "not", imp, exc, sk, subs, ok, objs)],
                    lambda v: not (v[0] == "FAIL" and v[1] != "FAIL")))
    return out


def run_instances(ctx, stream, insts):
    flat = [c for _, cs, _ in insts for c in cs]
    res = evaluate(ctx, flat)
    k = 0
    for name, cs, pred in insts:
        part = res[k : k + len(cs)]
        k += len(cs)
        stream.evaluations += 1
        stream.count(name)
        classes = [split_impl(i)[0] for _, i, _ in part]
        if cs[0]["imps"] and (len(set(classes)) > 1 or "FAIL" in classes):
            stream.nontrivial.add(digest([(c["nodes"], c["imps"], c["ops"]) for c in cs]))
        if len(ctx.samples) < 3 and name.startswith("mono") and "FAIL" in classes:
            ctx.samples.append({"law": name, "rules": [gen.rule_line(c) for c in cs], "impl": classes})
        if not pred(classes):
            ctx.violations.append({
                "kind": "property-violation", "what": f"law '{name}' fails on the implementation",
                "rules": [gen.rule_line(c) for c in cs], "impl": [i for _, i, _ in part],
                "model": [a.get("M") for _, _, a in part], "python": [python_snippet(c) for c in cs]})
            if len(ctx.violations) >= 5:
                return
        for c, i, a in part:
            icls, iitems, iidx = split_impl(i)
            mcls, mitems = split_model(a.get("M", "?"))
            if icls != mcls or (icls == "FAIL" and iitems != mitems):
                if len(ctx.broken) < 20:
                    ctx.broken.append({"kind": "correspondence-broken",
                                       "what": "correspondence impl = PtaModel.assertApplies (whole rule space)",
                                       "theorem": "Pta.C12.* are statements about PtaModel.assertApplies",
                                       "line": gen.rule_line(c), "impl": i, "model": a.get("M"), "python": python_snippet(c)})


def flag_rows(ctx, lean_info=None):
    """the 16 rows of both tables through the real classes (the executable twin of generated_flags_agree)"""
    from ..impl import RuleInconsistency
    from pytestarch.rule_assessment.rule_check.behavior_requirement import BehaviorRequirement
    from pytestarch.rule_assessment.rule_check.module_requirement import ModuleRequirement
    from pytestarch.rule_assessment.rule_check.rule_violation_detector import RuleViolationDetector
    import itertools

    s = Stream(ctx, "flag-tables-16-rows", exhaustive=True)
    for sh, on, no, ex in itertools.product([False, True], repeat=4):
        s.evaluations += 1
        s.nontrivial.add((sh, on, no, ex))
        # model table, in Python (mirror of PtaModel/Flags.lean; the kernel-checked tie is the generated theorem)
        expl_req = (sh or on) and not ex
        other_req = ex and (sh or on)
        expl_forb = (no and not ex) or (on and ex)
        other_forb = (no and ex) or (on and not ex)
        incons = (expl_req and expl_forb) or (other_req and other_forb)
        try:
            b = BehaviorRequirement(sh, on, no, ex)
            got = (b.explicitly_requested_dependency_required, b.not_explicitly_requested_dependency_required,
                   b.explicitly_requested_dependency_not_allowed, b.not_explicitly_requested_dependency_not_allowed, False)
            d = RuleViolationDetector(ModuleRequirement([], [], True), b)._get_dependency_expectations()
            got_e = (d.not_explicitly_requested_dependencies_should_not_be_present, d.explicitly_requested_dependencies_should_not_be_present,
                     d.explicitly_requested_dependencies_and_no_other_should_be_present,
                     d.explicitly_requested_dependencies_should_not_but_others_should_be_present,
                     d.at_least_one_not_explicitly_requested_dependency_should_be_present, d.explicitly_requested_dependencies_should_be_present)
            want_e = (no and ex, no and not ex, on and not ex, on and ex, sh and ex, sh and not ex)
        except RuleInconsistency:
            got = (expl_req, other_req, expl_forb, other_forb, True)
            got_e = want_e = ()
        want = (expl_req, other_req, expl_forb, other_forb, incons)
        if got != want or got_e != want_e:
            ctx.broken.append({"kind": "proof-obligation-broken", "what": "flag table row differs from PtaModel.Flags",
                               "theorem": "Pta.C12.generated_flags_agree", "row": [sh, on, no, ex],
                               "impl": [list(got), list(got_e)], "model": [list(want), list(want_e)]})
    s.finish()


def _file_mono_case(case):
    """scan a tree, add ONE import statement to one file, scan again (same options): modules and hierarchy stay, imports
    only grow, a passing should rule keeps passing and a failing should_not rule keeps failing (Pta.C12.scan_add_statement_*)"""
    import random as _random

    from .. import scan_common as sc
    from ..impl import Rule, err_kind, get_evaluable_architecture, graph_snapshot

    tree, tree2, mp, lim, seed = case[:5]
    ext = case[5] if len(case) > 5 else None
    rng = _random.Random(seed)
    kw = {} if lim is None else {"level_limit": lim}
    if ext is not None:
        # external libraries included (with external exclusion patterns): an added import may add a MODULE, it still removes nothing
        kw["exclude_external_libraries"] = False
        if ext:
            kw["regex_external_exclusions"] = tuple(ext)
    out = {"rules": []}

    def scan(t):
        with sc.write_project(t) as proj:
            try:
                ev = get_evaluable_architecture(proj.path("proj"), proj.path(mp), **kw)
            except Exception as e:  # noqa: BLE001
                return None, "ERR:" + err_kind(e)
            return ev, graph_snapshot(ev)

    ev1, g1 = scan(tree)
    ev2, g2 = scan(tree2)
    if ev1 is None or ev2 is None:
        out["scan"] = (g1 if ev1 is None else "ok", g2 if ev2 is None else "ok")
        return out
    out["nodes_equal"] = (g1[0] == g2[0] and g1[2] == g2[2]) if ext is None else (set(g1[0]) <= set(g2[0]) and set(g1[2]) <= set(g2[2]))
    out["lost"] = sorted(set(g1[1]) - set(g2[1]))
    out["gained"] = sorted(set(g2[1]) - set(g1[1]))
    nodes = list(g1[0])
    for _ in range(8):
        a, b = rng.choice(nodes), rng.choice(nodes)
        if a == b:
            continue
        verb, how = rng.choice(["should", "should_not"]), rng.choice(["import_modules_that", "be_imported_by_modules_that",
                                                                        "import_modules_except_modules_that", "be_imported_by_modules_except_modules_that"])
        sub = rng.random() < 0.25

        def outcome(ev):
            r = Rule().modules_that()
            r = r.are_sub_modules_of(a) if sub else r.are_named(a)
            r = getattr(getattr(r, verb)(), how)().are_named(b)
            try:
                r.assert_applies(ev)
                return "PASS"
            except AssertionError:
                return "FAIL"
            except Exception as e:  # noqa: BLE001
                return "ERR:" + err_kind(e)

        out["rules"].append((verb, how, "sub" if sub else "named", a, b, outcome(ev1), outcome(ev2)))
    return out


def file_monotone_stream(ctx, stream, n):
    from .. import scan_common as sc
    from ..core import pmap

    rng = ctx.rng("file-mono")
    cases = []
    while len(cases) < n:
        tree = sc.gen_tree(rng, extra_files=False)
        sc.fill_sources(rng, tree, externals=True)
        files = sorted(p for p in tree if p.endswith(".py"))
        if not files:
            continue
        f = rng.choice(files)
        items = sc.gen_imports(rng, tree, f, externals=True, n=1)
        if not items:
            continue
        chain, st = items[0]
        add = sc.place(st, chain)
        tree2 = dict(tree)
        body = tree[f]
        import re as _re

        froms = [m for m in _re.finditer(r"(?m)^([ \t]*from [\w.]+ import )([A-Za-z_][\w]*(?:, [A-Za-z_]\w*)*)[ \t]*$", body)]
        if froms and rng.random() < 0.35:
            # the added import is one more NAME in an existing from-import statement (a plain name, or a sub module)
            m = rng.choice(froms)
            extra = rng.choice(["helper_zz", "CONSTANT", "a", "m", "util", "x"])
            tree2[f] = body[: m.end(2)] + ", " + extra + body[m.end(2):]
            dirs = sorted(p for p, v in tree.items() if v is None)
            mp = "proj" if rng.random() < 0.7 else rng.choice(dirs)
            cases.append((tree, tree2, mp, rng.choice([None, None, 1, 2]), rng.randrange(1 << 30)))
            continue
        anyfrom = [m for m in _re.finditer(r"(?m)^[ \t]*from (\.*)([\w.]*) import ([A-Za-z_]\w*(?:, [A-Za-z_]\w*)*)[ \t]*$", body)]
        if anyfrom and rng.random() < 0.25:
            # the added statement is a NEAR-COPY of a statement the file already has: same module text and names, another
            # relative level and / or an alias; later in the file, at top level or nested
            m = rng.choice(anyfrom)
            dots = rng.choice([d for d in ["", ".", "..", "..."] if d != m.group(1) and (d or m.group(2))])
            names = m.group(3).split(", ")
            if rng.random() < 0.5:
                names[-1] += " as zz_alias"
            st2 = f"from {dots}{m.group(2)} import {', '.join(names)}\n"
            st2 = rng.choice([st2, "def _late():\n    " + st2, "try:\n    " + st2 + "except ImportError:\n    pass\n"])
            tree2[f] = (body if body.endswith("\n") else body + "\n") + st2
            dirs = sorted(p for p, v in tree.items() if v is None)
            mp = "proj" if rng.random() < 0.7 else rng.choice(dirs)
            cases.append((tree, tree2, mp, rng.choice([None, None, 1, 2]), rng.randrange(1 << 30)))
            continue
        # the new statement goes to the front, to the end, or between two existing top-level chunks: which import of a file
        # is converted first must not matter
        lines = body.split("\n")
        cut = rng.choice([1, len(lines) - 1, rng.randint(1, max(1, len(lines) - 1))])
        while cut < len(lines) - 1 and (lines[cut].startswith((" ", "\t", "else", "elif", "except", "finally", "case")) or not lines[cut]):
            cut += 1
        tree2[f] = "\n".join(lines[:cut]) + "\n" + add + "\n".join(lines[cut:])
        try:
            import ast as _ast

            _ast.parse(tree2[f])
        except SyntaxError:
            tree2[f] = body + add
        dirs = sorted(p for p, v in tree.items() if v is None)
        mp = "proj" if rng.random() < 0.7 else rng.choice(dirs)
        lim = rng.choice([None, None, 1, 1, 2, 3])
        if rng.random() < 0.3:
            # externals included, no level limit; patterns that match a sub module of a library only, a whole library, or nothing.
            # The tree already imports a library and one of its packages; the added statement imports a sub module of it.
            pats = rng.choice([[], [r"ext\.lib\.x"], [r"os\.path"], [r"ext\.lib$", r"deep\.er"], [r"ab"]])
            g = rng.choice(files)
            t1 = dict(tree)
            t1[g] = tree[g] + "import ext.lib\nimport os\nfrom ext.lib import thing\nimport ext.lib.w\n"
            t2 = dict(t1)
            extra = rng.choice(["import ext.lib.x\n", "import ext.lib.x.y.z\n", "from ext.lib.x import thing\n", "import os.path\n", "import ext.lib.x as q\nimport os.path\n"])
            h = rng.choice([g, f])
            t2[h] = t1[h] + extra if rng.random() < 0.7 else t1[h].replace("\n", "\n" + extra, 1)
            cases.append((t1, t2, "proj", None, rng.randrange(1 << 30), pats))
            continue
        cases.append((tree, tree2, mp, lim, rng.randrange(1 << 30)))
    res = pmap(_file_mono_case, cases, ctx.jobs, chunk=10)
    for case, out in zip(cases, res):
        tree, tree2, mp, lim = case[:4]
        stream.evaluations += 1
        stream.count(f"limit:{lim}")
        if "scan" in out:
            stream.count("scan-error")
            if out["scan"][0] != "ok" and out["scan"][1] == "ok":
                ctx.violations.append({"kind": "property-violation", "what": "adding an import statement makes a failing scan succeed",
                                       "files": tree, "files_after": tree2, "module_path": mp, "level_limit": lim})
            continue
        bad = None
        if not out["nodes_equal"]:
            bad = "adding an import statement changes the modules or the hierarchy (external libraries excluded), or removes some (included)"
        elif out["lost"]:
            bad = f"adding an import statement removes imports from the architecture: {out['lost'][:4]}"
        if out["gained"]:
            stream.nontrivial.add(digest((sorted(tree2.items()), mp, lim)))
        for verb, how, kind, a, b, v1, v2 in out["rules"]:
            stream.count(f"{verb}:{v1}->{v2}")
            if bad:
                break
            if v1.startswith("ERR") or v2.startswith("ERR"):
                if v1 != v2:
                    bad = f"rule error changes when an import statement is added: {verb} {how} {kind} {a} / {b}: {v1} -> {v2}"
            elif verb == "should" and v1 == "PASS" and v2 != "PASS":
                bad = f"a passing 'should' rule fails after an import statement was added: {kind} {a} should {how} {b}"
            elif verb == "should_not" and v1 == "FAIL" and v2 != "FAIL":
                bad = f"a failing 'should not' rule passes after an import statement was added: {kind} {a} should_not {how} {b}"
        if bad:
            ctx.violations.append({"kind": "property-violation", "what": bad, "files": tree, "files_after": tree2, "module_path": mp,
                                   "level_limit": lim, "imports_lost": out["lost"], "imports_gained": out["gained"]})
            if len(ctx.violations) >= 3:
                return


def run(ctx: Ctx):
    run_witnesses(ctx)
    from ..rules_common import interpreter_modes

    interpreter_modes(ctx, "rules")
    flag_rows(ctx)
    quick = ctx.quick()
    # exhaustive small scope
    s = Stream(ctx, "laws on every tree<=4 nodes x relations<=2 imports", exhaustive=True)
    import itertools

    rng = ctx.rng("ex")
    insts = []
    for nodes in gen.tree_shapes(4):
        if len(nodes) < 2:
            continue
        pairs = gen.wf_pairs(nodes)
        for k in range(0, 3):
            for imps in itertools.combinations(pairs, k):
                for _ in range(2 if quick else 8):
                    insts.extend(instances(rng, nodes, list(imps)))
    run_instances(ctx, s, insts)
    s.finish()
    n = ctx.size(4000, 60000)
    for name, comps in (("laws-random-plain", gen.PLAIN), ("laws-random-adversarial", gen.IDENT_ADVERSARIAL)):
        s = Stream(ctx, name)
        rng = ctx.rng(name)
        done = 0
        while done < n and ctx.left() > 20 and not ctx.violations:
            insts = []
            for _ in range(1000):
                nodes = gen.random_tree(rng, max_nodes=12, comps=comps)
                if len(nodes) < 3:
                    continue
                insts.extend(instances(rng, nodes, gen.random_imports(rng, nodes, 10)))
            run_instances(ctx, s, insts)
            done += 1000
        s.finish()
    if not ctx.violations:
        s = Stream(ctx, "monotonicity at file level: one import statement added to one file of a scanned tree (any position, any form, "
                        "also names that are not modules), with and without a level limit (Pta.C12.scan_add_statement_monotone)")
        file_monotone_stream(ctx, s, ctx.size(500, 8000))
        s.finish()
    from ..rules_common import reuse_stream

    s = Stream(ctx, "re-used rule objects: second application vs a fresh rule object")
    reuse_stream(ctx, s, ctx.size(800, 10000))
    s.finish()
    return RULE
