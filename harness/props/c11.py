"""C11 - regex, partial-name and batched specifications equal their expansions.
Relational on the implementation (compact rule vs expansion), plus impl = M where the regex engine
is an uninterpreted relation whose table (pattern x module -> bool) is computed with Python's re."""
from __future__ import annotations

import re

from .. import gen
from ..core import Ctx, Stream, digest
from ..impl import convert_partial_match_to_regex, rule_ops_for
from ..rules_common import evaluate, python_snippet, run_witnesses, split_impl, split_model

RULE = (
    "instances over random graphs (plain/adversarial names, <=12 nodes, <=10 imports): (a) a rule with a regex subject or "
    "object vs the rule naming exactly the modules re.match selects (regexes: anchored names, dotted prefixes with and "
    "without descendants, alternations, character classes built from the graph's own names; all 14 shapes), and a regex "
    "matching nothing -> ImpossibleMatch; (b) have_name_containing(s) vs have_name_matching(convert(s)); (c) several "
    "subjects with explicit objects vs the conjunction of the single-subject rules (all 12 shapes, related names allowed); "
    "(d) several objects vs conjunction over objects for plain should / should_not. distinct_nontrivial = distinct instances "
    "with >= 1 import whose compact rule fails or whose expansion has >= 2 members."
)


def regexes_for(rng, nodes):
    n = rng.choice(nodes)
    kind = rng.randrange(6)
    e = re.escape
    if kind == 0:
        return e(n) + "$"
    if kind == 1:
        return e(n) + r"(\..*)?$"          # module and descendants
    if kind == 2:
        return e(n) + r"\..*"               # strict descendants
    if kind == 3:
        m = rng.choice(nodes)
        return "(" + e(n) + "|" + e(m) + ")$"
    if kind == 4:
        return e(n[:-1]) + "[a-z_0-9]$" if len(n) > 1 else e(n) + "$"
    return e(n)                              # unanchored prefix: matches n, n.x, and siblings nX


from ..gen import odd_regex  # noqa: E402,F401  (shared with the re-use / scanned-architecture streams)


def mtab(patterns, nodes):
    return [(p, [m for m in nodes if re.match(p, m)]) for p in patterns]


def _case(nodes, imps, verb, imp, exc, subs, objs, anything=False, tab=None):
    c = {"nodes": nodes, "imps": imps, "lim": None, "ops": rule_ops_for(verb, imp, exc, subs, objs, anything), "spec": None}
    if tab:
        c["mtab"] = tab
    return c


def instances(rng, nodes, imps):
    out = []
    verb, imp, exc, anything = rng.choice(gen.SHAPES)
    # (a) regex expansion, subject or object side
    pat = regexes_for(rng, nodes) if rng.random() < 0.6 else odd_regex(rng, nodes)
    matched = [m for m in nodes if re.match(pat, m)]
    tab = mtab([pat], nodes)
    other = ("N" if rng.random() < 0.7 else "P", rng.sample(nodes, rng.randint(1, 2)))
    if rng.random() < 0.5 or anything:
        compact = _case(nodes, imps, verb, imp, exc, ("R", pat), other, anything, tab)
        expanded = _case(nodes, imps, verb, imp, exc, ("N", matched), other, anything)
    else:
        compact = _case(nodes, imps, verb, imp, exc, other, ("R", pat), False, tab)
        expanded = _case(nodes, imps, verb, imp, exc, other, ("N", matched))
    if matched:
        out.append(("regex-expansion", [compact, expanded], lambda v: v[0] == v[1], len(matched)))
    else:
        out.append(("regex-no-match", [compact], lambda v: v[0] == "ERR:impossibleMatch", 0))
    # no-match regex explicitly
    if rng.random() < 0.15:
        nm = "zz_no_such_module.*"
        out.append(("regex-no-match", [_case(nodes, imps, verb, imp, exc, ("R", nm), other, anything, mtab([nm], nodes))],
                    lambda v: v[0] == "ERR:impossibleMatch", 0))
    # (b) partial name
    n = rng.choice(nodes)
    frag = rng.choice([n, "*" + n[-1:], n[:1] + "*", "*" + n[len(n) // 2:] + "*", "*" + n.split(".")[-1]])
    rx = convert_partial_match_to_regex(frag)
    from ..rules_common import _safe_matches

    if _safe_matches(rx, nodes):
        c1 = {"nodes": nodes, "imps": imps, "lim": None, "spec": None, "mtab": mtab([rx], nodes),
              "ops": [("mt", None), ("contain", [frag]), (verb, None)] + rule_ops_for(verb, imp, exc, ("N", ["x"]), other, anything)[3:]}
        c2 = _case(nodes, imps, verb, imp, exc, ("R", rx), other, anything, mtab([rx], nodes))
        out.append(("partial-name", [c1, c2], lambda v: v[0] == v[1], 1))
    # (c) batch of subjects, explicit objects, all 12 shapes, related allowed
    verb2, imp2, exc2, _ = rng.choice(gen.SHAPES[:12])
    sk, ok = rng.choice("NP"), rng.choice("NP")
    subs = rng.sample(nodes, min(rng.randint(2, 3), len(nodes)))
    objs = rng.sample(nodes, min(rng.randint(1, 3), len(nodes)))
    whole = _case(nodes, imps, verb2, imp2, exc2, (sk, subs), (ok, objs))
    singles = [_case(nodes, imps, verb2, imp2, exc2, (sk, [s]), (ok, objs)) for s in subs]
    out.append(("batch-subjects", [whole] + singles,
                lambda v: any(x.startswith("ERR") for x in v) or ((v[0] == "PASS") == all(x == "PASS" for x in v[1:])), len(subs)))
    # (d) batch of objects, plain should / should_not
    verb3 = rng.choice(["should", "not"])
    whole = _case(nodes, imps, verb3, imp2, False, (sk, subs[:1]), (ok, objs))
    singles = [_case(nodes, imps, verb3, imp2, False, (sk, subs[:1]), (ok, [o])) for o in objs]
    out.append(("batch-objects", [whole] + singles,
                lambda v: any(x.startswith("ERR") for x in v) or ((v[0] == "PASS") == all(x == "PASS" for x in v[1:])), len(objs)))
    return out


def run_instances(ctx, stream, insts):
    flat = [c for _, cs, _, _ in insts for c in cs]
    res = evaluate(ctx, flat)
    k = 0
    for name, cs, pred, width in insts:
        part = res[k : k + len(cs)]
        k += len(cs)
        stream.evaluations += 1
        stream.count(name)
        classes = [split_impl(i)[0] for _, i, _ in part]
        stream.count(name + ":" + classes[0].split(":")[0])
        if cs[0]["imps"] and (classes[0] == "FAIL" or width >= 2):
            stream.nontrivial.add(digest([(c["nodes"], c["imps"], c["ops"]) for c in cs]))
        if len(ctx.samples) < 3 and name == "regex-expansion" and classes[0] == "FAIL" and width >= 2:
            ctx.samples.append({"law": name, "rules": [gen.rule_line(c) for c in cs], "impl": classes})
        if not pred(classes):
            ctx.violations.append({
                "kind": "property-violation", "what": f"'{name}' fails on the implementation: compact form and expansion disagree",
                "rules": [gen.rule_line(c) for c in cs], "impl": [i for _, i, _ in part],
                "model": [a.get("M") for _, _, a in part], "python": [python_snippet(c) for c in cs]})
            if len(ctx.violations) >= 5:
                return
        for c, i, a in part:
            icls, iitems, iidx = split_impl(i)
            mcls, mitems = split_model(a.get("M", "?"))
            if icls != mcls or (icls == "FAIL" and iitems != mitems):
                if len(ctx.broken) < 20:
                    ctx.broken.append({"kind": "correspondence-broken",
                                       "what": "correspondence impl = PtaModel.assertApplies with regex filters (match table from Python re)",
                                       "theorem": "Pta.C11.* are statements about PtaModel.convertFilters / assertApplies",
                                       "line": gen.rule_line(c), "impl": i, "model": a.get("M"), "python": python_snippet(c)})


def _scanned_regex_case(case):
    """regex / partial-name rules on SCANNED architectures (external libraries included): the pattern stands for the modules of
    the architecture it matches - library modules included - and the rule equals the rule that names them"""
    import random as _random
    import re as _re

    from .. import scan_common as sc
    from ..impl import Rule, err_kind, get_evaluable_architecture, graph_snapshot

    tree, seed = case
    rng = _random.Random(seed)
    out = []
    with sc.write_project(tree) as proj:
        try:
            ev = get_evaluable_architecture(proj.path("proj"), proj.path("proj"), exclude_external_libraries=False)
        except Exception as e:  # noqa: BLE001
            return [("SCANERR", err_kind(e), "", "")]
        nodes = sorted(graph_snapshot(ev)[0])
        ext = [n for n in nodes if not (n == "proj" or n.startswith("proj."))]

        def outcome(mk):
            try:
                mk().assert_applies(ev)
                return "PASS"
            except AssertionError:
                return "FAIL"
            except Exception as e:  # noqa: BLE001
                return "ERR:" + err_kind(e)

        for _ in range(4):
            n = rng.choice(ext) if ext and rng.random() < 0.6 else rng.choice(nodes)
            pat = rng.choice([_re.escape(n) + "$", _re.escape(n.split(".")[0]) + r"(\..*)?$", _re.escape(n[: max(1, len(n) - 1)]) + ".*", ".*" + _re.escape(n.split(".")[-1]) + "$"])
            matched = [m for m in nodes if _re.match(pat, m)]
            other = rng.choice([m for m in nodes if m.startswith("proj")] or nodes)
            verb = rng.choice(["should", "should_not"])
            side = rng.random() < 0.5
            if side:
                compact = lambda: getattr(Rule().modules_that().have_name_matching(pat), verb)().be_imported_by_modules_that().are_named(other)  # noqa: E731
                named = lambda: getattr(Rule().modules_that().are_named(matched), verb)().be_imported_by_modules_that().are_named(other)  # noqa: E731
            else:
                compact = lambda: getattr(Rule().modules_that().are_named(other), verb)().import_modules_that().have_name_matching(pat)  # noqa: E731
                named = lambda: getattr(Rule().modules_that().are_named(other), verb)().import_modules_that().are_named(matched)  # noqa: E731
            out.append((pat, outcome(compact), outcome(named) if matched else "ERR:impossibleMatch", f"{verb} side={'subject' if side else 'object'} other={other} matched={matched[:6]}"))
    return out


def scanned_regex_stream(ctx, stream, n):
    from .. import scan_common as sc
    from ..core import pmap

    rng = ctx.rng("scanned-regex")
    cases = []
    for _ in range(n):
        tree = sc.gen_tree(rng)
        sc.fill_sources(rng, tree, externals=True)
        pys = [p for p in tree if p.endswith(".py")]
        if pys:
            tree[rng.choice(pys)] += rng.choice(["import os.path\nimport json\n", "import ext.lib.x\n", "from ab.cd import z\n"])
        cases.append((tree, rng.randrange(1 << 30)))
    res = pmap(_scanned_regex_case, cases, ctx.jobs, chunk=10)
    for (tree, _), outs in zip(cases, res):
        for pat, compact, named, info in outs:
            stream.evaluations += 1
            stream.count("compact:" + compact.split(":")[0])
            if pat == "SCANERR":
                continue
            stream.nontrivial.add(digest((sorted(tree), pat, info)))
            if compact != named:
                ctx.violations.append({"kind": "property-violation",
                                       "what": f"on a scanned architecture (external libraries included) the rule with the pattern {pat!r} gives {compact}, the rule naming the matching modules gives {named}",
                                       "files": dict(tree), "rule": info})
                if len(ctx.violations) >= 3:
                    return


def run(ctx: Ctx):
    from ..rules_common import interpreter_modes

    interpreter_modes(ctx, "rules")
    run_witnesses(ctx)
    quick = ctx.quick()
    n = ctx.size(6000, 100000)
    for name, comps in (("c11-random-plain", gen.PLAIN), ("c11-random-adversarial", gen.IDENT_ADVERSARIAL)):
        s = Stream(ctx, name)
        rng = ctx.rng(name)
        done = 0
        while done < n and ctx.left() > 20 and not ctx.violations:
            insts = []
            for _ in range(1000):
                nodes = gen.random_tree(rng, max_nodes=12, comps=comps)
                if len(nodes) < 3:
                    continue
                insts.extend(instances(rng, nodes, gen.random_imports(rng, nodes, 10)))
            run_instances(ctx, s, insts)
            done += 1000
        s.finish()
    from ..rules_common import reuse_stream

    from ..rules_common import partial_name_stream

    s = Stream(ctx, "partial names (have_name_containing) vs the modules their glob meaning selects")
    partial_name_stream(ctx, s, ctx.size(1500, 15000))
    s.finish()
    s = Stream(ctx, "re-used rule objects: second application vs a fresh rule object")
    reuse_stream(ctx, s, ctx.size(800, 10000))
    s.finish()
    if not ctx.violations:
        st = Stream(ctx, "regex specifications on scanned architectures with external libraries included (patterns matching library modules)")
        scanned_regex_stream(ctx, st, ctx.size(300, 6000))
        st.finish()
    return RULE
