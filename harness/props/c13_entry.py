"""C13, continued: DiagramRule histories and entry-point option combinations."""
from __future__ import annotations

import itertools

from ..core import Stream, digest
from ..proto import enc, parse_answer, run_driver

FILES = {"proj/__init__.py": "", "proj/a.py": "import proj.b\nimport os\n", "proj/b.py": "", "proj/sub/__init__.py": "", "proj/sub/c.py": "import proj.a\n",
         "other/x.py": ""}


def diagram_histories(ctx):
    from ..impl import DiagramRule, Project, err_kind, make_graph

    s = Stream(ctx, "DiagramRule histories (file / base-module calls in every order, with and without tags)", exhaustive=True)
    g = make_graph(["p", "p.A", "p.B"], [("p.A", "p.B")])
    texts = {"ok": "@startuml\n[A] --> [B]\n@enduml", "notags": "[A] --> [B]", "nostart": "[A] --> [B]\n@enduml", "noend": "@startuml\n[A] --> [B]"}
    calls = ["file", "base", "included"]
    with Project({k + ".puml": v for k, v in texts.items()}) as p:
        for which in texts:
            for n in range(0, 4):
                for seq in itertools.permutations(calls, n):
                    s.evaluations += 1
                    r = DiagramRule()
                    for c in seq:
                        r = r.from_file(p.path(which + ".puml")) if c == "file" else r.with_base_module("p") if c == "base" else r.base_module_included_in_module_names()
                    try:
                        r.assert_applies(g)
                        got = "PASS"
                    except AssertionError:
                        got = "FAIL"
                    except Exception as e:  # noqa: BLE001
                        got = "ERR:" + err_kind(e)
                    has_file = "file" in seq
                    content = texts[which] if has_file else None
                    line = f"diagram nodes=p,p.A,p.B imps=p.A>p.B text={enc(content) if content is not None else '%n'} base={'p' if 'base' in seq else '%n'} mode=only"
                    m = parse_answer(run_driver([line])[0]).get("M", "?")
                    must = (not has_file) or which != "ok"
                    if must:
                        s.nontrivial.add(digest((which, seq)))
                    want = "ERR:improperlyConfigured" if not has_file else ("ERR:pumlParsingError" if which != "ok" else None)
                    if must and got != want:
                        ctx.violations.append({"kind": "property-violation", "what": f"diagram rule without file / without tags must raise {want}; got {got}",
                                               "calls": list(seq), "diagram": which})
                    elif got.split(":")[0] != m.split(":")[0] or (got.startswith("ERR") and got != m):
                        ctx.broken.append({"kind": "correspondence-broken", "what": "correspondence DiagramRule histories = PtaModel.diagramAssert",
                                           "theorem": "Pta.C13.diagram_*", "calls": list(seq), "diagram": which, "impl": got, "model": m})
    s.finish()
    s = Stream(ctx, "DiagramRule: the diagram file is rewritten between two applications of the same rule object (tags lost / tags gained)", exhaustive=True)
    with Project({"d.puml": texts["ok"]}) as p:
        path = p.path("d.puml")
        for first, second in itertools.product(texts, repeat=2):
            for base in (False, True):
                for refile in (False, True):
                    s.evaluations += 1
                    with open(path, "w") as f:
                        f.write(texts[first])
                    r = DiagramRule().from_file(path)
                    if base:
                        r = r.with_base_module("p")

                    def apply(rule):
                        try:
                            rule.assert_applies(g)
                            return "PASS"
                        except AssertionError:
                            return "FAIL"
                        except Exception as e:  # noqa: BLE001
                            return "ERR:" + err_kind(e)

                    apply(r)
                    with open(path, "w") as f:
                        f.write(texts[second])
                    if refile:
                        r = r.from_file(path)
                    got = apply(r)
                    fresh = DiagramRule().from_file(path)
                    want = apply(fresh.with_base_module("p") if base else fresh)
                    if second != "ok":
                        s.nontrivial.add(digest((first, second, base, refile)))
                    if (second != "ok" and got != "ERR:pumlParsingError") or got != want:
                        ctx.violations.append({"kind": "property-violation",
                                               "what": f"a DiagramRule object applied before the diagram file was rewritten gives {got}; the file as it is now demands {want}",
                                               "first_content": texts[first], "second_content": texts[second], "with_base_module": base, "from_file_called_again": refile})
    s.finish()


def entry_options(ctx):
    from ..impl import Project, err_kind, get_evaluable_architecture

    s = Stream(ctx, "entry point: all presence combinations of the exclusion / external options x module_path inside/outside root", exhaustive=True)
    with Project(FILES) as p:
        for ex, rex, eex, reex, xx, inside in itertools.product([0, 1], repeat=6):
            s.evaluations += 1
            kw = {"exclusions": ("*__pycache__*",) if ex else (), "exclude_external_libraries": bool(xx)}
            if rex:
                kw["regex_exclusions"] = (".*__pycache__.*",)
            if eex:
                kw["external_exclusions"] = ("os*",)
            if reex:
                kw["regex_external_exclusions"] = ("os.*",)
            try:
                get_evaluable_architecture(p.path("proj"), p.path("proj/sub" if inside else "other"), **kw)
                got = "OK"
            except Exception as e:  # noqa: BLE001
                got = "ERR:" + err_kind(e)
            # the module-object entry point is the same request
            import types as _types

            from pytestarch import get_evaluable_architecture_for_module_objects

            rm, mm = _types.ModuleType("r"), _types.ModuleType("m")
            rm.__file__ = p.path("proj") + "/__init__.py"
            mm.__file__ = p.path("proj/sub" if inside else "other") + "/__init__.py"
            try:
                get_evaluable_architecture_for_module_objects(rm, mm, **kw)
                got_obj = "OK"
            except Exception as e:  # noqa: BLE001
                got_obj = "ERR:" + err_kind(e)
            if got_obj != got:
                ctx.violations.append({"kind": "property-violation",
                                       "what": f"the module-object entry point answers the request with {got_obj}, the path entry point with {got}",
                                       "options": kw, "module_path_inside_root": bool(inside)})
            m = parse_answer(run_driver([f"opts ex={ex} rex={rex} eex={eex} reex={reex} xx={xx} inside={inside}"])[0]).get("M", "?")
            invalid = (ex and rex) or (eex and reex) or (xx and (eex or reex)) or not inside
            if invalid:
                s.nontrivial.add((ex, rex, eex, reex, xx, inside))
            if not ex and not rex:
                s.count("neither-exclusion-option")      # exclusions=() without regex_exclusions: nothing is excluded (F-C08a)
            if invalid and not got.startswith("ERR"):
                ctx.violations.append({"kind": "property-violation", "what": "invalid option combination of get_evaluable_architecture returns an architecture",
                                       "options": kw, "module_path_inside_root": bool(inside), "impl": got})
            elif not invalid and got != "OK":
                ctx.violations.append({"kind": "property-violation", "what": f"valid option combination rejected: {got}", "options": kw})
            elif got.split(":")[0] != m.split(":")[0] or (got.startswith("ERR") and got != m):
                ctx.broken.append({"kind": "correspondence-broken", "what": "correspondence entry-point option validation = PtaModel.entryOptionsError",
                                   "theorem": "Pta.C13.options", "options": str(kw), "inside": inside, "impl": got, "model": m})
    s.finish()


def run(ctx):
    diagram_histories(ctx)
    entry_options(ctx)
