"""C10 - external-library options affect only external modules, never internal ones."""
from __future__ import annotations

import ast
import re

from .. import scan_common as sc
from ..core import Ctx, Stream, digest, pmap
from ..proto import parse_answer, run_driver
from ..rules_common import run_witnesses

RULE = (
    "cases = random project trees with internal and external imports (nested external packages; externals whose names "
    "share prefixes/suffixes with internal modules: proj_ext.m, projx, aproj, a, ab.cd; relative imports of non-modules) "
    "scanned under every option set of {externals excluded; included; included + glob external patterns; included + regex "
    "external patterns}, patterns drawn from the external names in the four glob shapes and from patterns that textually "
    "match internal names (*a, *util*, proj*); module_path = root_path mostly, sometimes below. Judged on the implementation: "
    "no external node/edge when excluded; every imported external with its ancestors and its import when included, except "
    "those matching a pattern themselves or through an ancestor; internal modules and internal imports identical in all "
    "configurations. Each scan is also compared with PtaModel.generateGraph. distinct_nontrivial = distinct (tree, option "
    "set) pairs whose tree imports >= 1 external module."
)

PATS = ["os", "os*", "*lib*", "ext.lib", "ext*", "*x", "*a", "*util*", "proj*", "*proj*", "ab.cd", "a", "*.m", "extra", "*t"]


def imported_externals(tree, internal_prefix):
    """(importer, external name) pairs read off the sources with ast (level-0 statements only)"""
    out = set()
    ins = lambda n: n == internal_prefix or n.startswith(internal_prefix + ".")  # noqa: E731
    for p, v in tree.items():
        if v is None or not p.endswith(".py"):
            continue
        importer = sc.module_of(p)
        for node in ast.walk(ast.parse(v)):
            if isinstance(node, ast.Import):
                for a in node.names:
                    if not ins(a.name):
                        out.add((importer, a.name))
            elif isinstance(node, ast.ImportFrom) and node.level == 0 and not ins(node.module):
                out.add((importer, node.module))
    return out


def _eval(case):
    tree, root, mp = case["tree"], case["root"], case["mp"]
    res = []
    with sc.write_project(tree) as proj:
        base = proj.path(root)
        lines = []
        if case.get("relative"):
            # root_path / module_path given relative to the working directory (run from the directory that holds the project)
            import os

            from ..impl import err_kind, get_evaluable_architecture, graph_snapshot

            base = root
            cwd = os.getcwd()
            os.chdir(proj.path())
            try:
                for (xx, ext) in case["configs"]:
                    kw = sc.kw_for(("G", case.get("fex", ("*__pycache__*",))), xx, case.get("lim"), ext)
                    try:
                        res.append(sc.snapshot_str(*graph_snapshot(get_evaluable_architecture(root, mp, **kw))))
                    except Exception as e:  # noqa: BLE001
                        res.append("ERR:" + err_kind(e))
            finally:
                os.chdir(cwd)
            return res, base
        for (xx, ext) in case["configs"]:
            kw = sc.kw_for(("G", case.get("fex", ("*__pycache__*",))), xx, case.get("lim"), ext)
            if case.get("explicit_empty") and not xx and ext[1]:
                # the other kind of external pattern passed explicitly as an empty tuple: it says nothing and changes nothing
                kw["regex_external_exclusions" if ext[0] == "G" else "external_exclusions"] = ()
            res.append(sc.real_scan(proj, root, mp, **kw))
            lines.append((base, xx, ext))
    return res, base


def judge(ctx, stream, cases):
    out = pmap(_eval, cases, ctx.jobs, chunk=10)
    # model lines (regex external patterns need the two-pass match table)
    lines = []
    for case, (res, base) in zip(cases, out):
        for (xx, ext) in case["configs"]:
            lines.append(sc.model_scan(base, case["tree"], case["root"], case["mp"], exclusions=("G", case.get("fex", ("*__pycache__*",))), exclude_external=xx, lim=case.get("lim"), ext=ext))
    ans = run_driver(lines)
    k = 0
    for case, (res, base) in zip(cases, out):
        mp = case["mp"]
        pre = mp.replace("/", ".")
        ins = lambda n: n == pre or n.startswith(pre + ".")  # noqa: E731
        anc = {".".join(pre.split(".")[:i]) for i in range(1, pre.count(".") + 1)}
        internal_ref = None
        exts = imported_externals(case["tree"], pre) if mp == case["root"] else None
        for (xx, ext), impl in zip(case["configs"], res):
            a = parse_answer(ans[k])
            line = lines[k]
            k += 1
            stream.evaluations += 1
            stream.count(("excluded" if xx else "included") + ("+" + ext[0] if ext[1] else "") + (" relative-paths" if case.get("relative") else ""))
            if exts:
                stream.nontrivial.add(digest((sorted(case["tree"]), mp, xx, ext)))
            I = sc.parse_snapshot(impl)
            bad = None
            if I is None:
                stream.count("scan-error")
            else:
                internal = ({n for n in I[0] if ins(n) or n in anc}, {(u, v) for (u, v) in I[1] if ins(u) and ins(v)})
                if internal_ref is None:
                    internal_ref = internal
                elif internal != internal_ref:
                    bad = (f"internal part differs between option sets: modules {sorted(internal[0] ^ internal_ref[0])[:5]} "
                           f"imports {sorted(internal[1] ^ internal_ref[1])[:5]}")
                ext_nodes = {n for n in I[0] if not (ins(n) or n in anc)}
                ext_imps = {(u, v) for (u, v) in I[1] if not ins(v)}
                if not bad:
                    # every external module is imported or is an ancestor package of an imported one; hierarchy = dotted extension
                    targets = {v for (_, v) in ext_imps}
                    phantom = {n for n in ext_nodes if not any(t == n or t.startswith(n + ".") for t in targets)}
                    want_h = {(".".join(n.split(".")[:-1]), n) for n in I[0] if "." in n}
                    if phantom:
                        bad = f"external modules that are neither imported nor ancestors of an imported module: {sorted(phantom)[:5]}"
                    elif I[2] != want_h:
                        bad = f"hierarchy edges differ from dotted-name extension: {sorted(I[2] ^ want_h)[:5]}"
                if not bad and xx and (ext_nodes or ext_imps):
                    bad = f"externals excluded, but the architecture contains {sorted(ext_nodes)[:5]} {sorted(ext_imps)[:5]}"
                if not bad and not xx and exts is not None:
                    def excluded(name):
                        names = [".".join(name.split(".")[:i]) for i in range(1, name.count(".") + 2)]
                        if ext[0] == "G":
                            return any(sc.glob_spec(g, n) for g in ext[1] for n in names)
                        return any(re.match(r, n) for r in ext[1] for n in names)

                    keep = {(u, e) for (u, e) in exts if not excluded(e)}
                    want_nodes = {".".join(e.split(".")[:i]) for _, e in keep for i in range(1, e.count(".") + 2)}
                    if case.get("lim") is not None:
                        # under a level limit every name - library names too - is truncated to lim + 1 components
                        t = lambda n: ".".join(n.split(".")[: case["lim"] + 1])  # noqa: E731
                        keep = {(t(u), t(e)) for (u, e) in keep if t(u) != t(e)}
                        want_nodes = {t(n) for n in want_nodes}
                    if ext_imps != keep or ext_nodes != want_nodes:
                        bad = (f"external part differs: imports {sorted(ext_imps ^ keep)[:5]}, modules {sorted(ext_nodes ^ want_nodes)[:5]}")
            if bad:
                ctx.violations.append({"kind": "property-violation", "what": bad, "files": dict(case["tree"]), "module_path": mp,
                                       "exclude_external_libraries": xx, "external_patterns": ext, "impl": impl, "model": a.get("M")})
                if len(ctx.violations) >= 3:
                    return
                continue
            if impl != a.get("M"):
                if len(ctx.broken) < 10:
                    ctx.broken.append({"kind": "correspondence-broken", "what": "correspondence scan with external options = PtaModel.generateGraph",
                                       "theorem": "Pta.C10.* are statements about PtaModel.generateGraph", "files": dict(case["tree"]), "module_path": mp,
                                       "exclude_external_libraries": xx, "external_patterns": ext, "impl": impl, "model": a.get("M"), "line": line[:3000]})


def stream_cases(ctx: Ctx, s, n, rng):
    done = 0
    while done < n and ctx.left() > 20 and not ctx.violations:
        cases = []
        for _ in range(min(250, n - done)):
            tree = sc.gen_tree(rng, comps=["a", "b", "ab", "util", "utils", "m", "x", "lib", "ext"])
            sc.fill_sources(rng, tree, externals=True)
            # make sure externals occur
            pys = [p for p in tree if p.endswith(".py")]
            if pys:
                p = rng.choice(pys)
                tree[p] += rng.choice(["import os\n", "import ext.lib.x\nfrom ext.lib import thing\n", "import projx, proj_ext.m\n", "from ab.cd import z\nimport a\n",
                                       "import EXTRA, extra\nimport Ext.Lib.x\n"])
            dirs = sorted(p for p, v in tree.items() if v is None)
            mp = "proj" if rng.random() < 0.8 else rng.choice(dirs)
            configs = [(True, ("R", ())), (False, ("R", ()))]
            g = tuple(rng.sample(PATS, rng.randint(1, 2)))
            configs.append((False, ("G", g)))
            r = tuple(rng.choice([r"os(\..*)?$", r"ext\.lib", r".*\.m$", r"proj.*", r"a$", r"ab\.", r".*x"]) for _ in range(rng.randint(1, 2)))
            if rng.random() < 0.25:
                # an inline flag concerns the pattern it is written in, not its neighbours
                r = (rng.choice(["(?i)os$", "(?i)ext"]), rng.choice(["extra", r"ext\.lib"]))
            configs.append((False, ("R", r)))
            cases.append({"tree": tree, "root": "proj", "mp": mp, "configs": configs, "relative": rng.random() < 0.25, "explicit_empty": rng.random() < 0.3,
                          # the same level limit in every configuration of the case (module_path = root_path there)
                          "lim": rng.randint(0, 2) if mp == "proj" and rng.random() < 0.25 else None,
                          # a FILE exclusion pattern that can only match dotted library names (no path contains such text): it concerns
                          # files and directories, the external part of the architecture does not change
                          "fex": ("*__pycache__*", rng.choice(["*ext.lib*", "*os.pa*", "*b.cd*", "*j_ext.m*"])) if rng.random() < 0.3 else ("*__pycache__*",)})
        judge(ctx, s, cases)
        done += len(cases)


def run(ctx: Ctx):
    run_witnesses(ctx)
    s = Stream(ctx, "random trees with internal + external imports x option sets")
    stream_cases(ctx, s, ctx.size(1200, 30000), ctx.rng("c10"))
    s.finish()
    return RULE
