"""C15 - evaluation is pure and independent of order, history and hash seed.
The logic half (re-application, permutation invariance of every list-valued argument) is proved on the model;
the interpreter half is observed here."""
from __future__ import annotations

import json
import os
import re
import random
import subprocess
import sys

from .. import gen
from .. import scan_common as sc
from ..core import Ctx, Stream, digest, pmap
from ..layers_common import impl_layer, layer_rule_ops, make_arch
from ..proto import VERIF, parse_answer, run_driver
from ..rules_common import run_witnesses, split_impl, split_model

RULE = (
    "(i) histories: on one shared evaluable, interleavings of up to 40 evaluations drawn from C01's rule space, C05's layer "
    "rules and C07's diagram rules (rule objects re-applied, and applied to a second architecture in between); modules + "
    "import and hierarchy edges snapshotted before and after; every (verdict, message) compared with the value obtained on "
    "a fresh evaluable, and rule verdicts with PtaModel; 2-5 LayerRule objects built on ONE shared LayeredArchitecture object "
    "(object layers as string, list or chained are_named calls), defined and evaluated in seeded interleavings, each outcome "
    "compared with the same rule alone on a freshly built architecture, the layer definitions listed before and after; (ii) permutations of subjects, objects, object layers, layer "
    "definition order, exclusion patterns; (iii) 8 fresh interpreters with PYTHONHASHSEED=0..7 run the same seeded workload "
    "(rules, layer rules, diagram rules, scans) and their outputs (verdicts and raw messages, sorted module/import sets) "
    "are compared byte-wise; (iv) Path.iterdir wrapped to return entries in seeded shuffled orders: module and import "
    "sets of repeated scans equal. distinct_nontrivial = distinct histories with >= 2 failing evaluations / distinct "
    "permuted cases with a failing verdict."
)


def _raw_rule(ops, ev, rule=None):
    from ..impl import run_rule_ops

    out = run_rule_ops(ops, ev, rule)
    return out[0] + (":" + str(out[1]) if len(out) > 1 else "")


def history_worker(seed):
    """one shared-evaluable history; returns (n_evals, n_fail, problems, model_lines, impl_results)"""
    from ..impl import DiagramRule, LayerRule, Project, Rule, RULE_OPS, graph_snapshot, make_graph
    from ..rules_common import random_cases

    rng = random.Random(seed)
    nodes = gen.random_tree(rng, max_nodes=12, comps=gen.IDENT_ADVERSARIAL)
    while len(nodes) < 4:
        nodes = gen.random_tree(rng, max_nodes=12, comps=gen.IDENT_ADVERSARIAL)
    imps = gen.random_imports(rng, nodes, 10)
    shared = make_graph(nodes, imps)
    other = make_graph(nodes, imps[: len(imps) // 2])
    extra = [n + ".zz" for n in nodes[:2]] + [nodes[0] + "q"]
    nodes2 = [n for n in nodes if rng.random() < 0.8 or n.count(".") == 0] + extra
    nodes2 = list(dict.fromkeys(x for n in nodes2 for x in gen.parents(n) + [n]))
    other2 = make_graph(nodes2, [e for e in imps if e[0] in nodes2 and e[1] in nodes2] + [(extra[0], nodes2[0])] if extra[0] != nodes2[0] else [])
    before = graph_snapshot(shared)
    problems, lines, results = [], [], []
    n = rng.randint(5, 40)
    fails = 0
    kept_rules = []
    for step in range(n):
        kind = rng.random()
        if kind < 0.6:
            # a module rule over this graph's names
            shape = rng.choice(gen.SHAPES)
            sk, ok = rng.choice("NP"), rng.choice("NP")
            subs = rng.sample(nodes, rng.randint(1, 2))
            objs = rng.sample(nodes, rng.randint(1, 2))
            absent = rng.random() < 0.2
            if absent:
                # a name that this architecture does not have (the same few names come back during the history): every
                # evaluation must end in the same lookup error, however often the name has been looked up before
                (subs if rng.random() < 0.5 else objs)[0] = rng.choice(extra)
            case = gen.rule_case(nodes, imps, shape, sk, ok, subs, objs)
            if absent:
                case = dict(case, spec=None)
            ops = case["ops"]
            if rng.random() < 0.35 and not absent:
                # a regex subject (its expansion depends on the architecture it is applied to)
                import re as _re
                base_name = rng.choice(nodes)
                pat = rng.choice([_re.escape(base_name) + ".*", _re.escape(base_name.split(".")[0]) + r"\..*", ".*" + _re.escape(base_name[-1]) + "$"])
                ops = [("mt", None), ("match", pat)] + ops[2:]
                case = dict(case)
                case["ops"] = ops
                case["spec"] = None
                case["mtab"] = [(pat, [m for m in nodes if _re.match(pat, m)])]
            # build the rule object once; apply to shared, maybe to `other`, and again to shared
            r = Rule()
            for op, arg in ops:
                r = RULE_OPS[op](r, arg)
            def apply(rule, ev):
                try:
                    rule.assert_applies(ev)
                    return "PASS"
                except AssertionError as e:
                    return "FAIL:" + str(e)
                except Exception as e:  # noqa: BLE001
                    from ..impl import err_kind
                    return "ERR:" + err_kind(e)
            if rng.random() < 0.3:
                apply(r, other2)      # an architecture with a different module set, before the shared one
            got = apply(r, shared)
            if rng.random() < 0.4:
                apply(r, rng.choice([other, other2]))
            again = apply(r, shared)
            fresh = _raw_rule(ops, make_graph(nodes, imps))
            if got != again:
                problems.append({"what": "re-applying the same rule object changes the outcome", "ops": ops, "first": got, "again": again})
            if got != fresh:
                problems.append({"what": "outcome on the shared evaluable differs from a fresh evaluable", "ops": ops, "shared": got, "fresh": fresh})
            if got.startswith("FAIL"):
                fails += 1
            lines.append(gen.rule_line(case))
            results.append(got.split(":")[0])
            kept_rules.append((r, ops))
        elif kind < 0.8:
            from . import c05

            c = c05.make_case(rng, nodes, imps)
            if c is None:
                continue
            a = impl_layer(c)
            b = impl_layer(c)
            if a != b:
                problems.append({"what": "layer rule outcome differs between two evaluations", "case": str(c)[:500]})
            # on the shared evaluable
            arch = make_arch(c["arch"])
            rr = LayerRule()
            for op, arg in c["lops"]:
                from ..layers_common import LOPS

                rr = rr.based_on(arch) if op == "based" else LOPS[op](rr, arg)
            try:
                rr.assert_applies(shared)
                s_ = "PASS"
            except AssertionError:
                s_ = "FAIL"
                fails += 1
            except Exception as e:  # noqa: BLE001
                s_ = "ERR"
            if s_ != a.split(":")[0].split(" ")[0]:
                problems.append({"what": "layer rule on the shared evaluable differs from a fresh one", "shared": s_, "fresh": a})
        else:
            tops = [n_ for n_ in nodes if n_.count(".") == 1][:4]
            if len(tops) < 2:
                continue
            arrows = [tuple(rng.sample(tops, 2))]
            text = "@startuml\n" + "\n".join(f"[{a}] --> [{b}]" for a, b in arrows) + "\n" + "\n".join(f"[{t}]" for t in tops) + "\n@enduml"
            with Project({"d.puml": text}) as p:
                outs = []
                for ev in (shared, make_graph(nodes, imps)):
                    try:
                        DiagramRule().from_file(p.path("d.puml")).base_module_included_in_module_names().assert_applies(ev)
                        outs.append("PASS")
                    except AssertionError as e:
                        outs.append("FAIL:" + str(e))
                    except Exception as e:  # noqa: BLE001
                        outs.append("ERR:" + type(e).__name__)
            if outs[0] != outs[1]:
                problems.append({"what": "diagram rule on the shared evaluable differs from a fresh one", "outs": outs})
            if outs[0].startswith("FAIL"):
                fails += 1
    # re-apply kept rule objects at the end of the history
    for r, ops in kept_rules[:5]:
        fresh = _raw_rule(ops, make_graph(nodes, imps))
        try:
            r.assert_applies(shared)
            late = "PASS"
        except AssertionError as e:
            late = "FAIL:" + str(e)
        except Exception as e:  # noqa: BLE001
            from ..impl import err_kind
            late = "ERR:" + err_kind(e)
        if late != fresh:
            problems.append({"what": "rule object re-applied at the end of the history differs from a fresh evaluation", "ops": ops, "late": late, "fresh": fresh})
    after = graph_snapshot(shared)
    if before != after:
        problems.append({"what": "evaluating rules changed the evaluable architecture", "before": before, "after": after})
    return n, fails, problems, lines, results


def permutation_worker(seed):
    from ..impl import make_graph

    rng = random.Random(seed)
    nodes = gen.random_tree(rng, max_nodes=12, comps=gen.IDENT_ADVERSARIAL)
    while len(nodes) < 5:
        nodes = gen.random_tree(rng, max_nodes=12, comps=gen.IDENT_ADVERSARIAL)
    imps = gen.random_imports(rng, nodes, 10)
    problems = []
    shape = rng.choice(gen.SHAPES)
    sk, ok = rng.choice("NP"), rng.choice("NP")
    subs = rng.sample(nodes, min(3, len(nodes)))
    objs = rng.sample(nodes, min(3, len(nodes)))
    base = gen.impl_rule(gen.rule_case(nodes, imps, shape, sk, ok, subs, objs))
    fail = base.startswith("FAIL")
    for _ in range(3):
        n2, i2 = nodes[:], imps[:]
        s2, o2 = subs[:], objs[:]
        for l in (n2, i2, s2, o2):
            rng.shuffle(l)
        got = gen.impl_rule(gen.rule_case(n2, i2, shape, sk, ok, s2, o2))
        if got != base:
            problems.append({"what": "rule outcome depends on the order of subjects / objects / modules / imports",
                             "base": gen.rule_line(gen.rule_case(nodes, imps, shape, sk, ok, subs, objs)), "permuted": gen.rule_line(gen.rule_case(n2, i2, shape, sk, ok, s2, o2)),
                             "outcomes": [base, got]})
    # layers: definition order and object order
    from . import c05

    c = c05.make_case(rng, nodes, imps)
    if c:
        a = impl_layer(c)
        c2 = dict(c)
        arch2 = c["arch"][:]
        rng.shuffle(arch2)
        c2["arch"] = [(n, k, (list(reversed(p)) if k == "N" else p)) for n, k, p in arch2]
        lops = []
        for op, arg in c["lops"]:
            lops.append((op, list(reversed(arg)) if isinstance(arg, list) else arg))
        c2["lops"] = lops
        b = impl_layer(c2)
        if a != b:
            problems.append({"what": "layer rule outcome depends on the order of layers / object layers / listed modules", "outcomes": [a, b], "case": str(c)[:800]})
        fail = fail or a.startswith("FAIL")
        # overlapping definitions: a module listed by name in one layer that also matches the regex of another layer.
        # Whatever the outcome is (a verdict or a configuration error), it must not depend on the definition order.
        named = [(n, p) for n, k, p in c["arch"] if k == "N" and p]
        if len(c["arch"]) >= 2 and named:
            ln, mods = rng.choice(named)
            other_layers = [n for n, _, _ in c["arch"] if n != ln]
            lo = rng.choice(other_layers)
            victim = rng.choice(mods)
            arch3 = []
            for n, k, p in c["arch"]:
                if n == lo:
                    own = p if k == "N" else None
                    rx = c05.rx_for((own or []) + [victim]) if k == "N" else "(" + p[:-1] + "|" + re.escape(victim) + ")$"
                    arch3.append((n, "R", rx))
                else:
                    arch3.append((n, k, p))
            c3 = dict(c)
            c3["arch"] = arch3
            c4 = dict(c3)
            c4["arch"] = list(reversed(arch3))
            a3, a4 = impl_layer(c3), impl_layer(c4)
            if a3 != a4:
                problems.append({"what": "layer rule outcome depends on the order in which overlapping layers (a named module that also matches another layer's regex) were defined",
                                 "outcomes": [a3, a4], "arch": arch3, "lops": c["lops"], "nodes": nodes, "imports": imps})
    # nested layer roots: one layer lists a module, another lists one of its sub modules. Whatever the outcome is (the library
    # raises LayerMismatch for modules below both), it must not depend on the order of the definitions.
    nested = [(a, b) for a in nodes for b in nodes if b.startswith(a + ".")]
    if nested:
        a_, b_ = rng.choice(nested)
        rest = [n for n in nodes if not gen.related(n, a_)]
        arch5 = [("L0", "N", [a_]), ("L1", "N", [b_])] + ([("L2", "N", [rng.choice(rest)])] if rest else [])
        names = [l[0] for l in arch5]
        subj = rng.choice(names)
        objs = rng.sample([n for n in names if n != subj], rng.randint(1, len(names) - 1))
        verb, imp, exc, anything = rng.choice(gen.SHAPES)
        lops = layer_rule_ops(verb, imp, exc, subj, objs, anything, obj_as_list=True)
        c5 = {"nodes": nodes, "imps": imps, "arch": arch5, "lops": lops, "spec": None}
        outs = []
        for perm in (arch5, list(reversed(arch5)), arch5[1:] + arch5[:1]):
            c6 = dict(c5)
            c6["arch"] = perm
            outs.append(impl_layer(c6))
        if len(set(outs)) > 1:
            problems.append({"what": "layer rule outcome depends on the order in which nested layers (a module and one of its sub modules in different layers) were defined",
                             "outcomes": outs, "arch": arch5, "lops": lops, "nodes": nodes, "imports": imps})
    return fail, problems


def _layers_listing(arch_obj, names):
    """the layer definitions as the LayeredArchitecture object lists them now"""
    return [(n, [(f.identifier, bool(f.identifier_is_regex)) for f in arch_obj[n]]) for n in names], str(arch_obj)


def _shared_rule_lops(spec):
    verb, imp, exc, anything, subj, objs, form = spec
    lops = layer_rule_ops(verb, imp, exc, subj, objs, anything, obj_as_list=(form != "string"))
    if not anything and form == "chained":
        lops = lops[:-1] + [("named", o) for o in objs]
    return lops


def _build_layer_rule(lops, arch_obj):
    """-> (rule, None) or (None, 'ERR:kind@i')"""
    from ..impl import LayerRule, err_kind
    from ..layers_common import LOPS

    r = LayerRule()
    for i, (op, arg) in enumerate(lops):
        try:
            r = r.based_on(arch_obj) if op == "based" else LOPS[op](r, arg)
        except Exception as e:  # noqa: BLE001
            return None, f"ERR:{err_kind(e)}@{i}"
    return r, None


def _apply_layer_rule(rule, ev):
    from ..impl import err_kind

    try:
        rule.assert_applies(ev)
        return "PASS"
    except AssertionError as e:
        return "FAIL:" + str(e)
    except Exception as e:  # noqa: BLE001
        return "ERR:" + err_kind(e)


def shared_layers_worker(seed):
    """several LayerRule objects built on ONE LayeredArchitecture object (object layers given as a string, as a list or by chained
    are_named calls), defined and evaluated in a seeded interleaving on one shared evaluable; every outcome is compared with
    the same rule built alone on a freshly built LayeredArchitecture and applied to a fresh evaluable.
    Returns (n_evaluations, n_failing, has_chained, problems)"""
    from ..impl import graph_snapshot, make_graph
    from . import c05

    rng = random.Random(seed)
    comps = rng.choice([gen.PLAIN, gen.IDENT_ADVERSARIAL])
    pool = []
    while len(pool) < 3:
        nodes = gen.random_tree(rng, max_nodes=12, comps=comps)
        cand = nodes[:]
        rng.shuffle(cand)
        pool = []
        for c in cand:
            if all(not gen.related(c, d) for d in pool):
                pool.append(c)
    imps = gen.random_imports(rng, nodes, 10)
    k = rng.randint(3, min(4, len(pool)))
    arch = []
    for i in range(k):
        n = rng.randint(1, max(1, min(2, len(pool) - (k - i - 1))))
        mods = [pool.pop() for _ in range(n)]
        arch.append((f"L{i}", "N", mods) if rng.random() < 0.7 else (f"L{i}", "R", c05.rx_for(mods)))
    names = [a[0] for a in arch]
    specs = []
    for _ in range(rng.randint(2, 5)):
        verb, imp, exc, anything = rng.choice(gen.SHAPES)
        subj = rng.choice(names)
        others = [n for n in names if n != subj]
        objs = rng.sample(others, rng.randint(1, len(others)))
        if len(objs) == 1:
            form = rng.choice(["string", "list"])
        else:
            form = rng.choice(["list", "chained", "chained"])
        specs.append((verb, imp, exc, anything, subj, objs, form))
    problems, form_problems = [], []
    evals = fails = 0
    # each rule alone: a LayeredArchitecture of its own, an evaluable of its own
    alone = []
    for spec in specs:
        r, err = _build_layer_rule(_shared_rule_lops(spec), make_arch(arch))
        out = err or _apply_layer_rule(r, make_graph(nodes, imps))
        evals += 1
        alone.append(out)
        if spec[6] == "chained" and not spec[3]:
            r2, err2 = _build_layer_rule(_shared_rule_lops(spec[:6] + ("list",)), make_arch(arch))
            out2 = err2 or _apply_layer_rule(r2, make_graph(nodes, imps))
            evals += 1
            if out2 != out:
                form_problems.append({"what": "layer rule outcome depends on whether its object layers are listed in one are_named([...]) call or in chained are_named calls",
                                 "rule": _shared_rule_lops(spec), "chained": out, "list": out2})
    # the history: one LayeredArchitecture object, one evaluable
    shared_arch = make_arch(arch)
    shared_ev = make_graph(nodes, imps)
    listing0 = _layers_listing(shared_arch, names)
    graph0 = graph_snapshot(shared_ev)
    tokens = [i for i in range(len(specs)) for _ in range(rng.randint(2, 3))]
    mode = rng.random()
    if mode < 0.25:
        tokens.sort()                                                    # define, evaluate (twice), next rule
    elif mode < 0.5:
        tokens = list(range(len(specs))) + rng.sample(tokens, len(tokens))     # all defined up front, then evaluations in any order
    else:
        rng.shuffle(tokens)
    rules = {}
    schedule = []
    for i in tokens:
        if i not in rules:
            rules[i] = _build_layer_rule(_shared_rule_lops(specs[i]), shared_arch)
            schedule.append(("define", i))
            continue
        r, err = rules[i]
        out = err or _apply_layer_rule(r, shared_ev)
        schedule.append(("evaluate", i))
        evals += 1
        if out.startswith("FAIL"):
            fails += 1
        if out != alone[i] and len(problems) < 3:
            problems.append({"what": "outcome of a layer rule depends on which other rules were defined / evaluated before it on the same LayeredArchitecture object",
                             "rule": _shared_rule_lops(specs[i]), "alone_on_a_fresh_architecture": alone[i], "in_the_history": out,
                             "history_so_far": list(schedule), "rule_index": i})
    problems += form_problems[:1]
    if _layers_listing(shared_arch, names) != listing0:
        problems.append({"what": "defining / evaluating layer rules changed the layer definitions of the LayeredArchitecture they are based on",
                         "before": listing0, "after": _layers_listing(shared_arch, names)})
    if graph_snapshot(shared_ev) != graph0:
        problems.append({"what": "evaluating layer rules changed the evaluable architecture"})
    for p in problems:
        p.update({"nodes": nodes, "imports": imps, "layers": arch, "rules": [_shared_rule_lops(s_) for s_ in specs], "schedule": schedule})
    return evals, fails, any(s_[6] == "chained" and not s_[3] for s_ in specs), problems


class _ShuffledScandir:
    def __init__(self, it, r):
        with it:
            self._l = list(it)
        r.shuffle(self._l)
        self._i = iter(self._l)

    def __iter__(self):
        return self

    def __next__(self):
        return next(self._i)

    def __enter__(self):
        return self

    def __exit__(self, *a):
        return False

    def close(self):
        pass


class _shuffled_listing:
    """every directory listing of this process in a seeded shuffled order (r is None: the operating system's order)"""

    def __init__(self, r):
        self.r = r

    def __enter__(self):
        import os
        from pathlib import Path

        if self.r is None:
            return self
        r = self.r
        self.saved = (Path.iterdir, os.listdir, os.scandir)
        o_iter, o_list, o_scan = self.saved

        def iterdir(p):
            l = list(o_iter(p))
            r.shuffle(l)
            return iter(l)

        def listdir(*a, **k):
            l = list(o_list(*a, **k))
            r.shuffle(l)
            return l

        def scandir(*a, **k):
            return _ShuffledScandir(o_scan(*a, **k), r)

        Path.iterdir, os.listdir, os.scandir = iterdir, listdir, scandir
        return self

    def __exit__(self, *a):
        import os
        from pathlib import Path

        if self.r is not None:
            Path.iterdir, os.listdir, os.scandir = self.saved
        return False


def scan_order_worker(seed):
    """shuffled directory enumeration + permuted exclusion patterns"""
    from pathlib import Path

    rng = random.Random(seed)
    # twins (x.py next to x/) are generated here: both carry the same module name, so which one is met first must not matter
    tree = sc.gen_tree(rng, comps=["a", "b", "gen", "gen_x", "tests", "t2", "m"], shadow=True)
    sc.fill_sources(rng, tree, externals=True)
    names = sorted({p.split("/")[-1] for p in tree if "/" in p})
    pats = ["*" + rng.choice(names) for _ in range(rng.randint(1, 3))] + ["*__pycache__*"]
    problems = []
    outs = []
    with sc.write_project(tree) as proj:
        for k in range(4):
            r2 = random.Random(seed * 31 + k)
            ps = pats[:]
            r2.shuffle(ps)
            with _shuffled_listing(r2):
                outs.append(sc.real_scan(proj, "proj", "proj", exclusions=tuple(ps), exclude_external_libraries=(k % 2 == 0)))
    if outs[0] != outs[2] or outs[1] != outs[3]:
        problems.append({"what": "two scans of the same tree differ (directory enumeration order / exclusion pattern order)", "files": dict(tree),
                         "patterns": pats, "outs": outs})
    # the same under a level limit (no twins here: with a limit a twin pair is outside C09's domain): several imports - also
    # ones that name no module - flatten onto one pair of modules, and which file is met first must not matter.  Every way of
    # listing a directory is shuffled (Path.iterdir, os.listdir, os.scandir and with it os.walk).
    tree2 = sc.gen_tree(rng, comps=["a", "b", "core", "db", "m", "util"], extra_files=False)
    sc.fill_sources(rng, tree2, externals=True)
    dirs2 = sorted(p for p, v in tree2.items() if v is None)
    lim = rng.randint(1, 2)
    mp2 = "proj" if rng.random() < 0.7 else rng.choice(dirs2)
    louts = []
    with sc.write_project(tree2) as proj:
        for k in range(3):
            with _shuffled_listing(random.Random(seed * 17 + k) if k else None):
                louts.append(sc.real_scan(proj, "proj", mp2, level_limit=lim, exclude_external_libraries=(seed % 3 != 0)))
    # external libraries included with an exclusion pattern that matches a SUB MODULE of a library only, the library and the sub
    # module imported from different files: which file is met first must not decide which imports survive
    tree4 = dict(tree2)
    pys = sorted(p for p in tree4 if p.endswith(".py"))
    if len(pys) >= 2:
        f1, f2 = rng.sample(pys, 2)
        tree4[f1] += "import ext.lib\nimport os\n"
        tree4[f2] += "import ext.lib.x\nimport os.path\n"
        eouts = []
        epat = rng.choice([r"ext\.lib\.x", r"os\.path"])
        with sc.write_project(tree4) as proj:
            for k in range(3):
                with _shuffled_listing(random.Random(seed * 19 + k) if k else None):
                    eouts.append(sc.real_scan(proj, "proj", "proj", exclude_external_libraries=False, regex_external_exclusions=(epat,)))
        if len(set(eouts)) > 1:
            problems.append({"what": "scans with an external exclusion pattern differ with the directory enumeration order", "files": dict(tree4),
                             "pattern": epat, "outs": eouts})
    if len(set(louts)) > 1:
        problems.append({"what": "two level-limited scans of the same tree differ (directory enumeration order)", "files": dict(tree2),
                         "module_path": mp2, "level_limit": lim, "outs": louts})
    # what was scanned in between must not matter: a level-limited scan that excludes a directory, then a full scan of the same
    # tree without exclusions (which gets to know the modules of that directory), then the first scan again. The directory has a
    # name no other case of this process uses.
    u = f"gen{seed % 1000003}"
    tree3 = {"proj": None, "proj/__init__.py": "", "proj/web": None, "proj/web/__init__.py": "", "proj/web/v.py": f"import proj.db.{u}.schema\nimport proj.db.{u}\n",
             "proj/db": None, "proj/db/__init__.py": "", f"proj/db/{u}": None, f"proj/db/{u}/__init__.py": "", f"proj/db/{u}/schema.py": "import proj.web.v\n"}
    with sc.write_project(tree3) as proj:
        kw = {"exclusions": (f"*{u}*",), "level_limit": rng.randint(1, 2)}
        first = sc.real_scan(proj, "proj", "proj", **kw)
        sc.real_scan(proj, "proj", "proj", exclusions=())
        again = sc.real_scan(proj, "proj", "proj", **kw)
    if first != again:
        problems.append({"what": "two scans of the same tree with the same arguments differ when another scan was made in between", "files": dict(tree3),
                         "options": {k: list(v) if isinstance(v, tuple) else v for k, v in kw.items()}, "first": first, "again": again})
    # a package reachable under two names: a directory link to a sibling directory of the same tree (no cycle). Both names are
    # scanned, whichever the file system lists first.
    sub = sorted(p for p, v in tree2.items() if v is None and p != "proj")
    if sub:
        target = rng.choice(sub)
        parent = target.rsplit("/", 1)[0]
        link = parent + "/" + rng.choice(["aa_link", "zz_link"])
        if link not in tree2 and link + ".py" not in tree2:
            souts = []
            with sc.write_project(tree2) as proj:
                os.symlink(proj.path(target), proj.path(link))
                for k in range(3):
                    with _shuffled_listing(random.Random(seed * 13 + k) if k else None):
                        souts.append(sc.real_scan(proj, "proj", "proj"))
            if len(set(souts)) > 1:
                problems.append({"what": "scans of a tree with a directory link to a sibling package differ with the directory enumeration order",
                                 "files": dict(tree2), "link": link, "target": target, "outs": souts})
            elif not souts[0].startswith("ERR") and sc.module_of(link) + "," not in souts[0] + ",":
                problems.append({"what": "a package reachable through a directory link is not scanned under the link's name", "files": dict(tree2),
                                 "link": link, "target": target, "outs": souts[:1]})
    # proper regular expressions as exclusions, with capture groups and a back-reference: every listing order must exclude the same files
    rx = [r".*/(\w+)/\1\.py$", r".*/(gen|tests)(_\w+)?$", r".*/" + re.escape(rng.choice(names)) + r"$"]
    routs = []
    with sc.write_project(tree) as proj:
        for perm in (rx, rx[::-1], rx[1:] + rx[:1]):
            routs.append(sc.real_scan(proj, "proj", "proj", exclusions=(), regex_exclusions=tuple(perm)))
    if len(set(routs)) > 1:
        problems.append({"what": "the scan depends on the order in which regex_exclusions were listed", "files": dict(tree), "patterns": rx, "outs": routs})
    return problems


def hashseed_workload(seed, n):
    """deterministic workload whose printed result must not depend on PYTHONHASHSEED"""
    from ..impl import make_graph, run_rule_ops
    from . import c05, c07

    rng = random.Random(seed)
    out = []
    for _ in range(n):
        nodes = gen.random_tree(rng, max_nodes=12, comps=gen.IDENT_ADVERSARIAL)
        if len(nodes) < 4:
            continue
        imps = gen.random_imports(rng, nodes, 10)
        shape = rng.choice(gen.SHAPES)
        case = gen.rule_case(nodes, imps, shape, rng.choice("NP"), rng.choice("NP"), rng.sample(nodes, 2), rng.sample(nodes, 2))
        r = run_rule_ops(case["ops"], make_graph(nodes, imps))
        out.append(list(r))
        c = c05.make_case(rng, nodes, imps)
        if c:
            out.append(impl_layer(c))
    for _ in range(max(1, n // 10)):
        d = c07.make_case(rng)
        out.append(c07._impl(d))
    # diagrams outside the documented subset that the parser accepts or rejects: one alias declared for two components.
    # Whatever the parser does with them, it must do the same under every hash seed.
    from . import c06

    for _ in range(max(2, n // 10)):
        a, b, c_ = rng.sample(["A", "B", "core", "api", "db", "svc", "util"], 3)
        lines = [f"[{a}] as x", f"[{b}] as x", rng.choice([f"x --> [{c_}]", f"[{c_}] <-- x", f"[{c_}] -> x"])]
        rng.shuffle(lines)
        out.append(c06.impl_parse("@startuml\n" + "\n".join(lines) + "\n@enduml"))
    for _ in range(max(1, n // 20)):
        tree = sc.gen_tree(rng)
        sc.fill_sources(rng, tree, externals=True)
        with sc.write_project(tree) as proj:
            out.append(sc.real_scan(proj, "proj", "proj", exclude_external_libraries=False))
    return out


def run(ctx: Ctx):
    run_witnesses(ctx)
    quick = ctx.quick()
    base = ctx.rng("c15").randrange(1 << 30)

    s = Stream(ctx, "(i) histories on a shared evaluable")
    res = pmap(history_worker, [base + i for i in range(ctx.size(300, 20000))], ctx.jobs, chunk=10)
    lines, results = [], []
    for j, (n, fails, problems, ls, rs) in enumerate(res):
        s.evaluations += n
        s.count("histories")
        if fails >= 2:
            s.nontrivial.add(j)
        for p in problems[:1]:
            p.update({"kind": "property-violation", "history_seed": base + j, "python": f"from harness.props.c15 import history_worker; print(history_worker({base + j})[2])"})
            ctx.violations.append(p)
        lines += ls
        results += rs
    # the same evaluations through the model (the model is pure by construction: this ties verdicts, not purity)
    ans = run_driver(lines)
    for line, got, a in zip(lines, results, ans):
        m = split_model(parse_answer(a).get("M", "?"))[0].split(":")[0]
        if m != got and len(ctx.broken) < 5:
            ctx.broken.append({"kind": "correspondence-broken", "what": "verdict on the shared evaluable differs from the model", "theorem": "Pta.C15.reapply",
                               "line": line, "impl": got, "model": m})
    s.finish()
    if ctx.violations:
        ctx.violations[:] = ctx.violations[:3]
        return RULE

    s = Stream(ctx, "(ii) permutations of list-valued arguments")
    res = pmap(permutation_worker, [base + 7919 * i for i in range(ctx.size(1500, 30000))], ctx.jobs, chunk=50)
    for j, (fail, problems) in enumerate(res):
        s.evaluations += 1
        if fail:
            s.nontrivial.add(j)
        for p in problems[:1]:
            p.update({"kind": "property-violation", "seed": base + 7919 * j})
            ctx.violations.append(p)
    s.finish()

    s = Stream(ctx, "(i''') several LayerRule objects on ONE shared LayeredArchitecture object (object layers as string / list / chained are_named "
                    "calls), defined and evaluated in seeded interleavings, vs each rule alone on a freshly built architecture")
    res = pmap(shared_layers_worker, [base + 15485863 * i + 11 for i in range(ctx.size(500, 10000))], ctx.jobs, chunk=25)
    for j, (n_ev, fails, chained, problems) in enumerate(res):
        s.evaluations += n_ev
        s.count("histories")
        if chained:
            s.count("histories-with-a-chained-rule")
        if fails >= 1 and chained:
            s.nontrivial.add(j)
        for p in problems[:1]:
            sd = base + 15485863 * j + 11
            p.update({"kind": "property-violation", "seed": sd,
                      "python": f"from harness.props.c15 import shared_layers_worker; print(shared_layers_worker({sd})[3])"})
            ctx.violations.append(p)
    s.finish()

    s = Stream(ctx, "(iv) shuffled directory enumeration and exclusion pattern order")
    res = pmap(scan_order_worker, [base + 104729 * i for i in range(ctx.size(120, 6000))], ctx.jobs, chunk=5)
    for j, problems in enumerate(res):
        s.evaluations += 4
        s.nontrivial.add(j)
        for p in problems[:1]:
            p.update({"kind": "property-violation", "seed": base + 104729 * j})
            ctx.violations.append(p)
    s.finish()

    if not ctx.violations:
        # diagram rule objects: applied in the other mode first, re-configured with another base module and applied again
        from . import c07

        s = Stream(ctx, "(i'') one DiagramRule object re-configured (other base module, other mode) and applied again vs a fresh object")
        rng7 = ctx.rng("c15-diagrams")
        c07.judge(ctx, s, [c07.make_case(rng7, gen.PLAIN, absent=False) for _ in range(ctx.size(1500, 30000))])
        s.finish()
    if not ctx.violations:
        from ..rules_common import reuse_stream

        s = Stream(ctx, "(i') one rule object applied to a first architecture and then to a second one (larger then smaller and smaller then "
                        "larger; names, regexes, 'anything' rules over a module and its sub module) vs a fresh rule object")
        reuse_stream(ctx, s, ctx.size(1000, 15000))
        s.finish()

    s = Stream(ctx, "(iii) 8 interpreters with PYTHONHASHSEED = 0..7")
    n = ctx.size(150, 1500)
    procs = []
    for hs in range(8):
        env = dict(os.environ, PYTHONHASHSEED=str(hs))
        procs.append(subprocess.Popen([sys.executable, "-m", "harness.props.c15", str(base), str(n)], cwd=VERIF, env=env, stdout=subprocess.PIPE, text=True))
    outs = [p.communicate()[0] for p in procs]
    s.evaluations += 8 * n
    for k, o in enumerate(outs):
        s.nontrivial.add(k)
    if any(o != outs[0] for o in outs) or not outs[0]:
        k = next((k for k, o in enumerate(outs) if o != outs[0]), 0)
        a, b = outs[0].split("\n"), outs[k].split("\n")
        idx = next((i for i in range(min(len(a), len(b))) if a[i] != b[i]), None)
        ctx.violations.append({"kind": "property-violation", "what": f"workload output depends on PYTHONHASHSEED (0 vs {k})" if outs[0] else "hash-seed workload produced no output",
                               "first_difference": [a[idx][:1500], b[idx][:1500]] if idx is not None else None,
                               "replay_cmd": f"PYTHONHASHSEED={k} /venv/bin/python -m harness.props.c15 {base} {n}"})
    s.finish()
    ctx.violations[:] = ctx.violations[:3]
    return RULE


if __name__ == "__main__":
    for item in hashseed_workload(int(sys.argv[1]), int(sys.argv[2])):
        print(json.dumps(item, sort_keys=True))
