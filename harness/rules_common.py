"""Shared machinery for the rule-level properties (C01, C03, C11, C12, C13, C14, C15)."""
from __future__ import annotations

import itertools
import os

from . import gen
from .core import Ctx, Stream, digest, load_known, pmap
from .proto import parse_answer, run_driver


# --------------------------------------------------------------------------------------- witnesses
def run_witnesses(ctx: Ctx):
    """Replay the witnesses of every known finding of this property on the implementation."""
    from .findings import WITNESSES, run_witness

    for entry in load_known():
        if entry["property"] != ctx.prop:
            continue
        fid = entry["id"]
        if fid not in WITNESSES:
            continue
        res = run_witness(fid)
        if entry["status"] == "open":
            if res is not None:
                ctx.known_lines.append(f"KNOWN-FINDING: property={ctx.prop} {fid} {entry['what']}")
            else:
                ctx.notes.append(f"open finding {fid} no longer reproduces on its witness")
        else:  # fixed: suppresses nothing
            if res is not None:
                ctx.violations.append(
                    {
                        "kind": "property-violation",
                        "what": f"regression of fixed finding {fid}: {res}",
                        "witness": fid,
                        "replay_cmd": f"/venv/bin/python -m harness.findings {fid}",
                        "finding": entry,
                    }
                )
    return ctx


# --------------------------------------------------------------------------------------- case sets
def corpus_cases():
    """Every shape x filter kinds on two canonical graphs (runs first)."""
    out = []
    g1 = (["p", "p.a", "p.a.x", "p.a.y", "p.b", "p.b.z", "p.c", "q", "q.r"],
          [("p.a.x", "p.b.z"), ("p.a", "q"), ("p.c", "p.a.y"), ("q.r", "p.b"), ("p.a.x", "p.a.y")])
    g2 = (["a", "a.x", "a.y", "b", "b.x", "c"], [("a.x", "b.x"), ("b", "c"), ("c", "a.y")])
    for nodes, imps in (g1, g2):
        tops = [n for n in nodes if any(m.startswith(n + ".") for m in nodes)]
        for shape in gen.SHAPES:
            for sk, ok in itertools.product("NP", "NP"):
                pool = tops if "P" in (sk, ok) else nodes
                for subs, objs in gen.strict_batches(pool, 1, 1)[:6]:
                    out.append(gen.rule_case(nodes, imps, shape, sk, ok, subs, objs))
    return out


def exhaustive_cases_iter(max_nodes, max_imports=None, batch=(1, 1), rng=None, per_tree_batches=None):
    """Every WF import relation over every tree shape with <= max_nodes nodes x all shapes x filter
    kinds x strict batches (a generator: the thorough scopes have millions of cases)."""
    for nodes in gen.tree_shapes(max_nodes):
        if len(nodes) < 2:
            continue
        pairs = gen.wf_pairs(nodes)
        batches = gen.strict_batches(nodes, batch[0], batch[1], per_tree_batches, rng)
        if not batches:
            continue
        kmax = len(pairs) if max_imports is None else min(max_imports, len(pairs))
        for k in range(0, kmax + 1):
            for imps in itertools.combinations(pairs, k):
                for subs, objs in batches:
                    for shape in gen.SHAPES:
                        for sk, ok in (("N", "N"), ("N", "P"), ("P", "N"), ("P", "P")):
                            yield gen.rule_case(nodes, list(imps), shape, sk, ok, subs, objs)


def exhaustive_cases(max_nodes, max_imports=None, batch=(1, 1), rng=None, per_tree_batches=None):
    return list(exhaustive_cases_iter(max_nodes, max_imports, batch, rng, per_tree_batches))


def random_cases(rng, n, comps=gen.PLAIN, strict=True, max_nodes=14, max_imports=12, wf=True):
    out = []
    guard = 0
    while len(out) < n and guard < 50 * n:
        guard += 1
        nodes = gen.random_tree(rng, max_nodes=max_nodes, max_depth=4, comps=comps)
        if len(nodes) < 3:
            continue
        imps = gen.random_imports(rng, nodes, max_imports, wf=wf)
        shape = rng.choice(gen.SHAPES)
        sk, ok = rng.choice("NP"), rng.choice("NP")
        ns, no = rng.randint(1, 3), rng.randint(1, 3)
        if strict:
            subs = []
            pool = nodes[:]
            rng.shuffle(pool)
            chosen = []
            for c in pool:
                if all(not gen.related(c, d) for d in chosen):
                    chosen.append(c)
                if len(chosen) >= ns + no:
                    break
            if len(chosen) < 2:
                continue
            ns = min(ns, len(chosen) - 1)
            subs, objs = chosen[:ns], chosen[ns : ns + no]
        else:
            subs = rng.sample(nodes, min(ns, len(nodes)))
            objs = rng.sample(nodes, min(no, len(nodes)))
        out.append(gen.rule_case(nodes, imps, shape, sk, ok, subs, objs))
    return out


def nontrivial(case) -> bool:
    """at least one import with an end inside a subject's sub tree"""
    subs = [n for _, n in case["spec"]["ss"]] if case.get("spec") else []
    for u, v in case["imps"]:
        for s in subs:
            if gen.is_desc(u, s) or gen.is_desc(v, s):
                return True
    return False


# --------------------------------------------------------------------------------------- evaluation
def evaluate(ctx: Ctx, cases):
    """Returns list of (case, impl_str, answer_dict)."""
    impl = pmap(gen.impl_rule, cases, ctx.jobs)
    ans = run_driver([gen.rule_line(c) for c in cases])
    return [(c, i, parse_answer(a)) for c, i, a in zip(cases, impl, ans)]


def split_impl(s: str):
    """'FAIL:items I=5' -> ('FAIL', 'items', '5')"""
    body, _, idx = s.rpartition(" I=")
    if body.startswith("FAIL:"):
        return "FAIL", body[5:], idx
    return body, "", idx


def _atoms(items: str):
    """report items -> set of atoms: an import, or one (subject, object) pair of a 'does not import' line (Bridge/Abs.lean: Item.atoms)"""
    out = set()
    for it in items.split(";"):
        if not it:
            continue
        f = it.split("|")
        if f[0] == "imp":
            out.add(("imp", f[1], f[2]))
        elif f[0] == "miss":
            for o in f[3].split(","):
                out.add(("miss", f[1], f[2], o))
        else:
            out.add(tuple(f))
    return out


def split_model(v: str):
    if v.startswith("FAIL:"):
        return "FAIL", v[5:]
    return v, ""


def shrink_rule_case(case, still_fails):
    """Delta-debug imports, then unmentioned leaf nodes."""
    cur = dict(case)
    changed = True
    while changed:
        changed = False
        for i in range(len(cur["imps"])):
            cand = dict(cur)
            cand["imps"] = cur["imps"][:i] + cur["imps"][i + 1 :]
            if still_fails(cand):
                cur = cand
                changed = True
                break
        if changed:
            continue
        mentioned = set()
        for op, arg in cur["ops"]:
            if isinstance(arg, list):
                mentioned.update(arg)
            elif isinstance(arg, str):
                mentioned.add(arg)
        used = {x for p in cur["imps"] for x in p} | mentioned
        for n in list(cur["nodes"]):
            if n in used or any(m.startswith(n + ".") for m in cur["nodes"]):
                continue
            cand = dict(cur)
            cand["nodes"] = [m for m in cur["nodes"] if m != n]
            if still_fails(cand):
                cur = cand
                changed = True
                break
    return cur


def python_snippet(case) -> str:
    ops = case["ops"]
    chain = "Rule()"
    names = {"mt": "modules_that", "named": "are_named", "sub": "are_sub_modules_of", "match": "have_name_matching",
             "contain": "have_name_containing", "should": "should", "only": "should_only", "not": "should_not",
             "imp": "import_modules_that", "by": "be_imported_by_modules_that", "impx": "import_modules_except_modules_that",
             "byx": "be_imported_by_modules_except_modules_that", "impany": "import_anything", "byany": "be_imported_by_anything"}
    for op, arg in ops:
        chain += f".{names[op]}({'' if arg is None else repr(arg)})"
    return (
        "from harness.impl import make_graph, Rule\n"
        f"g = make_graph({case['nodes']!r}, {case['imps']!r}, {case.get('lim')!r})\n"
        f"{chain}.assert_applies(g)\n"
    )


def judge_rule_stream(ctx: Ctx, stream: Stream, results, aspect: str, whole_space: bool = False):
    """aspect 'verdict' (C01) or 'report' (C03). Adds violations / broken / drift to ctx."""
    for case, impl, ans in results:
        stream.evaluations += 1
        icls, iitems, iidx = split_impl(impl)
        mcls, mitems = split_model(ans.get("M", "?"))
        scls, sitems = split_model(ans.get("S", "NA"))
        dom = ans.get("D", "-")
        # oracle domain: strict rules (Pta.C01.verdict_spec), and - related names allowed - plain should / should_not rules
        # whose subjects and objects are all given by name (only 'edge' questions are asked; Pta.C01.verdict_spec_plain_named)
        sp = case.get("spec") or {}
        plain_named = bool(sp) and sp.get("sx") == "0" and sp.get("sv") in ("should", "not") and sp.get("sa") != "1" \
            and all(k == "N" for k, _ in sp.get("ss", []) + sp.get("so", []))
        exact_dom = dom[:3] == "wsn" or (plain_named and len(dom) >= 3 and dom[0] == "w" and dom[2] == "n")
        # the widest oracle domain (Pta.C01.verdict_spec_parentFree / report_spec_parentFree): related names allowed; there the
        # report is compared as a set of ATOMS (imports, and (subject, object) pairs of 'does not import' lines)
        wide_dom = len(dom) >= 4 and dom[0] == "w" and dom[2] == "n" and dom[3] == "p"
        in_domain = exact_dom or wide_dom

        def same_report(x, y, exact=exact_dom):
            return x == y if exact else _atoms(x) == _atoms(y)
        stream.count(f"impl:{icls.split(':')[0]}")
        stream.count("in-domain" if in_domain else "out-of-domain")
        if nontrivial(case) and in_domain:
            stream.nontrivial.add(digest((case["nodes"], case["imps"], case["ops"])))
        if len(ctx.samples) < 4 and in_domain and icls == "FAIL":
            ctx.samples.append({"line": gen.rule_line(case), "impl": impl, "model": ans})

        # 1. the theorem's statement, re-evaluated: M = S on the domain (sanity of my own machinery)
        if in_domain and (mcls != scls or (mcls == "FAIL" and not same_report(mitems, sitems))):
            from .core import InfraError

            raise InfraError(f"model and specification disagree inside the domain (theorem statement wrong?): {gen.rule_line(case)} -> {ans}")

        # 2. property on the implementation, via S
        prop_fails = False
        if in_domain:
            if aspect == "verdict":
                prop_fails = icls != scls
            else:
                prop_fails = icls == "FAIL" and scls == "FAIL" and not same_report(iitems, sitems)
        if prop_fails:
            def still_fails(c, aspect=aspect):
                (c2, i2, a2), = evaluate(Ctx(ctx.prop, ctx.tier, ctx.seed, jobs=1), [c])
                if a2.get("D") != ans.get("D"):
                    return False
                ic, ii, _ = split_impl(i2)
                sc, si = split_model(a2.get("S", "NA"))
                return ic != sc if aspect == "verdict" else (ic == "FAIL" and sc == "FAIL" and not same_report(ii, si))

            small = shrink_rule_case(case, still_fails)
            (c2, i2, a2), = evaluate(Ctx(ctx.prop, ctx.tier, ctx.seed, jobs=1), [small])
            ctx.violations.append(
                {
                    "kind": "property-violation",
                    "what": f"implementation {aspect} differs from the documented semantics",
                    "line": gen.rule_line(small),
                    "impl": i2,
                    "model": a2.get("M"),
                    "spec": a2.get("S"),
                    "python": python_snippet(small),
                    "original_line": gen.rule_line(case),
                }
            )
            if len(ctx.violations) >= 5:
                return
            continue

        # 3. correspondence impl = M (verdict class, error kind, raising index; items for FAIL)
        same = icls == mcls and (icls != "FAIL" or iitems == mitems) and (not icls.startswith("ERR") or iidx == ans.get("I"))
        if not same:
            rec = {
                "kind": "correspondence-broken",
                "what": "correspondence impl = PtaModel.assertApplies (rule stream)",
                "theorem": "Pta.C01.* / Pta.C03.* are statements about PtaModel.assertApplies",
                "line": gen.rule_line(case),
                "impl": impl,
                "model": ans.get("M"),
                "model_index": ans.get("I"),
                "python": python_snippet(case),
            }
            if in_domain or whole_space:
                ctx.broken.append(rec)
            else:
                ctx.drift.append(rec)


# --------------------------------------------------------------------------------------- re-used rule objects
def impl_reuse(case) -> str:
    """ONE rule object built from the ops, applied to a first architecture and then to the case's architecture; the
    canonical outcome of the SECOND application (same format as gen.impl_rule)."""
    import warnings

    from .impl import RULE_OPS, Rule, err_kind, make_graph, parse_message

    g1 = make_graph(case["nodes1"], case["imps1"])
    g2 = make_graph(case["nodes"], case["imps"])
    r = Rule()
    for i, (op, arg) in enumerate(case["ops"]):
        try:
            with warnings.catch_warnings():
                warnings.simplefilter("ignore")
                r = RULE_OPS[op](r, arg)
        except Exception as e:  # noqa: BLE001
            return f"ERR:{err_kind(e)} I={i}"
    n = len(case["ops"])
    try:
        r.assert_applies(g1)
    except Exception:  # noqa: BLE001
        pass
    try:
        r.assert_applies(g2)
    except AssertionError as e:
        return "FAIL:" + ";".join(parse_message(str(e))) + f" I={n}"
    except Exception as e:  # noqa: BLE001
        return f"ERR:{err_kind(e)} I={n}"
    return f"PASS I={n}"


def reuse_cases(rng, n, comps=gen.IDENT_ADVERSARIAL):
    """rules with a regex (or name) specification; a first architecture that differs from the second one in the modules
    the regex matches (a matching leaf module removed / added) and in its imports"""
    import re as _re

    out = []
    for c in random_cases(rng, 3 * n, comps=comps, strict=False, max_nodes=12, max_imports=10):
        if len(out) >= n:
            break
        nodes, imps = c["nodes"], c["imps"]
        positions = [i for i, (op, arg) in enumerate(c["ops"]) if isinstance(arg, list)]
        if not positions:
            continue
        ops = list(c["ops"])
        tab = None
        if rng.random() < 0.8:
            i = rng.choice(positions)
            base = rng.choice(ops[i][1])
            pat = rng.choice([_re.escape(base) + r"(\..*)?$", _re.escape(base.split(".")[0]) + r"\..*", _re.escape(base[: max(1, len(base) - 1)]) + ".*"])
            if rng.random() < 0.35:
                # shapes that match a package but not what lies below it without ending in `$` (\Z, `$` inside a group, look-ahead)
                pat = rng.choice([_re.escape(base) + r"\Z", "(" + _re.escape(base) + "$)|(zz_none$)", "(?!" + _re.escape(base) + r"\.)" + _re.escape(base), gen.odd_regex(rng, nodes)])
            ops[i] = ("match", pat)
            tab = [(pat, [m for m in nodes if _re.match(pat, m)])]
            matched = set(tab[0][1])
        else:
            matched = set(nodes)
        # first architecture: drop some matching leaf modules (and their imports), or some imports
        leaves = [m for m in nodes if m in matched and not any(x.startswith(m + ".") for x in nodes)]
        drop = set(rng.sample(leaves, min(len(leaves), rng.randint(0, 2))))
        nodes1 = [m for m in nodes if m not in drop]
        if len(nodes1) < 2:
            continue
        imps1 = [e for e in imps if e[0] not in drop and e[1] not in drop]
        if rng.random() < 0.5 and imps1:
            imps1 = imps1[: len(imps1) // 2]
        case = {"nodes": nodes, "imps": imps, "lim": None, "ops": ops, "spec": None, "nodes1": nodes1, "imps1": imps1}
        if rng.random() < 0.4:
            # the other way round: first the larger architecture, then the one in which some named / matched modules are
            # missing - the second application must look every name up again (lookup error or no-match error like a fresh rule)
            case["nodes"], case["imps"], case["nodes1"], case["imps1"] = nodes1, imps1, nodes, imps
            if tab:
                tab = [(tab[0][0], [m for m in nodes1 if _re.match(tab[0][0], m)])]
        if tab:
            case["mtab"] = tab
        out.append(case)
        # an 'anything' rule over a module and one of its sub modules (the alias conversion drops the sub module and remembers
        # it), applied first where both exist and then where the sub module is missing
        if rng.random() < 0.25:
            parents = [m for m in nodes if any(x.startswith(m + ".") for x in nodes)]
            if parents:
                x = rng.choice(parents)
                below = [m for m in nodes if m.startswith(x + ".") and not any(y.startswith(m + ".") for y in nodes)]
                if below:
                    d = rng.choice(below)
                    subs = [x, d] if rng.random() < 0.5 else [d, x]
                    ops2 = [("mt", None), ("named", subs), ("not", None), (rng.choice(["impany", "byany"]), None)]
                    n2 = [m for m in nodes if m != d]
                    i2 = [e for e in imps if d not in e]
                    if len(n2) >= 2:
                        out.append({"nodes": n2, "imps": i2, "lim": None, "ops": ops2, "spec": None, "nodes1": nodes, "imps1": imps})
    return out


def reuse_stream(ctx: Ctx, stream: Stream, n: int):
    """the outcome of a rule must not depend on which architectures the same rule object was applied to before"""
    cases = reuse_cases(ctx.rng("reuse"), n)
    reused = pmap(impl_reuse, cases, ctx.jobs)
    fresh = pmap(gen.impl_rule, cases, ctx.jobs)
    ans = run_driver([gen.rule_line(c) for c in cases])
    for c, a, b, an in zip(cases, reused, fresh, ans):
        stream.evaluations += 1
        stream.count("reuse:" + a.split(":")[0].split(" ")[0])
        if c["nodes1"] != c["nodes"]:
            stream.nontrivial.add(digest((c["nodes"], c["imps"], c["ops"], c["nodes1"])))
        if a != b:
            ctx.violations.append({"kind": "property-violation",
                                   "what": "a rule object that was applied to another architecture before gives a different outcome than a fresh rule object",
                                   "line": gen.rule_line(c), "first_architecture": {"nodes": c["nodes1"], "imports": c["imps1"]},
                                   "reused": a, "fresh": b, "model": parse_answer(an).get("M")})
            if len(ctx.violations) >= 3:
                return


# --------------------------------------------------------------------------------------- partial names (deprecated form)
def _safe_matches(rx, nodes):
    """modules a pattern produced by the LIBRARY's converter matches; a pattern that is not even a valid regular
    expression (a converter that stopped escaping) matches nothing here - the real rule then fails in its own way and the
    comparison with the expansion reports it"""
    import re as _re

    try:
        return [m for m in nodes if _re.match(rx, m)]
    except _re.error:
        return []


def partial_name_stream(ctx: Ctx, stream: Stream, n: int):
    """have_name_containing(frag) must behave like naming the modules the GLOB MEANING of frag selects (literal text with an
    optional leading/trailing *, every other character - dots included - literal), and raise the no-match error when a
    fragment of the batch selects nothing. The expected selection is computed here from the documented meaning, not by
    the library's converter."""
    import re as _re

    from pytestarch.utils.partial_match_to_regex_converter import convert_partial_match_to_regex as conv

    from .scan_common import glob_spec

    rng = ctx.rng("partial-names")
    pairs = []
    for c in random_cases(rng, 3 * n, comps=gen.ADVERSARIAL, strict=False, max_nodes=12, max_imports=10):
        if len(pairs) >= n:
            break
        nodes = c["nodes"]
        positions = [i for i, (op, arg) in enumerate(c["ops"]) if isinstance(arg, list)]
        if not positions:
            continue
        i = rng.choice(positions)
        base = rng.choice(nodes)
        tail = ".".join(base.split(".")[-2:])
        frags = [rng.choice([base, "*" + tail, "*." + base.split(".")[-1], base.split(".")[0] + ".*", "*" + tail[1:] + "*", tail.replace(".", "?")])]
        if rng.random() < 0.25:
            # a * that is neither the first nor the last character is literal text (only ONE leading and ONE trailing * are markers)
            first, last = base.split(".")[0], base.split(".")[-1]
            frags = [rng.choice([first + ".*." + last, first + "*", "**" + last, "*" + first + "**", first + ".*" + last[-1:], "*" + first[:1] + "*" + last, "*"])]
        if rng.random() < 0.3:
            frags.append(rng.choice(["zz_no_such*", "*zz_none", rng.choice(nodes)]))
        sel = [[m for m in nodes if glob_spec(f, m)] for f in frags]
        ops_c = list(c["ops"])
        ops_c[i] = ("contain", frags)
        rxs = [conv(f) for f in frags]
        compact = {"nodes": nodes, "imps": c["imps"], "lim": None, "ops": ops_c, "spec": None, "mtab": [(rx, _safe_matches(rx, nodes)) for rx in rxs]}
        if all(sel):
            ops_e = list(c["ops"])
            ops_e[i] = ("named", [m for ms in sel for m in ms])
            expanded = {"nodes": nodes, "imps": c["imps"], "lim": None, "ops": ops_e, "spec": None}
        else:
            expanded = None
        pairs.append((compact, expanded, frags))
    flat = [x for a, b, _ in pairs for x in (a, b) if x is not None]
    res = iter(pmap(gen.impl_rule, flat, ctx.jobs))
    for compact, expanded, frags in pairs:
        a = next(res)
        b = next(res) if expanded is not None else None
        stream.evaluations += 1
        stream.count("partial:" + a.split(":")[0].split(" ")[0])
        stream.nontrivial.add(digest((compact["nodes"], compact["ops"])))
        bad = None
        if expanded is None:
            if not a.startswith("ERR:impossibleMatch"):
                bad = f"a partial name that selects no module does not raise the no-match error: {a}"
        else:
            ka, kb = a.rsplit(" I=", 1)[0], b.rsplit(" I=", 1)[0]
            if ka != kb and not (ka.startswith("FAIL") and kb.startswith("FAIL") and set(ka[5:].split(";")) == set(kb[5:].split(";"))):
                bad = f"have_name_containing({frags}) differs from naming the modules its glob meaning selects: {ka[:300]} vs {kb[:300]}"
        if bad:
            ctx.violations.append({"kind": "property-violation", "what": bad, "line": gen.rule_line(compact),
                                   "expanded": gen.rule_line(expanded) if expanded else None, "python": python_snippet(compact)})
            if len(ctx.violations) >= 3:
                return


# ----------------------------------------------------------------------------- interpreter modes
def interpreter_modes(ctx, section):
    """harness/oprobe.py: the same fixed cases evaluated by a normal interpreter and by one started with -O; whether a rule
    holds, the lines of its report and the configuration errors raised must not depend on the optimisation mode."""
    import json
    import subprocess
    import sys

    from .core import InfraError, Stream
    from .proto import VERIF

    s = Stream(ctx, f"interpreter modes: fixed '{section}' cases in a normal interpreter vs python -O (assert statements compiled away)")
    outs = []
    env = dict(os.environ, PYTHONHASHSEED="0")
    for flags in ([], ["-O"]):
        p = subprocess.run([sys.executable] + flags + ["-m", "harness.oprobe", section], cwd=VERIF, env=env, capture_output=True, text=True, timeout=300)
        try:
            outs.append(json.loads(p.stdout.strip().split("\n")[-1]))
        except Exception:  # noqa: BLE001
            if flags:
                # the library does not even run under -O: every outcome differs
                outs.append({"optimised": True, "outcomes": ["CRASH|" + p.stderr.strip().split("\n")[-1][:200]] * len(outs[0]["outcomes"])})
            else:
                raise InfraError("oprobe failed in the normal interpreter: " + p.stderr[-800:])
    a, b = outs
    if a["optimised"] or not b["optimised"]:
        raise InfraError("oprobe: interpreter modes not as requested")
    for i, (x, y) in enumerate(zip(a["outcomes"], b["outcomes"])):
        s.evaluations += 1
        s.count(x.split("|")[0])
        s.nontrivial.add(i)
        if x != y and len(ctx.violations) < 3:
            ctx.violations.append({"kind": "property-violation",
                                   "what": f"outcome depends on the interpreter's optimisation mode (python -O): case #{i} of harness/oprobe.py section '{section}'",
                                   "normal": x, "optimised": y,
                                   "python": f"/venv/bin/python -O -m harness.oprobe {section}   # vs the same without -O (cwd /verif, VERIF_REPO set)"})
    s.finish()


# --------------------------------------------------------------------------------------- scanned vs directly built architectures
def _scanned_equiv_case(case):
    """a scanned architecture (default options, or external libraries included, or a level limit) and an architecture built
    directly from the same modules and imports answer every rule alike: rules are judged on the import relation, not on how
    the architecture object came into being"""
    import random as _random
    import re as _re

    from . import scan_common as sc
    from .impl import err_kind, get_evaluable_architecture, graph_snapshot, make_graph, parse_message, rule_ops_for, run_rule_ops

    tree, kw, seed = case
    rng = _random.Random(seed)
    out = []
    with sc.write_project(tree) as proj:
        try:
            ev = get_evaluable_architecture(proj.path("proj"), proj.path("proj"), **kw)
        except Exception as e:  # noqa: BLE001
            return [("SCANERR", err_kind(e), "", "")]
        nodes, imps, _ = graph_snapshot(ev)
        nodes = sorted(nodes)
        if len(nodes) < 3:
            return out
        direct = make_graph(nodes, imps)
        for _ in range(6):
            verb, imp, exc, anything = rng.choice(gen.SHAPES)
            sk, ok = rng.choice("NNP"), rng.choice("NNP")
            subs = (sk, rng.sample(nodes, rng.randint(1, 2)))
            objs = (ok, rng.sample(nodes, rng.randint(1, 2)))
            if rng.random() < 0.3:
                n = rng.choice(nodes)
                pat = rng.choice([_re.escape(n) + r"(\..*)?$", _re.escape(n.split(".")[0]) + r"\..*", ".*" + _re.escape(n.split(".")[-1]) + "$"])
                if rng.random() < 0.5 or anything:
                    subs = ("R", pat)
                else:
                    objs = ("R", pat)
            ops = rule_ops_for(verb, imp, exc, subs, objs, anything)

            def canon(r):
                return r[0] + (":" + ";".join(parse_message(r[1])) if r[0] == "FAIL" else ":" + str(r[1]) if r[0] == "ERR" else "")

            out.append((str(ops), canon(run_rule_ops(ops, ev)), canon(run_rule_ops(ops, direct)), str(kw)))
    return out


def scanned_equiv_stream(ctx, stream, n):
    from . import scan_common as sc

    rng = ctx.rng("scanned-equiv")
    cases = []
    for _ in range(n):
        tree = sc.gen_tree(rng)
        sc.fill_sources(rng, tree, externals=True)
        pys = [p for p in tree if p.endswith(".py")]
        if pys and rng.random() < 0.6:
            tree[rng.choice(pys)] += rng.choice(["import os.path\nimport json\n", "import ext.lib.x\n", "from ab.cd import z\n"])
        kw = {}
        k = rng.randrange(4)
        if k == 1:
            kw["exclude_external_libraries"] = False
        elif k == 2:
            kw["level_limit"] = rng.randint(1, 2)
        elif k == 3:
            kw["exclude_external_libraries"] = False
            kw["level_limit"] = rng.randint(1, 2)
        cases.append((tree, kw, rng.randrange(1 << 30)))
    res = pmap(_scanned_equiv_case, cases, ctx.jobs, chunk=10)
    for (tree, kw, _), outs in zip(cases, res):
        for ops, a, b, kws in outs:
            stream.evaluations += 1
            if ops == "SCANERR":
                stream.count("scan-error")
                continue
            stream.count("options:" + ("+".join(sorted(kw)) or "default") + " " + a.split(":")[0])
            stream.nontrivial.add(digest((sorted(tree), ops, kws)))
            if a != b:
                ctx.violations.append({"kind": "property-violation",
                                       "what": "a rule gives different outcomes on a scanned architecture and on an architecture built directly from the same modules and imports",
                                       "files": dict(tree), "options": kw, "rule_ops": ops, "scanned": a, "direct": b})
                if len(ctx.violations) >= 3:
                    return


# --------------------------------------------------------------------------------------- re-specified subjects / objects
def respecify_stream(ctx: Ctx, stream: Stream, n: int):
    """a naming call made again at the same position REPLACES the earlier specification (a kept rule beginning that is completed
    several times): the rule with an extra, different naming call in front of the final one equals the rule without it"""
    rng = ctx.rng("respecify")
    base, twice = [], []
    for c in random_cases(rng, n, comps=gen.IDENT_ADVERSARIAL, strict=False, max_nodes=12, max_imports=10):
        ops = list(c["ops"])
        pos = [i for i, (op, arg) in enumerate(ops) if op in ("named", "sub")]
        if not pos:
            continue
        i = rng.choice(pos)
        other = rng.sample(c["nodes"], rng.randint(1, 2))
        extra = (rng.choice(["named", "sub"]), other)
        c2 = dict(c)
        c2["ops"] = ops[:i] + [extra] + ops[i:]
        c2["spec"] = None
        base.append(c)
        twice.append(c2)
    a = pmap(gen.impl_rule, base, ctx.jobs)
    b = pmap(gen.impl_rule, twice, ctx.jobs)
    for c, c2, x, y in zip(base, twice, a, b):
        stream.evaluations += 1
        stream.count("outcome:" + x.split(":")[0].split(" ")[0])
        stream.nontrivial.add(digest((c["nodes"], c["imps"], c2["ops"])))
        if x.rpartition(" I=")[0] != y.rpartition(" I=")[0]:
            ctx.violations.append({"kind": "property-violation",
                                   "what": "a naming call repeated at the same position does not replace the earlier specification: the rule differs from the rule built with the last specification only",
                                   "line": gen.rule_line(c2), "with_extra_call": y, "last_specification_only": x, "python": python_snippet(c2)})
            if len(ctx.violations) >= 3:
                return
