#!/venv/bin/python
"""Differential check of the message TEXT: real `assert_applies` (str(AssertionError).split("\\n")) against the
`T=` field of the Lean driver (PtaModel.Message.messageLines / messageLinesL).

  /venv/bin/python /root/lw/msg/msgcheck.py [n_rule_cases] [n_layer_cases] [seed]

Compared twice per failing case: LITERALLY (the list of lines in the order the real message has them) and SORTED.
Verdict classes (PASS / FAIL / ERR) are cross-checked as well (T must be empty unless the real code fails).
"""
from __future__ import annotations

import collections
import itertools
import os
import random
import re
import sys

HERE = os.path.dirname(os.path.abspath(__file__))
sys.path.insert(0, os.path.join(HERE, "harness_copy"))

from harness import gen, proto  # noqa: E402
from harness.impl import make_graph, run_rule_ops  # noqa: E402
from harness.layers_common import LOPS, layer_line, make_arch  # noqa: E402
from harness.props.c05 import make_case  # noqa: E402
from harness.rules_common import corpus_cases, random_cases  # noqa: E402

proto.DRIVER = os.path.join(HERE, "lean", ".lake", "build", "bin", "pta_driver")

# layer names whose order differs between the raw name and the formatted `layer "<name>"` ('!' < '"' < '#'),
# a blank, a non-ASCII letter, a name that is a prefix of another one
LAYER_NAMES = ["A", "A!", "A#", "B", "a b", "é", "AA", "L", "La", "None"]
# module name components with characters around '"' in code point order, blanks, commas
ODD = ["a", "a!", "a#", "a b", "b", "ab", "a,", "éx", "Z", "a_b"]


def impl_rule_text(case):
    try:
        g = make_graph(case["nodes"], case["imps"], case.get("lim"))
    except Exception as e:  # noqa: BLE001
        return ("BUILDERR", type(e).__name__)
    return run_rule_ops(case["ops"], g)


def impl_layer_text(case):
    from harness.impl import LayerRule, err_kind

    g = make_graph(case["nodes"], case["imps"], case.get("lim"))
    try:
        arch = make_arch(case["arch"])
    except Exception as e:  # noqa: BLE001
        return ("ARCHERR", type(e).__name__)
    r = LayerRule()
    for i, (op, arg) in enumerate(case["lops"]):
        try:
            r = r.based_on(arch) if op == "based" else LOPS[op](r, arg)
        except Exception as e:  # noqa: BLE001
            return ("ERR", err_kind(e), i)
    try:
        r.assert_applies(g)
    except AssertionError as e:
        return ("FAIL", str(e))
    except Exception as e:  # noqa: BLE001
        return ("ERR", err_kind(e), len(case["lops"]))
    return ("PASS",)


def driver_lines(ans):
    t = ans.get("T", None)
    if t is None:
        return None
    return [proto.dec(x) for x in t.split("|")] if t != "" else []


class Tally:
    def __init__(self, name):
        self.name = name
        self.n = self.fails = self.lines = 0
        self.diff_literal = self.diff_sorted = self.diff_class = 0
        self.shapes = collections.Counter()
        self.examples = []
        self.max_lines = 0
        self.multi_obj = 0

    def judge(self, line, out, ans):
        self.n += 1
        m = ans.get("M", "?")
        mcls = "FAIL" if m.startswith("FAIL") else m.split(":")[0]
        icls = out[0]
        t = driver_lines(ans)
        if icls != mcls or t is None:
            self.diff_class += 1
            self.note(line, out, ans)
            return
        if icls != "FAIL":
            if t:
                self.diff_class += 1
                self.note(line, out, ans)
            return
        self.fails += 1
        real = out[1].split("\n")
        self.lines += len(real)
        self.max_lines = max(self.max_lines, len(real))
        for l in real:
            self.shapes[shape_of(l)] += 1
            if '", ' in l:
                self.multi_obj += 1
        if real != t:
            self.diff_literal += 1
            self.note(line, out, ans)
        if sorted(real) != sorted(t):
            self.diff_sorted += 1

    def note(self, line, out, ans):
        if len(self.examples) < 5:
            self.examples.append((line, out, ans.get("M"), ans.get("T")))

    def report(self):
        print(f"[{self.name}] cases={self.n} failing={self.fails} lines={self.lines} max_lines_per_message={self.max_lines} "
              f"lines_with_several_objects={self.multi_obj}")
        print(f"    differences: verdict-class={self.diff_class} literal-list={self.diff_literal} sorted-list={self.diff_sorted}")
        print("    line shapes: " + ", ".join(f"{k}={v}" for k, v in sorted(self.shapes.items())))
        for ex in self.examples:
            print("    EXAMPLE", ex)


_SHAPES = [
    ("imp+layer", re.compile(r'^".*" \((layer ".*"|no layer)\) imports ".*" \((layer ".*"|no layer)\)\.$')),
    ("by+layer", re.compile(r'^".*" \((layer ".*"|no layer)\) is imported by ".*" \((layer ".*"|no layer)\)\.$')),
    ("layer-miss-any", re.compile(r'^Layer ".*" (does not import|is not imported by) any layer that is not .*\.$')),
    ("layer-miss", re.compile(r'^Layer ".*" (does not import|is not imported by) .*\.$')),
    ("imp", re.compile(r'^".*" imports ".*"\.$')),
    ("by", re.compile(r'^".*" is imported by ".*"\.$')),
    ("sub-miss-any", re.compile(r'^Sub modules of ".*" (do not import|are not imported by) any module that is not .*\.$')),
    ("sub-miss", re.compile(r'^Sub modules of ".*" (do not import|are not imported by) .*\.$')),
    ("miss-any", re.compile(r'^".*" (does not import|is not imported by) any module that is not .*\.$')),
    ("miss", re.compile(r'^".*" (does not import|is not imported by) .*\.$')),
]


def shape_of(l):
    for name, rx in _SHAPES:
        if rx.match(l):
            return name
    return "OTHER"


def run_rules(name, cases):
    t = Tally(name)
    for i in range(0, len(cases), 4000):
        chunk = cases[i : i + 4000]
        lines = [gen.rule_line(c) for c in chunk]
        answers = proto.run_driver(lines)
        for c, line, a in zip(chunk, lines, answers):
            t.judge(line, impl_rule_text(c), proto.parse_answer(a))
    t.report()
    return t


def run_layers(name, cases):
    t = Tally(name)
    for i in range(0, len(cases), 4000):
        chunk = cases[i : i + 4000]
        lines = [layer_line(c) for c in chunk]
        answers = proto.run_driver(lines)
        for c, line, a in zip(chunk, lines, answers):
            t.judge(line, impl_layer_text(c), proto.parse_answer(a))
    t.report()
    return t


def rename_layers(rng, case):
    """give the layers L0..L3 of a c05 case names from LAYER_NAMES (keeps the case otherwise)"""
    old = [n for n, _, _ in case["arch"]]
    new = rng.sample(LAYER_NAMES, len(old))
    ren = dict(zip(old, new))
    case = dict(case)
    case["arch"] = [(ren[n], k, p) for n, k, p in case["arch"]]
    lops = []
    for op, arg in case["lops"]:
        if isinstance(arg, str):
            arg = ren.get(arg, arg)
        elif isinstance(arg, list):
            arg = [ren.get(x, x) for x in arg]
        lops.append((op, arg))
    case["lops"] = lops
    case.pop("spec", None)  # the spec fields are not needed here
    return case


def many_object_layer_cases(rng, n, comps):
    """layer cases with up to 4 object layers and up to 6 layers (c05.make_case stops at 2 objects)"""
    from harness.layers_common import layer_rule_ops

    out = []
    while len(out) < n:
        nodes = gen.random_tree(rng, max_nodes=14, comps=comps, tops=3)
        cand = nodes[:]
        rng.shuffle(cand)
        pool = []
        for c in cand:
            if all(not gen.related(c, d) for d in pool):
                pool.append(c)
        if len(pool) < 3:
            continue
        k = rng.randint(3, min(6, len(pool)))
        names = rng.sample(LAYER_NAMES, k)
        arch = []
        for i, nme in enumerate(names):
            mods = [pool[i]]
            if len(pool) > k + i and rng.random() < 0.4:
                mods.append(pool[k + i])
            if rng.random() < 0.3:
                arch.append((nme, "R", "(" + "|".join(re.escape(x) for x in mods) + ")$"))
            else:
                arch.append((nme, "N", mods))
        subj = rng.choice(names)
        others = [x for x in names if x != subj]
        verb, imp, exc, anything = rng.choice(gen.SHAPES)
        objs = rng.sample(others, rng.randint(1, min(4, len(others))))
        if rng.random() < 0.15:
            objs = objs + [subj]
        lops = layer_rule_ops(verb, imp, exc, subj, objs, anything)
        imps = gen.random_imports(rng, nodes, 10, wf=rng.random() < 0.8)
        out.append({"nodes": nodes, "imps": imps, "arch": arch, "lops": lops})
    return out


def main():
    n_rule = int(sys.argv[1]) if len(sys.argv) > 1 else 6000
    n_layer = int(sys.argv[2]) if len(sys.argv) > 2 else 4000
    seed = int(sys.argv[3]) if len(sys.argv) > 3 else 20260929
    rng = random.Random(seed)
    tallies = []

    tallies.append(run_rules("rules: corpus (every shape x filter kinds on two graphs)", corpus_cases()))
    q = n_rule // 4
    tallies.append(run_rules("rules: random, strict batches, plain names", random_cases(rng, q, strict=True)))
    tallies.append(run_rules("rules: random, arbitrary (related/duplicate) subjects and objects, plain names",
                             random_cases(rng, q, strict=False, wf=False)))
    tallies.append(run_rules("rules: random, adversarial names", random_cases(rng, q, comps=gen.ADVERSARIAL, strict=False)))
    tallies.append(run_rules("rules: random, names with blanks / commas / '!' '#' / non-ASCII", random_cases(rng, q, comps=ODD, strict=False)))

    base = []
    while len(base) < n_layer // 2:
        comps = rng.choice([gen.PLAIN, gen.IDENT_ADVERSARIAL])
        nodes = gen.random_tree(rng, max_nodes=14, comps=comps)
        if len(nodes) < 4:
            continue
        c = make_case(rng, nodes, gen.random_imports(rng, nodes, 10))
        if c:
            base.append(c)
    tallies.append(run_layers("layers: c05 cases (layer names L0..L3)", base[: len(base) // 2]))
    tallies.append(run_layers("layers: c05 cases, layer names with '!' '#' blank non-ASCII",
                              [rename_layers(rng, c) for c in base[len(base) // 2 :]]))
    tallies.append(run_layers("layers: 3-6 layers, 1-5 object layers, subject among the objects, odd layer names",
                              many_object_layer_cases(rng, n_layer // 2, rng.choice([gen.PLAIN, gen.IDENT_ADVERSARIAL]))))

    tot = sum(t.n for t in tallies)
    fails = sum(t.fails for t in tallies)
    lines = sum(t.lines for t in tallies)
    d = sum(t.diff_class + t.diff_literal + t.diff_sorted for t in tallies)
    print(f"TOTAL cases={tot} failing={fails} lines={lines} differences={d}")
    return 1 if d else 0


if __name__ == "__main__":
    sys.exit(main())
