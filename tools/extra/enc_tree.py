"""Reference encoder for the `T:` field of a scan entry (harness side), plus the walk of ImportConverter.convert
copied from converter.py (after fix 203ca2f) to compare visiting orders."""
import ast, sys

SAFE = set("abcdefghijklmnopqrstuvwxyzABCDEFGHIJKLMNOPQRSTUVWXYZ0123456789_.-")

def enc(s: str) -> str:
    if s == "":
        return "%e"
    out = []
    for c in s:
        if c in SAFE:
            out.append(c)
        elif ord(c) < 256:
            out.append("%%%02x" % ord(c))
        else:
            out.append("%%u%04x" % ord(c))
    return "".join(out)

STMT_LIKE = (ast.stmt, ast.excepthandler, ast.match_case)

def children(node, statements_only=True):
    """(field, child) in the order of ast.iter_child_nodes"""
    out = []
    for field, value in ast.iter_fields(node):
        if isinstance(value, ast.AST):
            out.append((field, value))
        elif isinstance(value, list):
            out.extend((field, v) for v in value if isinstance(v, ast.AST))
    if statements_only:
        out = [(f, c) for f, c in out if isinstance(c, STMT_LIKE)]
    return out

def tokens(node, field="", statements_only=True):
    if isinstance(node, ast.Import):
        return ["~".join(["I", enc(field)] + [enc(a.name) for a in node.names])]
    if isinstance(node, ast.ImportFrom):
        return ["~".join(["F", enc(field), str(node.level), "%n" if node.module is None else enc(node.module)]
                         + [enc(a.name) for a in node.names])]
    ch = children(node, statements_only)
    out = ["~".join(["O", enc(field) if field else "", enc(type(node).__name__), str(len(ch))])]
    for f, c in ch:
        out.extend(tokens(c, f, statements_only))
    return out

def tree_field(source: str, statements_only=True) -> str:
    return "T:" + "!".join(tokens(ast.parse(source), "", statements_only))

def real_walk(source: str):
    stack = [ast.parse(source)]
    found = []
    while stack:
        n = stack.pop()
        if not isinstance(n, (ast.Import, ast.ImportFrom)):
            stack.extend(ast.iter_child_nodes(n))
        else:
            found.append(n)
    return found

if __name__ == "__main__":
    src = open(sys.argv[1]).read()
    print(tree_field(src))
    print(tree_field(src, statements_only=False))
    for n in real_walk(src):
        print(ast.unparse(n))
