#!/usr/bin/env python3
"""Regenerates the table of DESIGN.md section 11.3c from seeded/*/meta.json (written by tools/seedall.py) and
seeded/missed_first.json (which seeded changes the quick check missed when they were first tried, and what was extended)."""
import json, os, re
V = os.path.dirname(os.path.dirname(os.path.abspath(__file__)))
missed = json.load(open(os.path.join(V, "seeded", "missed_first.json")))
rows, n, bad = [], 0, []
for d in sorted(os.listdir(os.path.join(V, "seeded"))):
    mp = os.path.join(V, "seeded", d, "meta.json")
    if not re.fullmatch(r"C\d\d-[A-Z]", d) or not os.path.exists(mp):
        continue
    m = json.load(open(mp))
    n += 1
    prop = m["property"]
    ok = m.get("validation", {}).get("valid") and m.get("caught_by_its_property_check")
    if not ok:
        bad.append(d)
    caught = prop if ok else "NOT CAUGHT / INVALID (see meta.json)"
    if d in missed:
        caught += f" (MISSED at first; caught after: {missed[d]})"
    rows.append(f"| {d} | {m.get('needs_to_manifest', '')} | {caught} |")
ref = "| REF R1-R6 | six behaviour-preserving refactorings (searches, detector, converter, parser, LayerMapping, graph construction), applied together | no check raises an alarm (all 17 quick checks, streams scaled x8 by the source-drift rule) |"
table = ("| seeded change | what it needs to manifest | caught by (quick tier) |\n|---------------|---------------------------|------------------------|\n"
         + "\n".join(rows) + "\n" + ref + "\n")
waves = {"AB": 1, "CD": 2, "EF": 3, "GH": 4, "IJ": 5, "KL": 6, "MN": 7, "OP": 8, "QR": 9, "ST": 10}
nw = max(w for k, w in waves.items() for r in rows if re.match(r"\| C\d\d-[%s] " % k, r))
summary = (f"All {n} seeded changes ({nw} waves; every later wave was asked for sites, mechanisms and triggers different from all earlier ones) are valid "
           "(demo passes on the clean tree and fails with the patch; 861 tests pass with the patch; the /repo HEAD each one was last validated against is in its meta.json - patches that no longer applied after a `fix:` commit were rebased) and each is now caught by the quick check of the property "
           f"it was written against. {len(missed)} of them were missed at first and led to the generator / oracle / specification extensions named in the table. "
           "`tools/seedall.py` re-validates all of them against the current `/repo` HEAD and rewrites each `meta.json`; `tools/seedtable.py` regenerates this table.")
p = os.path.join(V, "DESIGN.md")
s = open(p).read()
i = s.index("| seeded change | what it needs to manifest")
j = s.index("### 11.3d")
k = s.index("All ", s.index("| REF R1-R6", i))
rest = s[k:j]
rest = rest[rest.index("\n"):]          # drop the old summary line
s = s[:i] + table + "\n" + summary + rest + s[j:]
open(p, "w").write(s)
print(n, "rows;", "problems:", bad)
