#!/usr/bin/env python3
"""tools/seedprompt.py <Cxx> [<Cxx> ...]: creates /tmp/seed/<Cxx>/pytestarch (scratch worktree of /repo HEAD) and writes the
prompt for a seeding sub-agent to /tmp/seedprompts/<Cxx>.txt.  The prompt contains the property text, the worktree path and
one-line descriptions of earlier seeded changes to stay away from - nothing about the checks under /verif."""
import json, os, re, subprocess, sys
V = os.path.dirname(os.path.dirname(os.path.abspath(__file__)))
props = {json.loads(l)["id"]: json.loads(l) for l in open(os.path.join(V, "properties.jsonl"))}
src = open(os.path.join(V, "tools", "seedall.py")).read()
needs = dict(re.findall(r'"(C\d\d-[A-Z])":\s*"((?:[^"\\]|\\.)*)"', src))
for d in sorted(os.listdir(os.path.join(V, "seeded"))):
    n = os.path.join(V, "seeded", d, "notes.md")
    if re.fullmatch(r"C\d\d-[A-Z]", d) and d not in needs and os.path.exists(n):
        needs[d] = open(n).read().strip().split("\n")[0].lstrip("# ")
os.makedirs("/tmp/seedprompts", exist_ok=True)
for p in sys.argv[1:]:
    top = f"/tmp/seed/{p}"
    wt = f"{top}/pytestarch"
    os.makedirs(f"{top}/out", exist_ok=True)
    if not os.path.exists(wt):
        subprocess.run(["git", "-C", "/repo", "worktree", "add", "-q", "--detach", wt, "HEAD"], check=True)
    prior = "\n".join(f"  - {v}" for k, v in sorted(needs.items()) if k.startswith(p))
    text = f"""You are helping to evaluate a verification effort for the Python library pytestarch (zyskarch/pytestarch: builds a module
import graph from Python ASTs and checks ArchUnit-style architectural rules). Your job is to play the adversary: write small,
realistic code changes that BREAK one stated property of the library while the library's own test suite still passes.

Your scratch git worktree of the library is {wt} . Work ONLY inside {top} (the worktree and {top}/out).
Do not read or write /verif, /repo, /root/lw, /tmp/q or other directories under /tmp/seed and /tmp/seedprompts (they are out of bounds for you: your work must be
independent of whatever checking machinery exists on this machine), and do not commit anything. Never use `git stash` (the stash is shared with other worktrees of the same repository): to get back to the clean tree use `git diff > /tmp/seed/<Cxx>/out/wip.diff; git checkout -- .` and `git apply` to return.

THE PROPERTY ({p}: {props[p].get('title','')})

{props[p]['statement']}

WHAT TO DELIVER: two independent changes, A and B (different sites in the code and different mechanisms). For each:

1. The change must break the property for SOME input/usage, but must need something specific to manifest: an unusual input
   shape, a particular multi-step sequence of operations, object re-use, two cooperating edits that each look fine alone, a particular
   ordering, an option combination ... - NOT something ordinary use or the sample project of the test suite would expose at once.
   It should look like a plausible refactoring, optimisation, clean-up or "bug fix" a maintainer might merge.
2. The library must still import/compile and the full existing test suite must still pass, unedited:
       cd {wt} && PYTHONPATH={wt}/src /venv/bin/python -m pytest -q -p no:cacheprovider --timeout=900 -n 3
   (expected on the clean tree: 861 passed; the checkout directory must keep the name `pytestarch`).
3. A demonstration program demo_X.py (X = A or B), using only the library's public API (and temporary directories / files it creates
   itself), that exits 0 and prints PASS on the unchanged tree and exits 1 and prints FAIL with your change applied. It is run as
       cd {wt} && PYTHONPATH={wt}/src /venv/bin/python {top}/out/demo_X.py
   The demo must judge the PROPERTY as stated above (compute what the property demands independently, e.g. from the files it wrote),
   not merely compare against a recorded output.
4. Files to write: {top}/out/patch_A.diff and patch_B.diff (each the output of `git diff` in the worktree with ONLY that change applied;
   it must apply with `git apply` to the clean worktree), {top}/out/demo_A.py, demo_B.py, and {top}/out/notes_A.md, notes_B.md
   (first line: a one-line title; then the site, why it breaks the property, exactly what is needed for it to manifest, and the
   last line of the suite run with the change applied).
5. Verify everything yourself: demo passes on the clean tree, fails with the patch, suite passes with the patch. Reset the worktree
   (`git checkout -- .`, remove untracked files you created) between A and B and when you are done.

Earlier rounds already produced the following changes for this property; stay AWAY from their sites, mechanisms and triggers and
look for genuinely different ones (other functions, other call paths, other kinds of trigger):
{prior}

Think about the whole code path the property speaks about (src/pytestarch/...), including glue code: option handling, conversions,
caching, ordering, object state kept between calls, error handling, rarely used public entry points and argument forms. Subtle is better
than blatant, but it must be a real violation of the property as written. When you are done, reply with a short summary (sites, triggers,
and the verification you ran)."""
    open(f"/tmp/seedprompts/{p}.txt", "w").write(text)
    print(p, len(text))
