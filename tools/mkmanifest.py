#!/usr/bin/env python3
"""Regenerates MANIFEST.json from the table below (kept valid at all times)."""
import json, os, subprocess
HERE = os.path.dirname(os.path.dirname(os.path.abspath(__file__)))
TITLES = {}
for l in open(os.path.join(HERE, "properties.jsonl")):
    p = json.loads(l)
    TITLES[p["id"]] = p["title"]

# id -> (level text, level note, technique, design_ref)
CLAIMS = {
    "C01": (
        "Lean 4 theorems about an executable model of the rule pipeline (graph construction, the three graph searches, flag tables, eight violation buckets) and an independent declarative specification of the documented semantics; the model is tied to /repo on every run by a correspondence run (real assert_applies vs model vs specification; exhaustive over all import relations on small trees, seeded random beyond).",
        "Trusted: Lean kernel; harness + driver; model-to-code agreement rests on the correspondence run (differential, exhaustive only on the small scopes named in the evidence); strict oracle only on pairwise unrelated subjects/objects and architectures where no package imports its own descendant.",
        "Lean 4 proof about hand-written model + differential correspondence with the implementation",
        "6/C01",
    ),
    "C03": (
        "Same model and specification as C01; the report is modelled as a set of structured items and compared, both inclusions, with the specification's violating set and with the parsed message of the implementation.",
        "As C01; message wording beyond the four line shapes the property fixes is not compared.",
        "Lean 4 proof about hand-written model + differential correspondence with the implementation",
        "6/C03",
    ),
}
NOT_YET = "check not built yet in this session (model/correspondence under construction); see DESIGN.md section 6"

def main():
    checks = []
    for pid, (text, note, tech, ref) in sorted(CLAIMS.items()):
        checks.append({
            "property_id": pid,
            "quick_cmd": f"./check {pid} --tier quick",
            "thorough_cmd": f"./check {pid} --tier thorough",
            "evidence_file": f"evidence/{pid}.json",
            "replay_cmd_template": f"./check {pid} --replay {{path}}",
            "engine": "lean-model+correspondence",
            "level_claimed": {"category": "proof", "text": text, "design_ref": "DESIGN.md " + ref},
            "level_note": note,
            "technique": tech,
        })
    hooks_commits = []
    m = {
        "version": 1,
        "setup_cmd": "./setup.sh",
        "hooks": {
            "guard": "PYTESTARCH_VERIF",
            "enable": "no source hooks are needed: the harness imports the package from /repo/src and observes public calls, exceptions and (for C15/C17) in-process monkeypatching done by the harness itself; the guard is unused",
            "baseline_off_cmd": "cd /repo && /venv/bin/python -m pytest -ra -q -p no:cacheprovider --timeout=900 --continue-on-collection-errors",
            "source_commits": hooks_commits,
            "add_only": True,
        },
        "engines": [
            {"name": "lean-model+correspondence", "path": "lean/ + harness/", "serves_properties": sorted(CLAIMS),
             "kind_free_text": "Lean 4 model, specification and theorems (lake build, #print axioms audit) + Python correspondence harness driving the real code and the compiled Lean driver through a line protocol"},
        ],
        "checks": checks,
        "notes": "Exit codes: 0 held, 1 violation (VIOLATION line), 2 infrastructure error. VERIF_SEED / VERIF_TIER / VERIF_REPO / VERIF_JOBS honoured. Genuine defects found and repaired are listed in known_findings.json (status fixed) and DESIGN.md section 7.",
        "not_applicable": [{"property_id": pid, "reason": NOT_YET} for pid in sorted(TITLES) if pid not in CLAIMS],
    }
    json.dump(m, open(os.path.join(HERE, "MANIFEST.json"), "w"), indent=1)
    print("claimed", sorted(CLAIMS), "not yet", [x["property_id"] for x in m["not_applicable"]])

main()
