#!/usr/bin/env python3
"""Regenerates MANIFEST.json from the table below (kept valid at all times)."""
import json, os, subprocess
HERE = os.path.dirname(os.path.dirname(os.path.abspath(__file__)))
TITLES = {}
for l in open(os.path.join(HERE, "properties.jsonl")):
    p = json.loads(l)
    TITLES[p["id"]] = p["title"]

# id -> (level text, level note, technique, design_ref)
TECH = 'Lean 4 proof about hand-written model + differential correspondence with the implementation'
CLAIMS = {
    'C07': (
        'Lean 4 theorems: conforms_iff / conforms_iff_of_graph (for every well-formed architecture and every diagram whose components are existing, pairwise unrelated modules, the model of DiagramRule passes exactly when the imports conform to the diagram, in both modes; never_errs, fails_iff_not_conforms; each generated rule is a strict C01 rule: generated_rules_strict), aggregates_all / first_error_propagates (the failure aggregates the items of ALL failing generated rules in order; the first non-assertion error propagates), base_module / base_module_diagram / diagramAssert_base_iff (with_base_module(p) = writing every component as p.name), diagramAssert_iff (composition with the parser). Tie: real DiagramRule.assert_applies on generated diagrams x import graphs (both modes, both naming options) vs the model vs the conformance oracle; verdict and the set of message lines.',
        "Domain: diagramDomain (components exist, pairwise unrelated, arrows between distinct components). Trusted: Lean kernel, harness/driver; the parser tie is C06's.",
        TECH,
        '6/C07',
    ),
    'C06': (
        "Lean 4 round-trip theorem Pta.C06.roundtrip: for EVERY diagram of the documented subset (any interleaving of declaration lines in the 3 declaration forms with optional 'as alias' on the bracketed forms and arrow lines in all 6 arrow forms with bracketed / bare / alias references; names = identifiers or dotted names; arbitrary text before @startuml, text without @enduml after the end tag) the model of PumlParser.parse returns exactly the declared-or-referenced component names with aliases resolved and exactly the drawn dependor->dependee relation; order_irrelevant and presentation_irrelevant (line order / alias-vs-name spelling do not matter), no_tags (parsing error), plus the layer lemmas (decl_line_modules, arrow_line_dependency, body_of_text, aggregate_law for arbitrary per-line results). Tie: diagrams rendered from random component relations in every documented form, real PumlParser().parse vs the model vs the generating relation.",
        "The regex engine is not modelled: the line recognisers were written after the two regular expressions and their agreement with Python's re on documented lines rests on the correspondence run. Outside the subset (bracketed alias, second @enduml in trailing text) two boundary theorems state what the model does; the real code agrees. Trusted: Lean kernel, harness/driver.",
        TECH,
        '6/C06',
    ),
    'C04': (
        'Lean 4 theorems about the scan model for every directory listing of tree shape (paths duplicate-free, parents listed), every module_path, every exclusion predicate: walk_modules_exact / walk_files_exact (the walk finds exactly one module per non-excluded directory / .py file at or below module_path with no excluded directory in between; fuel sufficiency proved), moduleName_entryName, graph_modules_exact / graph_modules_explicit (graph nodes = those modules plus every ancestor package up to the root), hierarchy_exact, submodules_exact (sub modules = nodes whose dotted name extends the module), scan_wf (the scanned graph is the graph of a well-formed architecture - this discharges the standing hypotheses of C01/C03 for scanned architectures), subscan_modules (scanning a sub directory = scanning the root restricted to it), parent_relative_resolves. Tie: real scans of generated trees (every directory as module_path, both entry points) vs the model vs the specification.',
        'Partial: sub-scan IMPORT equality and the module-object entry point (dirname(__file__) delegation) are checked by correspondence only, not stated as theorems; pathlib / import-system behaviour is exercised, not modelled. Name conditions (dot-free directory names and .py stems, no x.py next to x/) are hypotheses on the entries the scan can see. Trusted: Lean kernel, harness/driver.',
        TECH,
        '6/C04',
    ),
    'C10': (
        'Lean 4 theorems about the scan model for every tree, every option record and ANY level limit: internal_invariant / internal_invariant_perm / internal_invariant_errors (two runs that differ only in exclude_external_libraries and external exclusion patterns have the same internal modules, internal imports and internal hierarchy edges, and fail on the same inputs), externals_excluded (default: every node is a parsed module or one of its ancestors, every import ends in an internal module), externals_included / externals_included_limit (a retained external importee and all its ancestors are nodes with the import edge; an external matching a pattern, or with a matching ancestor, is neither node nor edge end). Tie: real scans under all option sets vs the model; internal sub-architecture compared across option sets on the implementation.',
        'Trusted: Lean kernel, harness/driver; user regexes uninterpreted; the directory walk and the AST are parameters of the model.',
        TECH,
        '6/C10',
    ),
    'C05': (
        "Lean 4 theorem Pta.C05.layer_verdict: for every well-formed architecture, every layered architecture whose layers list pairwise unrelated existing modules (by name list or by regex, mixed), every LayerRule (12 shapes + 2 'any layer' aliases, any number of object layers, any number of unmentioned layers of either kind), the model of LayerRule.assert_applies passes exactly when the documented layer semantics hold; layer_verdict_chain ties it to the fluent call chain, unmentioned_layers_irrelevant, layerOf_correct (never LayerMismatch on the domain), layer_report_sound (every reported import is an import edge between different layers). Tie: real LayerRule.assert_applies vs model vs specification on generated graphs x layer partitions x rules.",
        "Domain: layerDomain (layers non-empty, listed modules exist and are pairwise unrelated, subject and object layers distinct and defined); 'anything' only with should_not (otherwise a configuration error, proved). Regex engine uninterpreted (mt). Trusted: Lean kernel, harness/driver.",
        TECH,
        '6/C05',
    ),
    'C02': (
        "Lean 4 theorems: statement level, for every well-formed importer, module set and statement (absolute, from, relative forms): ImportConverter._convert names exactly the modules the specification names and raises exactly when a relative import reaches above the root (Pta.C02.convertStmt_spec, convertStmt_error_iff, relativeImportee_spec); graph level, default options, any exclusions, for every directory tree that is well-formed where the scan looks (treeWFFor): the import edges of the scan graph are exactly the specification's edges (scan_imports_exact_tree, scan_error_iff_tree; composed with the C04 walk theorems, no walk hypothesis left). Tie: real files written to a tmpfs and scanned with get_evaluable_architecture vs the model (fed each file's Import/ImportFrom nodes as enumerated by ast.walk) vs the specification, over every statement-list position of the running interpreter's grammar x every import form (incl. names that are not modules), random trees, and non-default option sets.",
        "Partial: 'nested at any depth' is outside the model (the AST walk is a parameter; the harness enumerates positions from the running interpreter's ast and prints coverage gaps). A file x.py next to a package directory x/ is outside the domain (hierarchy edge and import edge collide in the backend; collision_counterexample). Trusted: Lean kernel, harness/driver, CPython ast.",
        TECH,
        '6/C02',
    ),
    'C01': (
        "Lean 4 theorems about an executable model of the rule pipeline (graph construction, the three graph searches, flag tables, eight violation buckets) and an independent declarative specification of the documented semantics: for every well-formed architecture the model verdict equals the specification for every STRICT rule (Pta.C01.verdict_spec, verdict_spec_of_graph; all 12 shapes, both filter kinds, batches of any size, the 'anything' aliases) and, related names allowed, for every plain should / should_not rule with named subjects and objects (verdict_spec_plain_named); report_spec / report_spec_plain_named for the report; unknown_name_no_verdict. End to end: Pta.E2E.scan_rule_verdict - for every directory tree that is well-formed where the scan looks, the verdict of a strict rule on the scanned architecture equals the documented semantics on the modules of the tree and the imports its statements account for. Tie: correspondence run (real assert_applies vs model vs specification; exhaustive over all import relations on small trees, seeded random beyond; re-used rule objects; partial names).",
        "Strict oracle only on pairwise unrelated subjects/objects (plus the plain named rules) and on architectures where no package imports its own descendant; for 'something else' questions with related identifiers the documentation is silent (plain_subOf_counterexample shows where model and a literal reading differ); there the implementation is compared with the model only. Trusted: Lean kernel; harness + driver; model-to-code agreement rests on the correspondence run.",
        TECH,
        '6/C01',
    ),
    'C03': (
        "Same model and specification as C01. Proved for every graph and rule: each reported import is an import edge with an end in a subject's sub tree, each 'does not import' line names a subject and objects of the rule (Pta.C03.reported_imports_are_imports, reported_imports_touch_subject, missing_lines_name_subjects); on the oracle domain the reported atoms equal the specification's violating set (Pta.C01.report_spec, report_spec_plain_named). The message TEXT is modelled too (PtaModel/Message.lean, a transcription of message_generator.py): line_of_item (the lines are exactly the renderings of the report items, sorted and de-duplicated as the generator does), parse_render (the four line shapes parse back), text_lines_are_imports / text_lines_shape (the item theorems restated for literal lines), layer_line_of_item for layer rules. Tie: the literal lines of str(AssertionError) are compared with the model's lines (module and layer rules), and parsed items with model and specification on every stream of C01.",
        'As C01. Names containing a double quote or a newline are outside the literal-line theorems (witness example). Trusted: Lean kernel, harness/driver.',
        TECH,
        '6/C03',
    ),
    'C08': (
        'Lean 4 theorems for ALL patterns and ALL subject strings: the converted glob pattern lies in the emitted regex class and matching it equals the documented glob meaning (Pta.C08.glob_spec, convert_shape, literal_pattern, unescape_escape); for every tree and every pair of exclusion predicates excl0 <= excl: exclusion_exact_modules / exclusion_exact_files / excluded_contributes_no_module / unexcluded_module_remains (a path matching a pattern, and everything below an excluded directory, contributes no module; every other module is exactly as in the scan without the pattern), exclusion_exact_imports (every import between two remaining modules is exactly as before, under the documented carve-out), carve_out_needed (decide-checked witness), conversion_consults (the three places where the conversion reads the module list). Tie: exhaustive comparison of real re.match(convert(p), s) with the model matcher over all patterns/strings up to the stated length, and filtered vs unfiltered real scans vs the scan model on generated trees.',
        "Carve-out of exclusion_exact_imports: no excluded module is the sub-module target of a surviving 'from P import n' / needed for root-prefix resolution (otherwise the statement legitimately names P instead; witness theorem). Python's re engine on the emitted pattern class is exercised exhaustively on short strings, not modelled; user regex exclusions are an uninterpreted relation; paths with newlines out of scope. Trusted: Lean kernel, harness/driver.",
        TECH,
        '6/C08',
    ),
    'C09': (
        "Lean 4 theorems: Pta.C09.quotient (architecture level: the graph built with level_limit has exactly the truncated names as nodes and an import a->b iff some module truncating to a imports one truncating to b and a != b), scan level for the real entry point with module_path below root_path: scan_quotient_nodes, scan_quotient_hier, scanQuotientImports / scan_quotient_imports (the limited scan's import edges are exactly the truncated import edges of the unlimited scan, for every tree and every option set - proved after defect F-C09a was repaired), scan_error_indep, flatten_is_truncation (k levels below module_path), and verdict_preserved / spec_verdict_preserved / verdict_lim_spec (strict rules above the limit keep their verdict); verdict_not_preserved_related and collision_iff document the two boundaries by decide-checked witnesses. Tie: two real scans / two real graph builds vs the model, module and import sets and verdicts, with imports of non-modules.",
        'Verdict preservation is stated on strict rules (pairwise unrelated identifiers): for related identifiers it is false for any implementation satisfying the quotient law (witness theorem). A truncated import that lands on a parent->child pair is a hierarchy edge (only with a file x.py next to a directory x/; collision_iff). Trusted: Lean kernel, harness/driver.',
        TECH,
        '6/C09',
    ),
    'C11': (
        "Lean 4 theorems for every regex interpretation mt, every graph, every shape: regex_expansion_subject / regex_expansion_object (a regex yields the same outcome - verdict and report - as naming all modules it matches), regex_expansion_anything_verdict and anything_alias_dedup_irrelevant (the 'anything' aliases too, without any hypothesis on the parent/sub-module de-duplication, on hierarchy-closed graphs such as every built graph), regex_no_match, partial_name, batch_subjects, batch_objects. Tie: real regexes evaluated by Python's re, the match table sent to the model as mt; compact vs expanded rule compared on the implementation and with the model.",
        'Trusted: Lean kernel, harness/driver; Python re is an uninterpreted relation (mt).',
        TECH,
        '6/C11',
    ),
    'C12': (
        "Lean 4 theorems on every graph (related names included): duality, negation (+ counterexample showing why one regex is not 'one subject'), both decompositions, the anything alias (alias_anything, alias_anything_verdict for all name batches, alias_anything_dedup), both monotonicity laws; plus generated_flags_agree, a proof obligation regenerated from behavior_requirement.py and _get_dependency_expectations by a translator on every run. Tie: law instances evaluated on the real code over the C01 stream without strictness filter, and vs the model.",
        'Trusted: Lean kernel, harness/driver, the 130-line translator (its output is also compared by executing the real class on all 16 rows).',
        TECH,
        '6/C12',
    ),
    'C13': (
        "Lean 4 theorems over ALL call sequences: a Rule history the specification automaton classifies as incomplete/contradictory/error-at-call never yields a verdict (rule_history_raises, rule_history_error_at, rule_history_complete), LayerRule histories (layer_rule_history), unknown names (unknown_name; anything_unknown_name / anything_unknown_name_history / layer_anything_unknown_name for the 'anything' aliases - proved after defect F-C13b was repaired), no-match regexes (no_match), overlapping layers (Pta.C05.overlapping_layers_never_verdict), conflicting aliases and missing tags in diagrams, entry options (decision table). Tie: exhaustive sequences up to length 5 over the builder vocabularies, mutations of complete chains, mutated names, pattern batches with a non-matching pattern, all option combinations on the real code vs model vs automaton.",
        'No open finding. Trusted: Lean kernel, harness/driver.',
        TECH,
        '6/C13',
    ),
    'C14': (
        "Lean 4 theorems: the boundary-aware raw-string tests of the (repaired) code equal the component-level prefix relation (raw_test_is_prefix); the documented semantics commutes with every injective renaming of components (desc_ren, verdict_ren, violating_ren, domain_ren); and the CODE MODEL does so for ALL rules - related names, batches, 'anything' with its de-duplication - as an exact equality of the whole outcome: model_outcome_ren / model_report_ren / model_verdict_ren_all / model_atoms_ren (same verdict class, same error kind, same report lines in the same order with every name renamed), via the generic isomorphism invariance model_iso; the same for ALL layer rules (layer_model_iso, layer_verdict_ren, layer_report_ren: same verdict class, error kind incl. LayerMismatch, same report lines and layer tags) and for diagram rules (diagram_model_iso, diagram_verdict_ren, diagram_spec_ren: same class, report items permuted); layerOf_ren, labels_ren / label_ren / nearest_alias_ren, isInternal_ren. Tie: every case evaluated on the real code under a collision-free and an adversarial renaming, outcomes compared up to renaming and with the model.",
        'Regex-defined layers and user regexes are not renamed (a renaming does not act on patterns). Trusted: Lean kernel, harness/driver.',
        TECH,
        '6/C14',
    ),
    'C15': (
        'Partial by nature: the logic half is proved in Lean - verdict depends only on node/edge sets (verdict_congr); perm_subjects, perm_objects, perm_modules_imports, perm_patterns, perm_dir_entries, scan_graph_perm (two scans of the same tree with different enumeration orders build equivalent graphs, any options), perm_layers (order of layer definitions, unconditional after defect F-C15a was repaired), perm_layer_rule_filters, applyAll_perm (order of generated diagram rules), diagram_lines_perm / diagram_text_perm (order of diagram lines, unconditional after F-C15b was repaired), reapply for ALL pairs of architectures, convertAliases_idem. The interpreter half (no mutation of the evaluable, hash seeds 0..7, shuffled iterdir, re-used rule objects) is observed on the real code by history/permutation/hash-seed runs and compared with the model.',
        'The model is pure by construction, so purity of the real evaluable is exercised, not proved. Trusted: Lean kernel, harness/driver.',
        TECH,
        '6/C15',
    ),
    'C16': (
        'Lean 4 theorems over ALL builder call sequences: the LayeredArchitecture builder refines the specification automaton (larch_refines: accept/reject at the offending call, accepted definitions list what was supplied in order), the reachable-state invariant (unique layer names, at most one pending layer, no module in two layers: larch_invariant), empty_module_list_keeps_layer_open / empty_module_list_is_noop / empty_module_list_without_layer (an empty module list supplies no modules: the layer stays open), LayerRule guards (layer_rule_guards). Tie: exhaustive sequences up to length 6 (string and list forms, empty lists, shared characters) on the real builders vs model vs automaton.',
        "One don't-care of the automaton is left (a regex string textually equal to a module name given elsewhere), compared with the model only. Trusted: Lean kernel, harness/driver.",
        TECH,
        '6/C16',
    ),
    'C17': (
        'Lean 4 theorems: labels computed by the model of _create_plot_labels_with_alias equal the nearest-aliased-ancestor labelling for all well-formed names and alias maps (labels_spec), every module labelled exactly once (labels_cover), unknown alias rejected naming it (unknown_alias), remaining kwargs passed through (kwargs_passthrough). Tie: the drawing backend is replaced in-process by a recorder; generated alias maps on real evaluables vs the model.',
        'The backend hand-off is observed at one interception point (networkxgraph.draw_networkx). Trusted: Lean kernel, harness/driver.',
        TECH,
        '6/C17',
    ),
}
NOT_YET = "model, specification and correspondence check exist and pass (./check <id>), but no Lean theorem for this property is committed yet, so it is not claimed at proof level; see DESIGN.md section 6"

def main():
    checks = []
    for pid, (text, note, tech, ref) in sorted(CLAIMS.items()):
        checks.append({
            "property_id": pid,
            "quick_cmd": f"./check {pid} --tier quick",
            "thorough_cmd": f"./check {pid} --tier thorough",
            "evidence_file": f"evidence/{pid}.json",
            "replay_cmd_template": f"./check {pid} --replay {{path}}",
            "engine": "lean-model+correspondence",
            "level_claimed": {"category": "proof", "text": text, "design_ref": "DESIGN.md " + ref},
            "level_note": note,
            "technique": tech,
        })
    hooks_commits = []
    m = {
        "version": 1,
        "setup_cmd": "./setup.sh",
        "hooks": {
            "guard": "PYTESTARCH_VERIF",
            "enable": "no source hooks are needed: the harness imports the package from /repo/src and observes public calls, exceptions and (for C15/C17) in-process monkeypatching done by the harness itself; the guard is unused",
            "baseline_off_cmd": "cd /repo && /venv/bin/python -m pytest -ra -q -p no:cacheprovider --timeout=900 --continue-on-collection-errors",
            "source_commits": hooks_commits,
            "add_only": True,
        },
        "engines": [
            {"name": "lean-model+correspondence", "path": "lean/ + harness/", "serves_properties": sorted(CLAIMS),
             "kind_free_text": "Lean 4 model, specification and theorems (lake build, #print axioms audit) + Python correspondence harness driving the real code and the compiled Lean driver through a line protocol"},
        ],
        "checks": checks,
        "notes": "Exit codes: 0 held, 1 violation (VIOLATION line), 2 infrastructure error. VERIF_SEED / VERIF_TIER / VERIF_REPO / VERIF_JOBS honoured. Genuine defects found and repaired are listed in known_findings.json (status fixed) and DESIGN.md section 7.",
        "not_applicable": [{"property_id": pid, "reason": NOT_YET} for pid in sorted(TITLES) if pid not in CLAIMS],
    }
    json.dump(m, open(os.path.join(HERE, "MANIFEST.json"), "w"), indent=1)
    print("claimed", sorted(CLAIMS), "not yet", [x["property_id"] for x in m["not_applicable"]])

main()
