#!/usr/bin/env python3
"""Regenerates MANIFEST.json from the table below (kept valid at all times)."""
import json, os, subprocess
HERE = os.path.dirname(os.path.dirname(os.path.abspath(__file__)))
TITLES = {}
for l in open(os.path.join(HERE, "properties.jsonl")):
    p = json.loads(l)
    TITLES[p["id"]] = p["title"]

# id -> (level text, level note, technique, design_ref)
TECH = 'Lean 4 proof about hand-written model + differential correspondence with the implementation'
CLAIMS = {
    'C01': (
        "Lean 4 theorems about an executable model of the rule pipeline (graph construction, the three graph searches, flag tables, eight violation buckets, alias conversion) and an independent declarative specification of the documented semantics. For every well-formed architecture and every rule in the oracle domain `parentFree` (all 12 shapes and the two 'anything' forms, named and 'sub modules of' filters, batches of any size, related names allowed; only the parent of a 'sub modules of' filter may not itself be a member of a filter of the rule) the model verdict equals the specification: Pta.C01.verdict_spec_parentFree (special cases verdict_spec, verdict_spec_named, verdict_spec_admissible); unknown_name_no_verdict; rule_chain_state (the fluent chain reaches the compiled rule); others_literal_agree / others_literal_counterexample (where the specification's reading of 'something else' and a literal reading differ). End to end from a directory tree: Pta.E2E.scan_rule_verdict_parentFree, scan_rule_total_parentFree. Tie to /repo on every run: correspondence run (real code vs compiled Lean model vs Lean specification on generated inputs, exhaustive where stated in the evidence); regenerated flag tables (Pta.C12.generated_flags_agree); interpreter-mode probe (normal vs python -O).",
        "Outside parentFree (e.g. 'sub modules of p should not import p') the documentation is silent; there the implementation is compared with the model only (plain_subOf_counterexample, parentFree_needed_on_scan show model and specification differ). Architectures in which a package imports its own direct child are outside Arch.WF (backend edge collision). Trusted: Lean kernel; harness + driver; model-to-code agreement rests on the correspondence run.",
        TECH,
        '6/C01',
    ),
    'C02': (
        "Lean 4 theorems. Statement level: ImportConverter._convert names exactly the modules the specification names for every well-formed importer, module set and statement form, and raises exactly when a relative import reaches above the root (Pta.C02.convertStmt_spec, convertStmt_error_iff, relativeImportee_spec). AST level: the work-list walk of ImportConverter.convert collects exactly the import nodes of the whole tree, at every depth and in every field (collect_all_imports; walk_body_only_counterexample shows what a body-only walk loses). Graph level, default options, any exclusions, every directory tree that is well-formed where the scan looks: the import edges of the scan graph are exactly the specification's (scan_imports_exact_tree_ast, scan_imports_exact, scan_error_iff_tree; composed with the C04 walk theorems). Tie to /repo on every run: correspondence run (real code vs compiled Lean model vs Lean specification on generated inputs, exhaustive where stated in the evidence): real files on a tmpfs, every statement-list position of the running interpreter's grammar x every import form, the complete AST of every file sent to the model.",
        "Source text -> AST (ast.parse) and the reduction of an Import/ImportFrom node to the model's statement record are outside the model (the AST is a parameter, enumerated from the running interpreter; coverage gaps are printed). A file x.py next to a package directory x/ is outside the domain (collision_counterexample). Non-default options: see C09, C10. Trusted: Lean kernel, harness/driver, CPython ast.",
        TECH,
        '6/C02',
    ),
    'C03': (
        "Same model and specification as C01, plus a model of message_generator.py down to the literal lines. For every graph and rule: each reported import is an import edge with an end in a subject's sub tree (Pta.C03.reported_imports_are_imports, reported_imports_touch_subject); a 'does not import' line is produced exactly when the dependency query is empty, one per subject, listing exactly the objects it is missing for (missing_lines_are_missing, missing_any_lines_are_missing, missing_lines_complete, one_missing_line_per_subject); on the oracle domain the reported atoms equal the specification's violating set (Pta.C01.report_spec_parentFree; Pta.E2E.scan_rule_report_parentFree from a directory tree); the message text is the sorted de-duplicated rendering of the items (assert_text_eq, line_of_item, parse_render). Tie to /repo on every run: correspondence run (real code vs compiled Lean model vs Lean specification on generated inputs, exhaustive where stated in the evidence): literal message lines compared as lists; interpreter-mode probe.",
        'As C01. Names containing a double quote or a newline are outside the literal-line theorems. Layer-rule and diagram-rule messages: C05 (layer_report_sound), C07 (aggregated_text_eq). Trusted: Lean kernel, harness/driver.',
        TECH,
        '6/C03',
    ),
    'C04': (
        "Lean 4 theorems about the scan model for every directory listing of tree shape, every module_path, every exclusion predicate: walk_modules_exact / walk_files_exact (exactly one module per non-excluded directory / .py file at or below module_path; fuel sufficiency proved), graph_modules_explicit (plus the ancestors up to the root, named from the root directory's name), hierarchy_exact / submodules_exact (sub modules = dotted extensions), scan_wf; sub-scans: subscan_modules, subscan_graph, parent_relative_graph / parent_relative_equiv (imports spelled relative to module_path's parent resolve like the qualified spelling); the entry points inside the model: dirname_spec, path_entry_eq_generateGraph, entry_module_path_str, module_object_entry_eq_path_entry, module_object_plain_module, module_object_modules_exact. Regenerated on every run from pytestarch.py: the data flow of the options through both entry points (Pta.C04.generated_wiring_agree). Tie to /repo on every run: correspondence run (real code vs compiled Lean model vs Lean specification on generated inputs, exhaustive where stated in the evidence): random trees, every directory as module_path, both entry points under complete option sets, path spellings (trailing/doubled separators, Path objects, relative paths), symbolic links, exclusions.",
        'os.walk / pathlib producing the listing and module objects beyond their __file__ string are parameters of the model. Dotted directory names and x.py next to x/ inside the scanned part are outside treeWFFor. Trusted: Lean kernel, harness/driver, the wiring translator.',
        TECH,
        '6/C04',
    ),
    'C05': (
        "Lean 4 theorem Pta.C05.layer_verdict: for every well-formed architecture, every layered architecture in the relaxed domain layerDomain' (modules of DIFFERENT layers pairwise unrelated; inside one layer related modules allowed; layers by name list or by regex, mixed; any number of unmentioned layers of either kind), every LayerRule (12 shapes + 2 'any layer' forms, any number of object layers) the model of LayerRule.assert_applies passes exactly when the documented layer semantics hold; layer_verdict_kept, layer_verdict_chain (through the fluent builder), unmentioned_layers_irrelevant', unmentioned_layers_as_no_layer, layerOf_correct, layer_report_sound, overlapping_layers_never_verdict; from a directory tree: Pta.E2E.scan_layer_verdict. Tie to /repo on every run: correspondence run (real code vs compiled Lean model vs Lean specification on generated inputs, exhaustive where stated in the evidence): partitions into 2-4 layers, regex layers in four spellings, re-used LayerRule objects, interpreter-mode probe, layer rules on scanned projects with every import statement shape (judged against the scan specification of the written files).",
        'Layers listing RELATED modules in different layers: no oracle (the library raises LayerMismatch, C15.perm_layers). The regex engine resolving a regex layer is the uninterpreted parameter mt (hypothesis `resolves`). Trusted: Lean kernel, harness/driver.',
        TECH,
        '6/C05',
    ),
    'C06': (
        "Lean 4 round-trip theorem Pta.C06.roundtrip: for EVERY diagram of the documented subset (any interleaving of declaration lines in the 3 forms with optional 'as alias' on the bracketed forms and arrow lines in all 6 arrow forms with bracketed / bare / alias references; identifiers or dotted names; arbitrary text before @startuml and after @enduml) the model of PumlParser.parse yields exactly the declared or referenced components and exactly the drawn relation; presentation_irrelevant, order_irrelevant (line order, alias vs name references), decl_line_modules, arrow_line_dependency, body_of_text, no_tags / parse_error_iff (no tags -> parsing error), conflicting_alias_rejected. Tie to /repo on every run: correspondence run (real code vs compiled Lean model vs Lean specification on generated inputs, exhaustive where stated in the evidence): diagrams rendered from random relations in every form (keyword-like names, aliases spelled like their component, CRLF files, prose outside the tags), one parser object over several files; component names with non-ASCII identifier letters only as a metamorphic twin stream judged on the Python side (the model's word class is ASCII).",
        "Python's re on the two PlantUML regexes is not modelled: the line recognisers are hand transcriptions whose agreement on documented lines rests on the correspondence run. Outside the subset two boundary theorems state what the model does (bracketed_alias_outside_subset, second_end_tag_extends_body). Trusted: Lean kernel, harness/driver.",
        TECH,
        '6/C06',
    ),
    'C07': (
        'Lean 4 theorems: conforms_iff_of_graph / fails_iff_not_conforms (for every well-formed architecture and every diagram whose components are existing, pairwise unrelated modules the model of DiagramRule passes exactly when the imports conform to the diagram, both modes; each generated rule is a strict C01 rule), aggregates_all / first_error_propagates (every failing generated rule contributes, a non-assertion error wins), aggregated_text_eq / aggregated_text_items / diagram_text_is_aggregation (the message TEXT is the newline-join, in rule order, of the texts of exactly the failing rules), base_module / base_module_diagram (with_base_module(p) = writing p.name), from the diagram FILE: diagram_file_conforms_iff, diagram_file_never_errs, diagram_file_base_conforms_iff, diagram_file_report; from a directory tree: Pta.E2E.scan_diagram_file_conforms. Tie to /repo on every run: correspondence run (real code vs compiled Lean model vs Lean specification on generated inputs, exhaustive where stated in the evidence): component relations x import graphs x both modes x both naming options, re-used rule objects, interpreter-mode probe.',
        "Domain diagramDomain (components exist, pairwise unrelated); components missing from the architecture raise a lookup error (Pta.C13.diagram_unknown_component). The parser tie is C06's. Trusted: Lean kernel, harness/driver.",
        TECH,
        '6/C07',
    ),
    'C08': (
        "Lean 4 theorems: glob_spec (for ALL pattern and subject strings the emitted regex, interpreted by the model's matcher for exactly the emitted class, matches iff the documented glob meaning holds) and glob_meaning (existential meaning: literal text in full, leading * any prefix, trailing * any suffix, every other character literal); exclusion_exact_modules / _files / _imports / exclusion_exact_modules_opts (a scan with more patterns = the scan with fewer minus every sub tree rooted at a newly matching path; every other module and every import between remaining modules unchanged), excluded_contributes_no_module, unexcluded_module_remains, more_patterns_exclude_more; the reference scan exists: no_type_error, no_patterns_scan (exclusions=() means nothing is excluded; repaired defect F-C08a). Files and directories are matched by their path in the scanned tree (repaired defect F-C08b: files used to be matched by their resolved path). Tie to /repo on every run: correspondence run (real code vs compiled Lean model vs Lean specification on generated inputs, exhaustive where stated in the evidence): exhaustive pattern x subject table against Python's re (length <= 4 quick / <= 6 thorough), trees x exclusion tuples in glob and regex form against the scan with exclusions=().",
        "regex_exclusions are the uninterpreted relation mt (anchoring at the start is a property of re.match); that Python's re interprets the emitted pattern as the model's matcher does rests on the exhaustive table. Carve-out: an excluded module that is the sub-module target of `from P import n` whose package survives (the statement then names P). Trusted: Lean kernel, harness/driver.",
        TECH,
        '6/C08',
    ),
    'C09': (
        "Lean 4 theorems: quotient / graph_of_quotient_arch / quotient_arch_wf (for every well-formed architecture and limit the level-limited graph is the graph of the truncated architecture), scan level: scan_quotient_nodes, scan_quotient_hier, scan_quotient_imports (for every tree; imports of names that are not modules included), flatten_is_truncation, limit shift by the depth of module_path; verdict preservation above the limit: verdict_preserved / verdict_lim_spec (strict module rules), layer_verdict_preserved / layer_verdict_lim_spec (layer rules in layerDomain'), diagram_verdict_preserved / diagram_file_verdict_preserved (diagram rules), scan_layer_verdict_preserved, scan_diagram_verdict_preserved, Pta.E2E.scan_rule_verdict_limit; too_deep_name (Pta.C13) for names below the limit. Tie to /repo on every run: correspondence run (real code vs compiled Lean model vs Lean specification on generated inputs, exhaustive where stated in the evidence): two builds of the same project with and without level_limit, module_path at or below root_path, externals included, strict rules above the limit.",
        'For module rules with related identifiers the second sentence of the property is not a consequence of the first (verdict_not_preserved_related, replayed on the code); depth conditions shown necessary (layer_verdict_not_preserved_deep, diagram_verdict_not_preserved_deep). Trusted: Lean kernel, harness/driver.',
        TECH,
        '6/C09',
    ),
    'C10': (
        'Lean 4 theorems about the scan model for every tree, every option record and ANY level limit: internal_invariant / internal_invariant_perm / internal_invariant_errors (two runs that differ only in the external options have the same internal modules, imports and hierarchy, and fail on the same inputs), externals_excluded (no external node or edge), externals_included / externals_included_limit (a retained external import: importee, all its ancestors and the import edge exist), nodes_included_limit, externals_not_retained_limit / _uncut / _iff (a not-retained external is not a node and no edge touches it; exact statement under a level limit, naive transfer refuted); since the repair of F-C10e no side condition on the root path string is left (relative_root_before_repair is the Lean witness of the defect). Tie to /repo on every run: correspondence run (real code vs compiled Lean model vs Lean specification on generated inputs, exhaustive where stated in the evidence): trees with internal and external imports x {excluded, included, glob patterns, regex patterns}, absolute and relative root paths, patterns that textually match internal names.',
        "Which imported names are 'external' in Python's sense is, in the model, 'not below the internal prefix'. User regexes uninterpreted (mt). Trusted: Lean kernel, harness/driver.",
        TECH,
        '6/C10',
    ),
    'C11': (
        "Lean 4 theorems for every graph and every interpretation mt of the regex engine: regex_expansion_subject / _object / _anything_verdict (a regex filter = naming the modules it matches), regex_no_match / regex_no_match_exact (no match -> ImpossibleMatch, either side, never a verdict), partial_name (the deprecated partial-name form is its regex translation; what the translation means is Pta.C08.glob_spec), batch_subjects / batch_objects with their three-valued forms batch_*_err / _raises / _fail (a batch = the conjunction of the single rules, for explicitly given objects, all shapes, related names allowed; several objects for plain should / should_not). Tie to /repo on every run: correspondence run (real code vs compiled Lean model vs Lean specification on generated inputs, exhaustive where stated in the evidence): real regexes (anchored, open-ended, ungrouped alternations, fragments from inside names, look-ahead, inline flags) evaluated by Python's re.match and sent as match tables; partial names against the documented glob meaning; re-used rule objects.",
        "What a given regex matches is Python's re (parameter mt). Batching of the 'anything' forms is not a conjunction law (see C12 alias_anything_verdict_api). Trusted: Lean kernel, harness/driver.",
        TECH,
        '6/C11',
    ),
    'C12': (
        "Lean 4 theorems about the model verdict on EVERY graph value (related identifiers included): duality, negation / negation_eq (single subject and object, plain and except), decomposition / decomposition_except with the three-valued decomposition_eq / _except_eq, alias_anything / alias_anything_verdict_api ('should not import anything' = 'should not import modules except' the subject, on every batch the fluent API can build; alias_mixed_counterexample beyond), monotone_should / monotone_should_not / monotone_err (adding an import edge) and, at the level of FILES, scan_add_statement_nodes / _monotone / _error, scan_more_statements_monotone (adding import statements to files of a scanned tree, any level limit: modules and hierarchy stay, imports only grow, passing should stays passing, failing should_not stays failing, errors stay). Regenerated on every run from behavior_requirement.py and rule_violation_detector.py: Pta.C12.generated_flags_agree. Tie to /repo on every run: correspondence run (real code vs compiled Lean model vs Lean specification on generated inputs, exhaustive where stated in the evidence): law instances on the implementation alone over all small trees and random graphs, file-level monotonicity stream, re-used rule objects.",
        'Negation for regex filters is false (negation_counterexample_regex). With external libraries INCLUDED an added import statement adds a module, and file-level monotonicity fails for regex subjects (external_modules_not_monotone, replayed on the code): the file-level theorems are for the default options. Trusted: Lean kernel, harness/driver, the flag translator.',
        TECH,
        '6/C12',
    ),
    'C13': (
        'Lean 4 theorems over ALL call sequences: rule_history_raises / rule_history_error_at / rule_history_complete (a Rule history the specification automaton classifies incomplete, contradictory or erroneous never yields a verdict and is rejected at the offending call), layer_rule_history, diagram_history_raises / _complete / _no_tags (DiagramRule as a state machine); names: unknown_name, anything_unknown_name (also for subjects the alias conversion drops), layer_unknown_module, diagram_unknown_component / diagram_lookup_error_iff / diagram_file_lookup_error_iff (a diagram rule raises a lookup error exactly when some component is not a module; since the repair of F-C13c also for a component drawn alone), too_deep_name (level-limited architectures); patterns: no_match, no_match_object, no_match_wins_over_unknown_name, layer_regex_no_match; requests: options (the option table), module_path_outside_root, options_before_paths, module_objects_outside_root. Regenerated on every run from pytestarch.py and rule.py: Pta.C13.generated_config_agree. Tie to /repo on every run: correspondence run (real code vs compiled Lean model vs Lean specification on generated inputs, exhaustive where stated in the evidence): every call sequence of length <= 5 over the Rule / LayerRule / DiagramRule vocabularies, mutations of complete chains, empty-list specifications, all option-presence combinations, diagrams with absent components next to violated rules, interpreter-mode probe.',
        'The Python exception classes are mapped to ErrKind by the harness. Trusted: Lean kernel, harness/driver, the guard translator.',
        TECH,
        '6/C13',
    ),
    'C14': (
        'Lean 4 theorems for every injective renaming of path components with well-formed images (GoodRen; advRen makes siblings string prefixes of one another): raw_test_is_prefix (every raw-string test of the code equals the component-level test once the boundary is added; raw_prefix_counterexample without it), desc_ren, verdict_ren / violating_ren (specification), graph_ren, model_verdict_ren_all / model_report_ren / model_outcome_ren (model outcome of every module rule), layerOf_ren, layer_verdict_ren, layer_report_ren, diagram_verdict_ren / diagram_spec_ren, labels_ren / label_ren, isInternal_ren, text_ren_items / text_ren (the message text: lines permuted and re-sorted); at SCAN level (renaming directories and files on disk, import statements renamed along): scan_arch_ren, scan_ren, scan_error_ren, scan_verdict_ren, scan_report_ren, scan_labels_ren, scan_ren_ext, with the forced hypotheses shown necessary (scan_ren_needs_injective / _dotfree / _transport). Tie to /repo on every run: correspondence run (real code vs compiled Lean model vs Lean specification on generated inputs, exhaustive where stated in the evidence): every rule / layer / label / scan case evaluated under a collision-free and an adversarial renaming (prefix siblings, suffix-like names, letter case), parent-relative imports in renamed sub-scans, diagram rules over prefix-sibling components.',
        "Regex specifications are outside the property's quantifier (mt is not renamed). text_ren needs quote-free names (text_ren_needs_quoteFree). Scan level: externals with exclusion patterns or under a level limit, and layer / diagram corollaries, are not carried by a theorem. Trusted: Lean kernel, harness/driver.",
        TECH,
        '6/C14',
    ),
    'C15': (
        'The part that is logic is proved, the part that lives in the interpreter is exercised. Lean 4 theorems: the history machine of Bridge/History.lean (any number of rule, layer-rule and diagram-rule objects applied to any number of architectures in any interleaving): history_archs_unchanged, history_outcome_fresh (the outcome of an application after ANY history equals its outcome in the initial world, message text included), history_perm, history_final; report_reapply / reapply (a rule object applied before behaves like a fresh one, text included; convertAliases_idem), report_congr / report_perm_* (verdict and literal message lines invariant under permuting subjects, objects, modules, imports, layers, layer-rule filters), scan_graph_perm / scan_report_perm / perm_dir_entries (directory enumeration order), perm_patterns, perm_layers (no hypothesis since the repair of F-C15a), run_report_perm / run_layer_report_perm (through the builders), applyAll_perm, diagram_lines_perm / diagram_text_perm / diagram_message_lines_perm (diagram line order; diagram_message_order_counterexample: only the multiset of lines is invariant). Tie to /repo on every run: correspondence run (real code vs compiled Lean model vs Lean specification on generated inputs, exhaustive where stated in the evidence): histories of up to 40 evaluations on a shared evaluable with snapshots before/after, re-used rule objects across architectures, permutations of every list-valued argument, shuffled Path.iterdir / os.listdir / os.scandir (also under a level limit), 8 interpreters with PYTHONHASHSEED 0..7.',
        "Partial by nature: mutation of the Python objects behind the model's values (frozen networkx graph, caches) and the hash seed are outside a pure model and are observed by the snapshot and 8-seed runs only; builder calls interleaved with applications on one Rule object are treated separately (Props/C15Build.lean): 'applications are transparent' is refuted on the model and on the code (open finding F-C15c, printed as KNOWN-FINDING) and proved under the side condition syncAtUnsafe (applications_transparent_sync). Trusted: Lean kernel, harness/driver.",
        TECH,
        '6/C15',
    ),
    'C16': (
        'Lean 4 theorems over ALL builder call sequences: larch_refines / larch_calls_refine (the LayeredArchitecture builder refines the specification automaton: accept or reject at the offending call, accepted definitions list what was supplied in order; both argument forms of containing_modules), larch_invariant / larch_calls_invariant (unique layer names, at most one pending layer, no module identifier in two layers), string_form_eq_list_form, module_in_one_layer / string_form_one_layer (a module passed as a string or inside a list can be given to one layer only, rejected at that call), empty_module_list_keeps_layer_open, layer_rule_guards (architecture first, exactly one subject layer); charset_counterexample_accepts / _rejects state the repaired defect F-C16 on a model of the old code. Tie to /repo on every run: correspondence run (real code vs compiled Lean model vs Lean specification on generated inputs, exhaustive where stated in the evidence): every builder sequence of length <= 6 (thorough 7), random longer ones over names sharing characters and falsy names, every LayerRule sequence of length <= 4, one rule object used for a second rule.',
        "One don't-care of the automaton is left (a regex string textually equal to a module name given elsewhere), compared with the model only. Argument forms other than str / list[str] are outside the model. Trusted: Lean kernel, harness/driver.",
        TECH,
        '6/C16',
    ),
    'C17': (
        'Lean 4 theorems: labels_spec (for all well-formed names and alias maps the labels computed by the model of _create_plot_labels_with_alias are the nearest-aliased-ancestor labelling), labels_cover (every module labelled exactly once), unknown_alias (an alias for a module that does not exist is rejected naming it), kwargs_exact / kwargs_passthrough_ordered (spacing -> pos, aliases -> labels, every other option arrives unchanged and in order), from a directory tree: Pta.E2E.scan_labels, scan_labels_unknown_alias; invariance under renaming: Pta.C14.labels_ren. Tie to /repo on every run: correspondence run (real code vs compiled Lean model vs Lean specification on generated inputs, exhaustive where stated in the evidence): alias maps over subsets of the modules of random trees with prefix siblings, alias strings with dots, backslashes and regex metacharacters, level-limited architectures, omitted ancestors, repeated visualize calls, with_labels, explicit pos.',
        'The backend hand-off is observed at one interception point (networkxgraph.draw_networkx); option values are opaque tokens in the model. Trusted: Lean kernel, harness/driver.',
        TECH,
        '6/C17',
    ),
}
NOT_YET = "model, specification and correspondence check exist and pass (./check <id>), but no Lean theorem for this property is committed yet, so it is not claimed at proof level; see DESIGN.md section 6"

def main():
    checks = []
    for pid, (text, note, tech, ref) in sorted(CLAIMS.items()):
        checks.append({
            "property_id": pid,
            "quick_cmd": f"./check {pid} --tier quick",
            "thorough_cmd": f"./check {pid} --tier thorough",
            "evidence_file": f"evidence/{pid}.json",
            "replay_cmd_template": f"./check {pid} --replay {{path}}",
            "engine": "lean-model+correspondence",
            "level_claimed": {"category": "proof", "text": text, "design_ref": "DESIGN.md " + ref},
            "level_note": note,
            "technique": tech,
        })
    hooks_commits = []
    m = {
        "version": 1,
        "setup_cmd": "./setup.sh",
        "hooks": {
            "guard": "PYTESTARCH_VERIF",
            "enable": "no source hooks are needed: the harness imports the package from /repo/src and observes public calls, exceptions and (for C15/C17) in-process monkeypatching done by the harness itself; the guard is unused",
            "baseline_off_cmd": "cd /repo && /venv/bin/python -m pytest -ra -q -p no:cacheprovider --timeout=900 --continue-on-collection-errors",
            "source_commits": hooks_commits,
            "add_only": True,
        },
        "engines": [
            {"name": "lean-model+correspondence", "path": "lean/ + harness/", "serves_properties": sorted(CLAIMS),
             "kind_free_text": "Lean 4 model, specification and theorems (lake build, #print axioms audit) + Python correspondence harness driving the real code and the compiled Lean driver through a line protocol"},
        ],
        "checks": checks,
        "notes": "Exit codes: 0 held, 1 violation (VIOLATION line), 2 infrastructure error. VERIF_SEED / VERIF_TIER / VERIF_REPO / VERIF_JOBS honoured. Genuine defects found and repaired are listed in known_findings.json (status fixed) and DESIGN.md section 7.",
        "not_applicable": [{"property_id": pid, "reason": NOT_YET} for pid in sorted(TITLES) if pid not in CLAIMS],
    }
    json.dump(m, open(os.path.join(HERE, "MANIFEST.json"), "w"), indent=1)
    print("claimed", sorted(CLAIMS), "not yet", [x["property_id"] for x in m["not_applicable"]])

main()
