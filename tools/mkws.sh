#!/bin/bash
# tools/mkws.sh <name> <staged files...> : private copy of the lake project (with warm .lake) for a proof sub-task;
# staged files are given relative to /tmp/lw/_staging (e.g. Props/C13.lean Lemmas/Builders.lean) and copied into PtaProofs/
set -e
name=$1; shift
mkdir -p /tmp/lw/$name
rsync -a --delete /verif/lean/ /tmp/lw/$name/lean/
for f in "$@"; do cp /tmp/lw/_staging/$f /tmp/lw/$name/lean/PtaProofs/$f; done
cp /tmp/lw/BRIEF.md /tmp/lw/$name/BRIEF.md
sed -i "s#\$WS#/tmp/lw/$name#g" /tmp/lw/$name/BRIEF.md
echo /tmp/lw/$name
