#!/bin/bash
# tools/mkws.sh <name> : private copy of the lake project (with warm .lake) for a proof sub-task under /root/lw/<name>;
# the brief (tools/PROOF_BRIEF.md with $WS substituted) is copied next to it. Remove the workspace when merged.
set -e
name=$1
mkdir -p /root/lw/$name
rsync -a --delete /verif/lean/ /root/lw/$name/lean/
sed "s#\$WS#/root/lw/$name#g" /verif/tools/PROOF_BRIEF.md > /root/lw/$name/BRIEF.md
echo /root/lw/$name
