#!/bin/bash
# tools/seedbatch.sh <Cxx> [extra props comma separated]: import a seeding agent's deliverables from /tmp/seed/<Cxx>/out into
# seeded/<Cxx>-A, seeded/<Cxx>-B and run tools/seedcheck.py (validation + the property's quick check) on each.
cd "$(dirname "$0")/.."
p=$1; props=${2:-$p}; src=${SEED_SRC:-/tmp/seed}; suffix=${SEED_SUFFIX:-}
for x in A B; do
  [ -f $src/$p/out/patch_$x.diff ] || continue
  y=$x; if [ "$suffix" = "2" ]; then if [ $x = A ]; then y=C; else y=D; fi; fi; if [ "$suffix" = "3" ]; then if [ $x = A ]; then y=E; else y=F; fi; fi; if [ "$suffix" = "4" ]; then if [ $x = A ]; then y=G; else y=H; fi; fi; if [ "$suffix" = "5" ]; then if [ $x = A ]; then y=I; else y=J; fi; fi; if [ "$suffix" = "6" ]; then if [ $x = A ]; then y=K; else y=L; fi; fi; if [ "$suffix" = "7" ]; then if [ $x = A ]; then y=M; else y=N; fi; fi; if [ "$suffix" = "8" ]; then if [ $x = A ]; then y=O; else y=P; fi; fi; if [ "$suffix" = "9" ]; then if [ $x = A ]; then y=Q; else y=R; fi; fi; if [ "$suffix" = "10" ]; then if [ $x = A ]; then y=S; else y=T; fi; fi
  mkdir -p seeded/$p-$y
  cp $src/$p/out/patch_$x.diff seeded/$p-$y/patch.diff; cp $src/$p/out/demo_$x.py seeded/$p-$y/demo.py
  cp $src/$p/out/notes_$x.md seeded/$p-$y/notes.md 2>/dev/null
  [ -f seeded/$p-$y/meta.json ] || echo "{\"property\": \"$p\"}" > seeded/$p-$y/meta.json
  python3 tools/seedcheck.py seeded/$p-$y --props $props 2>&1 | python3 -c "
import sys,json
for l in sys.stdin:
    if l.startswith('{'):
        d=json.loads(l); json.dump(d, open(d['dir']+'/last_result.json','w'), indent=1)
        print(d['dir'].split('/')[-1], 'valid' if d.get('valid') else 'INVALID '+str({k:d.get(k) for k in ('demo_clean_rc','demo_patched_rc','suite','applies')}), {k:(v['exit'], (v.get('what') or '')[:120]) for k,v in d.get('checks',{}).items()})
"
done
