#!/bin/bash
# tools/seedbatch.sh <Cxx> [extra props comma separated]: import a seeding agent's deliverables from /tmp/seed/<Cxx>/out into
# seeded/<Cxx>-A, seeded/<Cxx>-B and run tools/seedcheck.py (validation + the property's quick check) on each.
cd "$(dirname "$0")/.."
p=$1; props=${2:-$p}
for x in A B; do
  [ -f /tmp/seed/$p/out/patch_$x.diff ] || continue
  mkdir -p seeded/$p-$x
  cp /tmp/seed/$p/out/patch_$x.diff seeded/$p-$x/patch.diff; cp /tmp/seed/$p/out/demo_$x.py seeded/$p-$x/demo.py
  cp /tmp/seed/$p/out/notes_$x.md seeded/$p-$x/notes.md 2>/dev/null
  [ -f seeded/$p-$x/meta.json ] || echo "{\"property\": \"$p\"}" > seeded/$p-$x/meta.json
  python3 tools/seedcheck.py seeded/$p-$x --props $props 2>&1 | python3 -c "
import sys,json
for l in sys.stdin:
    if l.startswith('{'):
        d=json.loads(l); json.dump(d, open(d['dir']+'/last_result.json','w'), indent=1)
        print(d['dir'].split('/')[-1], 'valid' if d.get('valid') else 'INVALID '+str({k:d.get(k) for k in ('demo_clean_rc','demo_patched_rc','suite','applies')}), {k:(v['exit'], (v.get('what') or '')[:120]) for k,v in d.get('checks',{}).items()})
"
done
