#!/usr/bin/env python3
"""Validate a seeded change and run the property's checks against it.
usage: tools/seedcheck.py <dir with patch.diff demo.py meta.json> [--props C01,C03] [--tier quick]
Creates a scratch worktree of /repo HEAD under /tmp, applies the patch there, confirms (a) demo passes on the clean
tree and fails with the patch, (b) the existing suite gives the baseline, then runs ./check <prop> with VERIF_REPO
pointing at the patched worktree. Removes the worktree afterwards. Prints one JSON line."""
import json, os, subprocess, sys, tempfile, shutil, time

VERIF = os.path.dirname(os.path.dirname(os.path.abspath(__file__)))
PY = "/venv/bin/python"


def sh(cmd, cwd=None, env=None, timeout=3600):
    p = subprocess.run(cmd, cwd=cwd, env=env, capture_output=True, text=True, timeout=timeout)
    return p.returncode, p.stdout + p.stderr


def main():
    d = os.path.abspath(sys.argv[1])
    props = None
    tier = "quick"
    do_validate = "--only-checks" not in sys.argv
    do_checks = "--only-validate" not in sys.argv
    for i, a in enumerate(sys.argv):
        if a == "--props":
            props = sys.argv[i + 1].split(",")
        if a == "--tier":
            tier = sys.argv[i + 1]
    meta = json.load(open(os.path.join(d, "meta.json")))
    props = props or [meta["property"]]
    # the suite has 10 tests that look for a checkout directory called "pytestarch" (they time out otherwise)
    top = tempfile.mkdtemp(prefix="seedwt_", dir="/tmp")
    wt = os.path.join(top, "pytestarch")
    res = {"dir": d, "props": props}
    try:
        rc, out = sh(["git", "-C", "/repo", "worktree", "add", "-q", "--detach", wt, "HEAD"])
        assert rc == 0, out
        env = dict(os.environ, PYTHONPATH=wt + "/src")
        demo = os.path.join(d, "demo.py")
        rc0, o0 = sh([PY, demo], cwd=wt, env=env, timeout=600)
        res["demo_clean_rc"] = rc0
        rc, out = sh(["git", "-C", wt, "apply", os.path.join(d, "patch.diff")])
        res["applies"] = rc == 0
        if rc != 0:
            res["apply_err"] = out[-400:]
            print(json.dumps(res))
            return
        rc1, o1 = sh([PY, demo], cwd=wt, env=env, timeout=600)
        res["demo_patched_rc"] = rc1
        if do_validate:
            rc, out = sh([PY, "-m", "pytest", "-q", "-p", "no:cacheprovider", "--timeout=900", "-n", "4"], cwd=wt, env=env)
            tail = out.strip().split("\n")[-1]
            res["suite"] = tail
            res["suite_baseline"] = "861 passed" in tail and "failed" not in tail and "error" not in tail
            failed = sorted(l.split("::")[-1] for l in out.split("\n") if l.startswith("FAILED"))
            res["valid"] = rc0 == 0 and rc1 != 0 and res["suite_baseline"]
        if not do_checks:
            print(json.dumps(res))
            return
        checks = {}
        for p in props:
            t0 = time.time()
            env2 = dict(os.environ, VERIF_REPO=wt, VERIF_TIER=tier)
            rc, out = sh([os.path.join(VERIF, "check"), p, "--tier", tier], cwd=VERIF, env=env2, timeout=3000)
            lines = [l for l in out.split("\n") if l.startswith("VIOLATION") or l.startswith("INFRA")]
            checks[p] = {"exit": rc, "lines": lines[:3], "wall": round(time.time() - t0, 1)}
            # keep the first replay for the record
            for l in lines[:1]:
                if "replay=" in l:
                    rp = l.split("replay=")[1].split()[0]
                    src = os.path.join(VERIF, rp)
                    if os.path.exists(src):
                        try:
                            r = json.load(open(src))
                            checks[p]["what"] = str(r.get("what"))[:300]
                            checks[p]["kind"] = r.get("kind")
                        except Exception:
                            pass
        res["checks"] = checks
        print(json.dumps(res))
    finally:
        sh(["git", "-C", "/repo", "worktree", "remove", "--force", wt])
        shutil.rmtree(top, ignore_errors=True)
        if do_checks:
            # the translator may have rewritten the generated file from the patched tree: restore from /repo
            sh([PY, "-m", "harness.translate_flags"], cwd=VERIF)


main()
