#!/usr/bin/env python3
"""Re-validate every seeded change under seeded/ against /repo's HEAD and run the property's quick check against it;
writes seeded/<id>/meta.json (property, what it needs to manifest, what was run, which checks caught it)."""
import json, os, subprocess, sys
V = os.path.dirname(os.path.dirname(os.path.abspath(__file__)))
NEEDS = {
 "C01-A": "rule with an 'except'/should_only 'something else' question, >= 2 subjects that are also objects, two of them importing each other (object set mutated across the subjects of one batch)",
 "C01-B": "two modules where one full name is a raw string prefix of the other without being its ancestor (app.core / app.core_utils)",
 "C02-A": "import inside an except handler or a match case (the walk skips containers that are not ast.stmt)",
 "C02-B": "externals included + an external exclusion pattern that also matches an internal module name",
 "C03-A": "should/should_only rule with >= 2 subjects and >= 2 objects whose missing-object sets differ (stale loop variable in the message generator)",
 "C03-B": "'anything' rule with two subjects, one name a raw string prefix of the sibling's name",
 "C04-A": "a file or directory whose name starts with 'py' at depth >= 2 (str.replace('.py','') on the dotted path)",
 "C04-B": "module_path below root_path and the root directory has the same name as the package below it (shop/shop), import spelled relative to module_path's parent",
 "C05-A": "sibling module whose name is a raw string prefix of a listed module (startswith without the dot) and a rule asking about 'something else'",
 "C05-B": "subject layer with two listed modules importing each other, 'should ... except' rule, no genuine outside import",
 "C06-A": "a component used as dependor once by alias and once by name",
 "C06-B": "'component [X] as a' declared and the alias used in an arrow",
 "C07-A": "should_only_rule=False and an undrawn import from a component that has outgoing arrows",
 "C07-B": "ONE DiagramRule object applied, re-configured with another base module and applied again (cached rule list)",
 "C08-A": "regex_exclusions with a regex that matches only a proper prefix of the path (fullmatch instead of match)",
 "C08-B": "glob pattern matching a directory in full (no trailing *) + a sub package inside the excluded directory (os.walk pruning slip)",
 "C09-A": "level_limit with module_path at least two directories below root_path (offset always 1)",
 "C09-B": "level_limit + an import of a non-module processed before a genuine import that flattens to the same pair",
 "C10-A": "externals included + import of a non-module name below module_path / a module removed by exclusions",
 "C10-B": "module_path below root_path + externals included + a pattern matching a package above module_path",
 "C11-A": "have_name_matching with a pattern made of letters, digits and underscores only (treated as a plain module name, not as a prefix regex)",
 "C11-B": "should/should_only rule whose importee side contains a module together with one of its own sub modules",
 "C12-A": "subject with a nested sub package whose module imports the object, plus a sibling (sorting after the package) importing that nested module",
 "C12-B": "'anything' rule with two subjects, one name a raw string prefix of the other",
 "C13-A": "two or more patterns on one side of a rule, one matching something and one matching nothing",
 "C13-B": "an undefined layer named together with a defined layer in one are_named([...]) call",
 "C14-A": "layer module P.x, sibling package P.xy with a module below it that is not listed itself",
 "C14-B": "aliases + a descendant whose remaining path contains the aliased module's dotted name again as a raw substring",
 "C15-A": "two scans in one process + a module that is imported and itself contains a relative import (lru_cache on get_parent_modules + in-place append)",
 "C15-B": "one layer's module is a sub package of another layer's module; outcome depends on the definition order",
 "C16-A": "the same multi-character module passed as a plain string to two layers",
 "C16-B": "a module and its own sub module in one containing_modules([...]) list",
 "C17-A": "two aliased modules, one an ancestor of the other, plus a module strictly below the inner one",
 "C17-B": "level_limit + alias for a module deeper than the limit", "C01-C": "ONE Rule object with a regex specification applied to two architectures whose matching modules differ (matcher kept, regex resolved once)",
 "C01-D": "should/should_only rule whose importee-side batch contains a module and one of its descendants (extra de-duplication in get_dependencies)",
 "C02-C": "one absolute from-import listing a scanned sub module BEFORE a non-module name (from proj.b import helpers, CONSTANT)",
 "C02-D": "two scans in one process + a module that was imported before and contains a relative import (lru_cache + in-place append)",
 "C03-C": "ONE Rule object with a regex specification applied to two architectures; offending imports of newly matching modules missing from the report",
 "C03-D": "have_name_containing with a partial name containing a dot / regex metacharacter (conversion without escaping)",
 "C04-C": "two sibling modules where one name is a raw prefix of the other, the shorter used via are_sub_modules_of / as a named module",
 "C04-D": "a directory below module_path that holds no .py file of its own (only sub packages or data)",
 "C05-C": "ONE LayerRule object with regex-defined layers applied to two architectures (layer mapping resolved once)",
 "C05-D": "one are_named([...]) call mixing a regex-defined and a name-defined object layer",
 "C06-C": "a component with an 'as' alias that is mentioned in brackets without the alias EARLIER in the file, alias used in an arrow",
 "C06-D": "an arrow end point that is a dotted name with three or more segments",
 "C07-C": "with_base_module(p) and a component whose own name equals p or starts with 'p.' (package nested in a package of the same name)",
 "C07-D": "default mode + a component with arrows importing a non-component module whose name merely starts with the component's name",
 "C08-C": "exclusions + exclude_external_libraries=False + a remaining module importing the excluded module",
 "C08-D": "a glob exclusion with a * that is neither the first nor the last character",
 "C09-C": "two level-limited architectures with different effective limits built in one process (class-level memo of flattened names)",
 "C09-D": "level_limit + two modules at the limit level where one name is a raw prefix of the other, import from the shorter to the longer",
 "C10-C": "two get_evaluable_architecture calls in one process with different external exclusion patterns (class-level memo)",
 "C10-D": "a module importing the scanned base package itself; configurations with and without externals compared",
 "C11-C": "deprecated have_name_containing with a LIST containing one entry that matches nothing and one that matches",
 "C11-D": "ONE Rule object with have_name_matching applied to two architectures where the regex matches different modules",
 "C12-C": "a regex subject whose matches are nested (a package and modules below it) + except / should_only forms: decomposition law",
 "C12-D": "a re-used Rule object with a pattern compared with a freshly built dual rule on a second architecture",
 "C13-C": "absent name on the importee side of a plain should/should_not rule whose importer has no import at all (lazy lookup)",
 "C13-D": "both exclusions and regex_exclusions given, the partial-match tuple equal to the default",
 "C14-C": "import-direction 'something else' rule whose object name starts with the subject's name without being its sub module",
 "C14-D": "a module passed as a plain STRING to containing_modules whose name contains an earlier layer's module name as a substring",
 "C15-C": "regex_exclusions with >= 2 patterns, one using a numbered back-reference listed after a pattern with a capture group",
 "C15-D": "objects given as are_sub_modules_of([pkg, pkg.sub]) in a 'something else' rule; result depends on PYTHONHASHSEED (fused loops over a set)",
 "C16-C": "rule objects named as a single layer, then are_named called again on the same rule (architecture's own list shared and extended)",
 "C16-D": "containing_modules([]) followed by layer(...): the empty list must keep the layer open",
 "C17-C": "module_path strictly below root_path: ancestors that the parser did not report get no label / cannot be aliased",
 "C17-D": "two visualize calls on one architecture with the same aliased modules but different alias texts (label cache keyed by module names)",
 "C01-E": "edge requirement whose importee side is are_sub_modules_of(P) and ONE importer that imports both the package P itself and a real sub module of P (break instead of continue in the sorted successor loop)",
 "C01-F": "graph with a node X.__init__ (scanned __init__.py not excluded), subject are_sub_modules_of(X), import-direction 'something else' question, X.__init__ importing outside X",
 "C02-E": "a scanned directory WITHOUT __init__.py that is the name n of 'from P import n'",
 "C02-F": "root_path == module_path and a top-level internal module whose name equals the first component of an absolute import of an external module (proj/logging.py + import logging)",
 "C03-E": "import-direction except/should_only rule with >= 2 subjects that are also among the exceptions and import each other (caller's object set emptied by the search)",
 "C03-F": "a layer listing a package AND one of its sub modules (or the sub module in another layer), plus a sibling sub module sorting after it that takes part in an import (layer lookup stops at the first non-parent)",
 "C04-E": "module_path strictly below root_path + 'from <package> import <sub module>' with the package spelled relative to module_path's parent",
 "C04-F": "a symbolically linked .py file or directory inside the scanned tree (module named after the resolved path)",
 "C05-E": "subject layer defined by a regex, should_not access_any_layer / be_accessed_by_any_layer, offending import to/from a module in no layer",
 "C05-F": "both ends of an import share the parent package but belong to different layers / no layer (layers listing single files next to their siblings)",
 "C06-E": "a .puml file with the start tag but without the end tag",
 "C06-F": "an undeclared component that is never a dependor, written left of a left arrow or without brackets",
 "C07-E": "with_base_module(p) + an isolated (arrow-less) component taking part in an undrawn import",
 "C07-F": "default mode + dotted component names + a component with arrows importing a package lying above one of its drawn targets",
 "C08-E": "an excluded directory + a remaining module importing a name at least one level below that directory",
 "C08-F": "regex_exclusions with >= 2 patterns, one carrying a global inline flag ((?i), (?s)) or a back-reference (patterns joined into one alternation)",
 "C09-E": "level_limit + externals included + an external module with more name parts than the limit + 1 (import xml.etree.ElementTree, limit 1)",
 "C09-F": "level_limit + an import whose importee is an ancestor package of the importer (zip() stops at the shorter name)",
 "C10-E": "externals included + an external exclusion pattern matching only a middle-level package (xml.dom for xml.dom.minidom)",
 "C10-F": "externals included + two sibling sub modules of one external package (or a package and its direct child) imported separately",
 "C11-E": "have_name_containing with a partial name containing a dot + a module whose name differs exactly at that dot (core.db / core_db)",
 "C11-F": "import-direction 'something else' rule with >= 2 subjects one of which is also an object, another subject importing it",
 "C12-E": "be-imported-by except / 'anything' rule; subject contains a module imported from inside the subject AND by an outside module sorting after the internal importer",
 "C12-F": "a module inside a module named in the rule imports its own (grand-)parent package + an except-form rule (import edge to an ancestor taken for a hierarchy edge)",
 "C13-E": "import-direction should/should_not ... except rule whose absent object name is dotted below the subject",
 "C13-F": "a .puml file with @startuml, some text, and no @enduml",
 "C14-E": "a directory or file starting with 'py' at least one level below module_path (str.replace('.py','') after dotting)",
 "C14-F": "externals included + an external module whose dotted name contains the base module's name later on, ending at a component boundary (webapp.client for base app)",
 "C15-E": "a module file and a package directory of the same name side by side (x.py + x/) and two directory enumeration orders",
 "C15-F": "a LayeredArchitecture mixing name-defined and regex-defined layers and a rule object listing one layer of each kind, in two orders",
 "C16-E": "LayerRule: a second subject are_named after the behaviour call and before any access specification",
 "C16-F": "three layers, the same module given to the first and the third layer, the second layer's module sorting in between",
 "C17-E": "two modules whose labels coincide (same alias for two modules, or an alias equal to another module's full name)",
 "C17-F": "aliases with >= 2 entries in which the non-existent module is not the last key (error names the wrong module)",
}
def needs_from_notes(p):
    """fallback for changes without a hand-written entry: the 'Needed to manifest' paragraph of the agent's notes"""
    try:
        t = open(os.path.join(p, "notes.md")).read()
    except OSError:
        return "see notes.md"
    import re
    m = re.search(r"Needed to manifest:?\**:?\s*(.+?)(?:\n\s*\n|\n\*\*|\nDemo|\Z)", t, re.S | re.I)
    title = t.strip().split("\n")[0].lstrip("# ").strip()
    if m:
        return (title + " - needs: " + " ".join(m.group(1).split()))[:600]
    return title


only = sys.argv[1:]
for d in sorted(os.listdir(os.path.join(V, "seeded"))):
    p = os.path.join(V, "seeded", d)
    if not os.path.exists(os.path.join(p, "patch.diff")) or (only and d not in only):
        continue
    prop = d.split("-")[0]
    r = subprocess.run([sys.executable, os.path.join(V, "tools", "seedcheck.py"), p, "--props", prop], capture_output=True, text=True)
    res = None
    for l in r.stdout.split("\n"):
        if l.startswith("{"):
            res = json.loads(l)
    if res is None:
        print(d, "NO RESULT", r.stderr[-300:]); continue
    head = subprocess.run(["git", "-C", "/repo", "rev-parse", "--short", "HEAD"], capture_output=True, text=True).stdout.strip()
    meta = {"property": prop, "needs_to_manifest": NEEDS.get(d) or needs_from_notes(p),
            "validated_against_repo_head": head,
            "validation": {"demo_on_clean_tree_rc": res.get("demo_clean_rc"), "demo_with_patch_rc": res.get("demo_patched_rc"), "suite_with_patch": res.get("suite"), "valid": res.get("valid")},
            "what_was_run": f"tools/seedcheck.py seeded/{d} --props {prop}  (scratch worktree of /repo HEAD named pytestarch; demo on clean tree, patch applied, demo, full suite, ./check {prop} --tier quick with VERIF_REPO pointing at the patched worktree)",
            "checks": {k: {"exit": v["exit"], "what": v.get("what"), "wall_s": v.get("wall")} for k, v in res.get("checks", {}).items()},
            "caught_by_its_property_check": res.get("checks", {}).get(prop, {}).get("exit") == 1}
    json.dump(meta, open(os.path.join(p, "meta.json"), "w"), indent=1)
    lr = os.path.join(p, "last_result.json")
    if os.path.exists(lr):
        os.remove(lr)
    print(d, "valid" if res.get("valid") else "INVALID", "caught" if meta["caught_by_its_property_check"] else "MISSED", flush=True)
