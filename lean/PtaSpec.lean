import PtaSpec.Hier
import PtaSpec.RuleSem
