import PtaSpec.Hier
import PtaSpec.RuleSem
import PtaSpec.BuilderSpec
