import PtaSpec.Hier
import PtaSpec.RuleSem
import PtaSpec.BuilderSpec
import PtaSpec.LayerSem
import PtaSpec.LabelSem
import PtaSpec.ScanSem
import PtaSpec.DiagramSem
import PtaSpec.GlobSem
