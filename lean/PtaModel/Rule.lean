/-
  PtaModel.Rule — query_language/rule.py (fluent builder, `_convert_aliases`, required-configuration
  check), rule_check/module_requirement.py (swap), eval_structure/module_name_converter.py (regex
  expansion, the regex engine being the parameter `mt` ("matches")), rule_check/rule_matcher.py (which
  queries are asked), rule_check/rule_violation_detector.py (eight buckets),
  rule_check/rule_violations.py (`__bool__`) and error_message/message_generator.py (report items).
-/
import PtaModel.Search
import PtaModel.Flags
namespace Pta

/-- `Module` / `ModuleGroup` of evaluable_architecture.py -/
structure Mod where
  group : Bool
  id : Str
deriving DecidableEq, Repr

/-- `filter_to_module` -/
def Filter.toMod (f : Filter) : Mod := ⟨f.isParent, f.id⟩

/-- `RuleConfiguration` -/
structure RuleConfig where
  subjects : Option (List Filter) := none      -- modules_to_check
  objects : Option (List Filter) := none       -- modules_to_check_against
  should : Bool := false
  shouldOnly : Bool := false
  shouldNot : Bool := false
  exceptPresent : Bool := false
  importDir : Option Bool := none              -- import_
  anything : Bool := false                     -- rule_object_anything
  dropped : List Filter := []                  -- modules_removed_by_alias_conversion (repair of F-C13b)
deriving DecidableEq, Repr

structure RuleState where
  cfg : RuleConfig := {}
  next : Option Bool := none                   -- _modules_to_check_to_be_specified_next
deriving DecidableEq, Repr

inductive RuleOp
  | modulesThat
  | areNamed (ns : List Str)
  | areSubModulesOf (ns : List Str)
  | haveNameMatching (p : Str)
  | haveNameContaining (ps : List Str)   -- deprecated; converted to regexes by the caller-supplied glob
  | should | shouldOnly | shouldNot
  | importThat | beImportedByThat | importExcept | beImportedByExcept
  | importAnything | beImportedByAnything
deriving DecidableEq, Repr

/-- `_set_modules` -/
def RuleState.setModules (s : RuleState) (ms : List Filter) : Except ErrKind RuleState :=
  match s.next with
  | none => .error .improperlyConfigured
  | some true => .ok { s with cfg := { s.cfg with subjects := some ms } }
  | some false => .ok { s with cfg := { s.cfg with objects := some ms } }

/-- one fluent call; `glob` is `convert_partial_match_to_regex` -/
def RuleState.step (glob : Str → Str) (s : RuleState) : RuleOp → Except ErrKind RuleState
  | .modulesThat => .ok { s with next := some true }
  | .areNamed ns => s.setModules (ns.map .name)
  | .areSubModulesOf ns => s.setModules (ns.map .parent)
  | .haveNameMatching p => s.setModules [.regex p]
  | .haveNameContaining ps => s.setModules (ps.map fun p => .regex (glob p))
  | .should => .ok { s with cfg := { s.cfg with should := true } }
  | .shouldOnly => .ok { s with cfg := { s.cfg with shouldOnly := true } }
  | .shouldNot => .ok { s with cfg := { s.cfg with shouldNot := true } }
  | .importThat => .ok { cfg := { s.cfg with importDir := some true }, next := some false }
  | .beImportedByThat => .ok { cfg := { s.cfg with importDir := some false }, next := some false }
  | .importExcept =>
    .ok { cfg := { s.cfg with importDir := some true, exceptPresent := true }, next := some false }
  | .beImportedByExcept =>
    .ok { cfg := { s.cfg with importDir := some false, exceptPresent := true }, next := some false }
  | .importAnything =>
    .ok { cfg := { s.cfg with anything := true, importDir := some true }, next := some false }
  | .beImportedByAnything =>
    .ok { cfg := { s.cfg with anything := true, importDir := some false }, next := some false }

/-- `_get_modules_to_check_without_parent_and_submodule_combinations` (after fix 45f814d: a subject
    is dropped iff its identifier starts with a covering subject's identifier followed by a dot; after the repair of
    F-C12a only a subject that is NOT a 'sub modules of' filter (`identifier_is_parent_module == False`) can cover
    another subject: 'sub modules of p' does not contain `p` itself, so dropping `p.a` in its favour lost the imports
    of `p` by the descendants of `p.a`) -/
def dedupSubjects (fs : List Filter) : List Filter :=
  fs.filter fun m => !(fs.any fun other => !other.isParent && isStrictSub other.id m.id)

/-- the rule subjects `_convert_aliases` removes: those not retained by the de-duplication, in subject order -/
def droppedSubjects (fs : List Filter) : List Filter :=
  fs.filter fun m => !(dedupSubjects fs).contains m

/-- `_convert_aliases` (after the repair of F-C13b the removed subjects are remembered in the configuration) -/
def convertAliases (c : RuleConfig) : RuleConfig :=
  if !c.anything then c
  else
    let s := c.subjects.map dedupSubjects
    { c with anything := false, subjects := s, objects := s, exceptPresent := true,
             dropped := match c.subjects with | none => [] | some ss => droppedSubjects ss }

def anythingMisused (c : RuleConfig) : Bool := c.anything && !c.shouldNot

/-- `_assert_modules_removed_by_alias_conversion_exist` (repair of F-C13b) raises `KeyError`: some rule subject that
    `_convert_aliases` removed (now or in an earlier application of the same rule object) and that is not a regex filter
    has an identifier that is not a module of the evaluable architecture. Such a subject is never looked up by the
    queries, so without this check a module that does not exist would go unnoticed. -/
def droppedAbsent (g : PGraph Str) (c : RuleConfig) : Bool :=
  c.dropped.any fun f => !f.isRegex && !g.hasNode f.id

/-- `_assert_required_configuration_present` (first part) -/
def configMissing (c : RuleConfig) : Bool :=
  let behaviorMissing := !(c.should || c.shouldOnly || c.shouldNot)
  let dependencyMissing := c.importDir.isNone
  let subjectMissing := match c.subjects with | none => true | some l => l.isEmpty
  let objectMissing := match c.objects with | none => true | some l => l.isEmpty
  behaviorMissing || dependencyMissing || subjectMissing || objectMissing

def RuleConfig.behavior (c : RuleConfig) : Behavior := ⟨c.should, c.shouldOnly, c.shouldNot, c.exceptPresent⟩

/-- `ModuleNameConverter.convert`: regex filters are replaced by one name filter per matching module
    (in the architecture's module order, de-duplicated), non-regex filters are kept behind them;
    a regex without any match raises `ImpossibleMatch`. -/
def convertFilters (mt : Str → Str → Bool) (mods : List Str) (fs : List Filter) :
    Except ErrKind (List Filter) :=
  let regs := fs.filter (·.isRegex)
  let others := fs.filter (fun f => !f.isRegex)
  if regs.any (fun r => !(mods.any (mt r.id))) then .error .impossibleMatch
  else
    let matched := mods.filter (fun m => regs.any (fun r => mt r.id m))
    .ok (dedup (matched.map Filter.name) ++ others)

/-- the report, as structured items -/
inductive Item
  /-- `"X" imports "Y"` (byDir = false) or `"Y" is imported by "X"` (byDir = true); X = importer -/
  | imp (importer importee : Str) (byDir : Bool)
  /-- `does not import` / `is not imported by` line for one subject with its objects;
      `any` marks the "any module that is not" form -/
  | miss (any : Bool) (subj : Mod) (objs : List Mod) (byDir : Bool)
deriving DecidableEq, Repr

inductive Verdict
  | pass
  | fail (items : List Item)
  | err (k : ErrKind)
deriving DecidableEq, Repr

abbrev Dep := Mod × Mod

/-- `ExplicitlyRequestedDependenciesByBaseModules` -/
abbrev ExplDeps := List (Dep × List (Str × Str))
/-- `NotExplicitlyRequestedDependenciesByBaseModule` -/
abbrev OtherDeps := List (Mod × List (Str × Str))

/-- `EvaluableArchitectureGraph.get_dependencies` -/
def getDependencies (g : PGraph Str) (importers importees : List Filter) : Except ErrKind ExplDeps :=
  ((dedup importers).flatMap fun f => (dedup importees).map fun o => (f, o)).mapM fun fo => do
    let d ← depBetween g fo.1 fo.2
    pure ((fo.1.toMod, fo.2.toMod), d)

/-- `any_dependencies_from_dependents_to_modules_other_than_dependent_upons` -/
def getOtherFrom (g : PGraph Str) (importers importees : List Filter) : Except ErrKind OtherDeps :=
  (dedup importers).mapM fun f => do
    let d ← otherFrom g f (dedup importees)
    pure (f.toMod, d)

/-- `any_other_dependencies_on_dependent_upons_than_from_dependents` -/
def getOtherTo (g : PGraph Str) (importers importees : List Filter) : Except ErrKind OtherDeps :=
  (dedup importees).mapM fun o => do
    let d ← otherTo g (dedup importers) o
    pure (o.toMod, d)

def userOrder (importRule : Bool) (d : α × α) : α × α := if importRule then d else (d.2, d.1)

/-- `_get_realised_dependencies` (user order) -/
def realised (importRule : Bool) {κ : Type} (deps : List (κ × List (Str × Str))) : List Dep :=
  deps.flatMap fun kd => kd.2.map fun p => userOrder importRule ((⟨false, p.1⟩ : Mod), (⟨false, p.2⟩ : Mod))

/-- `_get_abstract_dependencies_without_realisations` -/
def abstractWithout (importRule : Bool) (deps : ExplDeps) : List Dep :=
  (deps.filter fun kd => kd.2.isEmpty).map fun kd => userOrder importRule kd.1

/-- `_get_missing_dependencies_in_user_specified_order`; `objs` = objects as specified by the user
    (after regex conversion), as modules. Always yields (subject, object). -/
def missingOther (deps : OtherDeps) (objs : List Mod) : List Dep :=
  (deps.filter fun kd => kd.2.isEmpty).flatMap fun kd => objs.map fun o => (kd.1, o)

/-- `RuleViolations` -/
structure Violations where
  should : List Dep := []
  shouldOnlyForbidden : List Dep := []
  shouldOnlyNoImport : List Dep := []
  shouldNot : List Dep := []
  shouldExcept : List Dep := []
  shouldOnlyExceptForbidden : List Dep := []
  shouldOnlyExceptNoImport : List Dep := []
  shouldNotExcept : List Dep := []
deriving Repr

def Violations.any (v : Violations) : Bool :=
  !v.should.isEmpty || !v.shouldOnlyForbidden.isEmpty || !v.shouldOnlyNoImport.isEmpty ||
  !v.shouldNot.isEmpty || !v.shouldExcept.isEmpty || !v.shouldOnlyExceptForbidden.isEmpty ||
  !v.shouldOnlyExceptNoImport.isEmpty || !v.shouldNotExcept.isEmpty

/-- `RuleViolationDetector.get_rule_violation` -/
def detect (b : Behavior) (importRule : Bool) (expl : Option ExplDeps) (other : Option OtherDeps)
    (objs : List Mod) : Violations :=
  let onE (flag : Bool) (f : ExplDeps → List Dep) : List Dep :=
    match expl with | some e => if flag then f e else [] | none => []
  let onO (flag : Bool) (f : OtherDeps → List Dep) : List Dep :=
    match other with | some o => if flag then f o else [] | none => []
  { shouldNot := onE b.expExplNotPresent (realised importRule)
    should := onE b.expExplPresent (abstractWithout importRule)
    shouldOnlyNoImport := onE b.expExplAndNoOther (abstractWithout importRule)
    shouldOnlyForbidden := onO b.expExplAndNoOther (realised importRule)
    shouldExcept := onO b.expAtLeastOneOther (fun o => missingOther o objs)
    shouldOnlyExceptNoImport := onO b.expExplNotButOthers (fun o => missingOther o objs)
    shouldOnlyExceptForbidden := onE b.expExplNotButOthers (realised importRule)
    shouldNotExcept := onO b.expOtherNotPresent (realised importRule) }

/-- lines `X imports Y` / `X is imported by Y` from dependencies in user order -/
def impItems (importRule : Bool) (ds : List Dep) : List Item :=
  ds.map fun d =>
    let p := userOrder importRule (d.1.id, d.2.id)   -- back to (importer, importee)
    Item.imp p.1 p.2 (!importRule)

/-- one `does not import` line per subject, listing its objects -/
def missItems (any : Bool) (importRule : Bool) (ds : List Dep) : List Item :=
  (dedup (ds.map (·.1))).map fun s =>
    Item.miss any s (dedup ((ds.filter fun d => d.1 = s).map (·.2))) (!importRule)

/-- `RuleViolationMessageGenerator._create_violation_messages` -/
def reportItems (importRule : Bool) (v : Violations) : List Item :=
  missItems false importRule v.should ++
  impItems importRule v.shouldOnlyForbidden ++ missItems false importRule v.shouldOnlyNoImport ++
  impItems importRule v.shouldNot ++
  missItems true importRule v.shouldExcept ++
  impItems importRule v.shouldOnlyExceptForbidden ++ missItems true importRule v.shouldOnlyExceptNoImport ++
  impItems importRule v.shouldNotExcept

/-- which queries `RuleMatcher._find_rule_violations` asks, and their results -/
def runQueries (g : PGraph Str) (b : Behavior) (importRule : Bool) (subjects objects : List Filter) :
    Except ErrKind (Option ExplDeps × Option OtherDeps) := do
  -- ModuleRequirement swap
  let importers := if importRule then subjects else objects
  let importees := if importRule then objects else subjects
  let expl ← if b.explReq || b.explForb then (getDependencies g importers importees).map some else pure none
  let other ← if b.otherReq || b.otherForb then
      (if importRule then getOtherFrom g importers importees else getOtherTo g importers importees).map some
    else pure none
  pure (expl, other)

/-- `RuleMatcher.match` for an already validated configuration -/
def matchRule (mt : Str → Str → Bool) (g : PGraph Str) (b : Behavior) (importRule : Bool)
    (subjects objects : List Filter) : Verdict :=
  match convertFilters mt g.nodes subjects with
  | .error k => .err k
  | .ok subs =>
  match convertFilters mt g.nodes objects with
  | .error k => .err k
  | .ok objs =>
  match runQueries g b importRule subs objs with
  | .error k => .err k
  | .ok (expl, other) =>
    let v := detect b importRule expl other (objs.map Filter.toMod)
    if v.any then .fail (reportItems importRule v) else .pass

/-- `Rule.assert_applies`: returns the (possibly rewritten) rule state together with the outcome -/
def assertApplies (mt : Str → Str → Bool) (s : RuleState) (g : PGraph Str) : RuleState × Verdict :=
  if anythingMisused s.cfg then (s, .err .improperlyConfigured)
  else
    let c := convertAliases s.cfg
    let s' := { s with cfg := c }
    if configMissing c then (s', .err .improperlyConfigured)
    else if droppedAbsent g c then (s', .err .lookupError)   -- before `BehaviorRequirement` is constructed
    else if c.behavior.inconsistent then (s', .err .ruleInconsistency)
    else
      match c.importDir, c.subjects, c.objects with
      | some d, some ss, some os => (s', matchRule mt g c.behavior d ss os)
      | _, _, _ => (s', .err .improperlyConfigured)   -- unreachable: `configMissing c` is false

/-- run a whole call chain followed by `assert_applies`; the index of the raising call is returned
    with the error (`ops.length` = raised by `assert_applies`). -/
def runRuleOps (glob : Str → Str) (mt : Str → Str → Bool) (ops : List RuleOp) (g : PGraph Str) :
    Verdict × Nat :=
  let rec go (s : RuleState) (i : Nat) : List RuleOp → Verdict × Nat
    | [] => ((assertApplies mt s g).2, i)
    | op :: rest =>
      match s.step glob op with
      | .error k => (.err k, i)
      | .ok s' => go s' (i + 1) rest
  go {} 0 ops

end Pta
