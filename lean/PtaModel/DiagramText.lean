/-
  PtaModel.DiagramText — query_language/multiple_rule_applier.py and diagram_extension/diagram_rule.py with the message
  TEXT: `MultipleRuleApplier.assert_applies` collects `e.args[0]` of every `AssertionError` (the string
  `"\n".join(lines)` raised by `Rule.assert_applies`, `PtaModel/Message.lean`), in rule order, and raises
  `AssertionError("\n".join(error_messages))`; every other exception propagates at once.

  `applyAll` / `diagramAssert` (PtaModel/Puml.lean) are the same functions with the report ITEMS instead of the text.
-/
import PtaModel.Message
import PtaModel.Puml
namespace Pta

/-- the outcome of `MultipleRuleApplier.assert_applies` / `DiagramRule.assert_applies`: the `AssertionError` carries ONE
    string (several lines, the messages of the failing rules joined by newlines) -/
inductive AggTextVerdict
  | pass
  | fail (text : Str)
  | err (k : ErrKind)
deriving DecidableEq, Repr

/-- the loop of `MultipleRuleApplier.assert_applies`: the list `error_messages` after the last rule, or the first
    exception that is not an `AssertionError`.

        for rule_applier in self._rule_appliers:
            try: rule_applier.assert_applies(evaluable)
            except AssertionError as e: error_messages.append(e.args[0])
-/
def applyAllMessages (mt : Str → Str → Bool) (g : PGraph Str) (rules : List RuleState) : Except ErrKind (List Str) :=
  let rec go (errorMessages : List Str) : List RuleState → Except ErrKind (List Str)
    | [] => .ok errorMessages
    | r :: rs =>
      match (assertAppliesText mt r g).2 with
      | .pass => go errorMessages rs
      | .fail lines => go (errorMessages ++ [messageText lines]) rs      -- `e.args[0]` is `"\n".join(lines)`
      | .err k => .error k
  go [] rules

/-- `MultipleRuleApplier.assert_applies`: `if error_messages: raise AssertionError("\n".join(error_messages))` -/
def applyAllText (mt : Str → Str → Bool) (g : PGraph Str) (rules : List RuleState) : AggTextVerdict :=
  match applyAllMessages mt g rules with
  | .error k => .err k
  | .ok errorMessages => if !errorMessages.isEmpty then .fail (joinWith ['\n'] errorMessages) else .pass

/-- `DiagramRule.assert_applies` given the file content (`none`: no file configured), with the message text
    (the pipeline of `diagramAssert`, with the check of the repair of F-C13c before the rules are applied) -/
def diagramAssertText (mt : Str → Str → Bool) (content : Option Str) (base : Option Str) (shouldOnly : Bool)
    (g : PGraph Str) : AggTextVerdict :=
  match content with
  | none => .err .improperlyConfigured
  | some c =>
    match pumlParse c with
    | .error k => .err k
    | .ok p =>
      if diagramMissing (prefixParsed p base) g then .err .lookupError
      else applyAllText mt g (diagramRules shouldOnly (prefixParsed p base))

end Pta
