/-
  PtaModel.Puml — diagram_extension/diagram_parser.py (after fixes 1b9e8e2, ce16605 and the alias repair): tag slicing,
  line recognisers written after the two regular expressions, alias unification; and
  diagram_extension/diagram_rule.py / dependency_to_rule_converter.py / multiple_rule_applier.py.

  The regex engine is not modelled. The recognisers below implement the two regexes on lines of the
  documented forms (a declaration or an arrow occupying a whole line); their agreement with Python's
  `re` on such inputs is what the correspondence run of C06 checks.
-/
import PtaModel.Rule
namespace Pta

def isSpaceChar (c : Char) : Bool := c == ' ' || c == '\t' || c == '\r' || c == '\x0b' || c == '\x0c'
def isWordChar (c : Char) : Bool := c.isAlphanum || c == '_'
/-- `(\w|\d|\.)` -/
def isNameChar (c : Char) : Bool := isWordChar c || c == '.'
/-- `(\w|\d|\s|\.)` (within one line) -/
def isInnerChar (c : Char) : Bool := isNameChar c || isSpaceChar c

/-- `str.strip()` -/
def pyStrip (s : Str) : Str :=
  let ws (c : Char) : Bool := isSpaceChar c || c == '\n'
  ((s.dropWhile ws).reverse.dropWhile ws).reverse

/-- position of the last occurrence of `pat` in `s` (as the split before / after it) -/
def splitAtLast (pat : Str) (s : Str) : Option (Str × Str) :=
  let rec go (pre : Str) (rest : Str) (best : Option (Str × Str)) (fuel : Nat) : Option (Str × Str) :=
    match fuel with
    | 0 => best
    | fuel + 1 =>
      let best := if startsWith pat rest then some (pre.reverse, rest.drop pat.length) else best
      match rest with
      | [] => best
      | c :: cs => go (c :: pre) cs best fuel
  go [] s none (s.length + 1)

def splitAtFirst (pat : Str) (s : Str) : Option (Str × Str) :=
  let rec go (pre : Str) (rest : Str) (fuel : Nat) : Option (Str × Str) :=
    match fuel with
    | 0 => none
    | fuel + 1 =>
      if startsWith pat rest then some (pre.reverse, rest.drop pat.length)
      else match rest with
        | [] => none
        | c :: cs => go (c :: pre) cs fuel
  go [] s (s.length + 1)

/-- `_remove_content_outside_start_and_end_tags`: `.*@startuml(.+)@enduml.*` (DOTALL, greedy): the text
    between the last `@startuml` that still has a non-empty body and an `@enduml` after it, up to the
    last `@enduml`. Modelled for contents with exactly one start tag before the last end tag; the general
    backtracking order is not modelled. -/
def pumlBody (content : Str) : Except ErrKind Str :=
  match splitAtLast "@enduml".toList content with
  | none => .error .pumlParsingError
  | some (beforeEnd, _) =>
    match splitAtLast "@startuml".toList beforeEnd with
    | none => .error .pumlParsingError
    | some (_, body) => if body.isEmpty then .error .pumlParsingError else .ok body

def splitLines (s : Str) : List Str :=
  let rec go (cur : Str) : Str → List Str
    | [] => [cur.reverse]
    | c :: cs => if c == '\n' then cur.reverse :: go [] cs else go (c :: cur) cs
  go [] s

def takeName (s : Str) : Str × Str := (s.takeWhile isNameChar, s.dropWhile isNameChar)
def dropSpaces1 (s : Str) : Option Str :=
  match s with
  | c :: _ => if isSpaceChar c then some (s.dropWhile isSpaceChar) else none
  | [] => none

/-- `(\[)?NAME(\])?` -/
def optBracketName (s : Str) : Option (Str × Str) :=
  let s := match s with | '[' :: r => r | r => r
  let (n, rest) := takeName s
  if n.isEmpty then none
  else some (n, match rest with | ']' :: r => r | r => r)

/-- `-(-?|\w+-)>` -/
def arrowRight (s : Str) : Option Str :=
  match s with
  | '-' :: '>' :: r => some r
  | '-' :: '-' :: '>' :: r => some r
  | '-' :: r =>
    let w := r.takeWhile isWordChar
    if w.isEmpty then none
    else match r.dropWhile isWordChar with
      | '-' :: '>' :: r' => some r'
      | _ => none
  | _ => none

/-- `<-(-?|\w+-)` followed by whitespace -/
def arrowLeft (s : Str) : Option Str :=
  match s with
  | '<' :: '-' :: r =>
    -- alternatives in regex order: `-?` (greedy), then the empty one, then `\w+-`
    match r with
    | '-' :: r' => if (dropSpaces1 r').isSome then some r' else none
    | _ =>
      if (dropSpaces1 r).isSome then some r
      else
        let w := r.takeWhile isWordChar
        if w.isEmpty then none
        else match r.dropWhile isWordChar with
          | '-' :: r' => some r'
          | _ => none
  | _ => none

/-- a whole-line right arrow `A --> B` (the regex is anchored at the line start only) -/
def parseRightArrow (line : Str) : Option (Str × Str) := do
  let (a, r) ← optBracketName line
  let r ← dropSpaces1 r
  let r ← arrowRight r
  let r ← dropSpaces1 r
  let (b, _) ← optBracketName r
  pure (a, b)

/-- a whole-line left arrow `B <-- A` (anchored at the line end; modelled for lines that start with it) -/
def parseLeftArrow (line : Str) : Option (Str × Str) := do
  let (b, r) ← optBracketName line
  let r ← dropSpaces1 r
  let r ← arrowLeft r
  let r ← dropSpaces1 r
  let (a, rest) ← optBracketName r
  if rest.isEmpty then pure (a, b) else none

/-- one dependency per arrow line: (dependor, dependee) as written -/
def lineDependency (line : Str) : Option (Str × Str) :=
  match parseRightArrow line with
  | some d => some d
  | none => parseLeftArrow line

structure PModule where
  name : Str
  alias : Option Str
deriving DecidableEq, Repr

/-- second alternative of the declaration regex tried at the start of `s`:
    `(component\s+)?\[INNER\](\s+as\s+(.+))?$` -/
def bracketDeclAt (s : Str) : Option PModule :=
  let s := if startsWith "component".toList s then
      match dropSpaces1 (s.drop 9) with | some r => r | none => s
    else s
  match s with
  | '[' :: r =>
    let inner := r.takeWhile isInnerChar
    if inner.isEmpty then none
    else match r.dropWhile isInnerChar with
      | ']' :: rest =>
        if rest.isEmpty then some ⟨inner, none⟩
        else match dropSpaces1 rest with
          | some ('a' :: 's' :: r2) =>
            match dropSpaces1 r2 with
            | some al => if al.isEmpty then none else some ⟨inner, some al⟩
            | none => none
          | _ => none
      | _ => none
  | _ => none

/-- first successful position of the second alternative in a line (the match must end the line) -/
def bracketDecl (line : Str) : Option PModule :=
  let rec go (s : Str) (fuel : Nat) : Option PModule :=
    match fuel with
    | 0 => none
    | fuel + 1 =>
      match bracketDeclAt s with
      | some m => some m
      | none => match s with
        | [] => none
        | _ :: cs => go cs fuel
  go line (line.length + 1)

/-- modules declared in one line: `^component\s+NAME` first, otherwise the bracket form -/
def lineModules (line : Str) : List PModule :=
  let first : Option PModule :=
    if startsWith "component".toList line then
      match dropSpaces1 (line.drop 9) with
      | some r => let n := r.takeWhile isNameChar; if n.isEmpty then none else some ⟨n, none⟩
      | none => none
    else none
  match first with
  | some m =>
    -- scanning continues behind the match; a bracket form can still end the line
    let rest := (line.drop 9).dropWhile isSpaceChar |>.dropWhile isNameChar
    m :: (match bracketDecl rest with | some b => [b] | none => [])
  | none => match bracketDecl line with | some b => [b] | none => []

structure Parsed' where
  modules : List Str
  dependencies : List (Str × List Str)     -- dependor ↦ dependees (dict in insertion order)
deriving Repr

def addDep (deps : List (Str × List Str)) (k v : Str) : List (Str × List Str) :=
  if deps.any (·.1 == k) then deps.map fun e => if e.1 == k then (e.1, if e.2.contains v then e.2 else e.2 ++ [v]) else e
  else deps ++ [(k, [v])]

/-- `PumlParser._get_modules_by_alias` (after the repair "one alias, one component"): no alias is declared with two
    different component names. Declaring the same (alias, name) pair twice is fine; modules without alias are skipped. -/
def aliasesConsistent (modules : List PModule) : Bool :=
  modules.all fun m1 => modules.all fun m2 =>
    match m1.alias, m2.alias with
    | some a1, some a2 => a1 != a2 || m1.name == m2.name
    | _, _ => true

/-- `PumlParser.parse` on the file content -/
def pumlParse (content : Str) : Except ErrKind Parsed' := do
  let body ← pumlBody (pyStrip content)
  let lines := splitLines body
  let modules := lines.flatMap lineModules
  let rawDeps := lines.filterMap lineDependency
  -- `_unify` starts with `_get_modules_by_alias`, which raises PumlParsingError when one alias is declared for two
  -- different components (before the repair: the declaration iterated last won, i.e. a `set` order decided)
  if aliasesConsistent modules then
    let aliases := modules.filterMap fun m => m.alias.map fun a => (a, m.name)
    -- all declarations of one alias carry the same name here, so taking the last one is taking any
    let unify (x : Str) : Str := match (aliases.filter (·.1 == x)).getLast? with | some p => p.2 | none => x
    let grouped := rawDeps.foldl (fun acc d => addDep acc d.1 d.2) []
    let unified := grouped.foldl (fun acc kv => kv.2.foldl (fun acc v => addDep acc (unify kv.1) (unify v)) acc) []
    let all := dedup (modules.map (·.name) ++ unified.map (·.1) ++ unified.flatMap (·.2))
    pure ⟨all, unified⟩
  else .error .pumlParsingError

/-! ### DiagramRule -/

/-- `ModulePrefixer.prefix` -/
def prefixParsed (p : Parsed') (pre : Option Str) : Parsed' :=
  match pre with
  | none => p
  | some q =>
    let f (m : Str) : Str := q ++ '.' :: m
    ⟨p.modules.map f, p.dependencies.map fun kv => (f kv.1, kv.2.map f)⟩

/-- `DependencyToRuleConverter.convert`: rule states in evaluation order -/
def diagramRules (shouldOnly : Bool) (p : Parsed') : List RuleState :=
  let mk (subj : Str) (objs : List Str) (verb : RuleOp) : RuleState :=
    { cfg := { subjects := some [.name subj], objects := some (objs.map .name),
               should := verb == .should, shouldOnly := verb == .shouldOnly, shouldNot := verb == .shouldNot,
               importDir := some true }, next := some false }
  let shoulds := p.dependencies.map fun kv => mk kv.1 kv.2 (if shouldOnly then .shouldOnly else .should)
  let shouldNots := (sortStr (dedup p.modules)).filterMap fun m =>
    let imported := match p.dependencies.find? (·.1 == m) with | some kv => kv.2 | none => []
    let notImported := (dedup p.modules).filter fun x => x != m && !imported.contains x
    if notImported.isEmpty then none else some (mk m (sortStr notImported) .shouldNot)
  shoulds ++ shouldNots

inductive DVerdict
  | pass
  | fail (items : List Item)      -- union of the items of all failing generated rules
  | err (k : ErrKind)
deriving Repr

/-- `MultipleRuleApplier.assert_applies`: every rule is evaluated; AssertionErrors are collected, any
    other exception propagates at once -/
def applyAll (mt : Str → Str → Bool) (g : PGraph Str) (rules : List RuleState) : DVerdict :=
  let rec go (acc : List Item) (failed : Bool) : List RuleState → DVerdict
    | [] => if failed then .fail acc else .pass
    | r :: rs =>
      match (assertApplies mt r g).2 with
      | .pass => go acc failed rs
      | .fail items => go (acc ++ items) true rs
      | .err k => .err k
  go [] false rules

/-- `DiagramRule.assert_applies` given the file content (`none`: no file configured), BEFORE the repair of F-C13c:
    the generated rules are applied without checking that the components of the diagram are modules of the
    architecture (a diagram with one component and no arrow generates no rule, so that component is never looked up). -/
def diagramAssertBeforeRepair (mt : Str → Str → Bool) (content : Option Str) (base : Option Str) (shouldOnly : Bool)
    (g : PGraph Str) : DVerdict :=
  match content with
  | none => .err .improperlyConfigured
  | some c =>
    match pumlParse c with
    | .error k => .err k
    | .ok p => applyAll mt g (diagramRules shouldOnly (prefixParsed p base))

/-- the repair of F-C13c: `[m for m in dependencies_with_fully_qualified_names.all_modules if m not in evaluable.modules]`
    is non-empty (`evaluable.modules` is the node list of the graph) -/
def diagramMissing (p : Parsed') (g : PGraph Str) : Bool := p.modules.any fun m => !g.hasNode m

/-- `DiagramRule.assert_applies` given the file content (`none`: no file configured), after the repair of F-C13c:
    file present (else ImproperlyConfigured) → parse (else PumlParsingError) → prefix → every (prefixed) component is a
    module of the architecture (else `KeyError`, a lookup error) → the generated rules are applied. -/
def diagramAssert (mt : Str → Str → Bool) (content : Option Str) (base : Option Str) (shouldOnly : Bool)
    (g : PGraph Str) : DVerdict :=
  match content with
  | none => .err .improperlyConfigured
  | some c =>
    match pumlParse c with
    | .error k => .err k
    | .ok p =>
      if diagramMissing (prefixParsed p base) g then .err .lookupError
      else applyAll mt g (diagramRules shouldOnly (prefixParsed p base))

end Pta

/-! ### the `DiagramRule` builder as a state machine (property C13)

  `DiagramRule(should_only_rule).from_file(path).with_base_module(name) / .base_module_included_in_module_names()`
  followed by `assert_applies`. None of the three builder calls raises; `from_file` overwrites `_file_path`,
  `with_base_module` overwrites `_name_relative_to_root`, and `base_module_included_in_module_names` returns `self`
  unchanged — it does NOT clear a prefix set earlier. The file is read by `assert_applies`; the model identifies a path
  with the content `PumlParser.parse` finds there (the file system is a parameter, as for `diagramAssert`). -/
namespace Pta

structure DiagramRuleState where
  file : Option Str := none          -- `_file_path`: the CONTENT of the file last passed to `from_file`
  base : Option Str := none          -- `_name_relative_to_root`
  shouldOnly : Bool := true          -- `_should_only_rule` (constructor argument)
deriving DecidableEq, Repr

inductive DiagramRuleOp
  | fromFile (content : Str)
  | withBaseModule (p : Str)
  | baseModuleIncluded
deriving DecidableEq, Repr

def DiagramRuleState.step (s : DiagramRuleState) : DiagramRuleOp → DiagramRuleState
  | .fromFile c => { s with file := some c }
  | .withBaseModule p => { s with base := some p }
  | .baseModuleIncluded => s

/-- the builder state after a history of calls on `DiagramRule(should_only_rule)` -/
def diagramRuleStateAfter (shouldOnly : Bool) (ops : List DiagramRuleOp) : DiagramRuleState :=
  ops.foldl DiagramRuleState.step { shouldOnly := shouldOnly }

/-- `DiagramRule.assert_applies` on a builder state -/
def DiagramRuleState.assertApplies (mt : Str → Str → Bool) (s : DiagramRuleState) (g : PGraph Str) : DVerdict :=
  diagramAssert mt s.file s.base s.shouldOnly g

/-- `DiagramRule(should_only_rule).<ops…>.assert_applies(g)` -/
def runDiagramOps (shouldOnly : Bool) (ops : List DiagramRuleOp) (mt : Str → Str → Bool) (g : PGraph Str) : DVerdict :=
  (diagramRuleStateAfter shouldOnly ops).assertApplies mt g

end Pta
