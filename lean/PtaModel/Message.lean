/-
  PtaModel.Message — rule_assessment/error_message/message_generator.py: the TEXT of the violation message
  (`RuleViolationMessageBaseGenerator`, `RuleViolationMessageGenerator`, `LayerRuleViolationMessageGenerator`),
  transcribed function by function, plus text-valued variants of `assert_applies` that run the existing pipeline
  (same queries, same eight buckets) and hand the buckets to the text generator instead of the item generator.

  Python sets. The eight buckets of `RuleViolations` are `set[Dependency]`; the model keeps them as lists. Iterating a
  set is modelled by `setIter` (each element once). The order in which Python iterates a set is unspecified, but every
  iteration below ends in a `sorted(...)` / `.sort()` before anything is emitted, and the final list of lines is
  `sorted(list(set(lines)))`; so the list order chosen by `setIter` never shows in the result
  (`PtaProofs/Lemmas/MessageText.lean: canon_ext`), and the message is a deterministic LIST of lines.
-/
import PtaModel.Layer
namespace Pta

/-- `RuleViolatedMessage` -/
structure Msg where
  subject : Str
  verb : Str
  object : Str
deriving DecidableEq, Repr

/-- `f"{message.rule_subject} {message.rule_verb} {message.rule_object}."` -/
def Msg.text (m : Msg) : Str := m.subject ++ ' ' :: (m.verb ++ ' ' :: (m.object ++ ['.']))

/-- iterating a Python `set` that the model keeps as a list: every element once -/
def setIter {α : Type} [DecidableEq α] (l : List α) : List α := dedup l

/-! ### constants -/

def kwImport : Str := "import".toList                                   -- IMPORT
def kwImportedBy : Str := "imported by".toList                          -- IMPORTED_BY
def kwThirdPerson : Str := "s".toList                                   -- THIRD_PERSON_SINGULAR
def kwSubmoduleMarker : Str := "a sub module of ".toList                -- RULE_OBJECT_IS_SUBMODULE_MARKER
def kwAnyModule : Str := "any module that is not ".toList               -- ANY_MODULE_THAT_IS_NOT
def kwAnyLayer : Str := "any layer that is not ".toList                 -- ANY_LAYER_THAT_IS_NOT
def kwSubModulesOf : Str := "Sub modules of ".toList
def kwCommaSpace : Str := ", ".toList

/-- `PREFIX_MAPPING[(import, negated, subject singular)]` — a `defaultdict(str)`: the two missing keys give `""` -/
def verbPrefix (importRule negated singular : Bool) : Str :=
  match importRule, negated, singular with
  | false, false, true => "is ".toList
  | false, true, true => "is not ".toList
  | true, true, true => "does not ".toList
  | false, false, false => "are ".toList
  | false, true, false => "are not ".toList
  | true, true, false => "do not ".toList
  | true, false, _ => []

/-- `self._base_verb` -/
def baseVerb (importRule : Bool) : Str := if importRule then kwImport else kwImportedBy

/-- `_get_verb_suffix` -/
def verbSuffix (importRule singular : Bool) : Str :=
  if !singular then [] else if importRule then kwThirdPerson else []

/-- `_concatenate_verb` -/
def concatVerb (verb pre suf : Str) : Str := pre ++ verb ++ suf

/-- `_get_quoted_name` -/
def quotedName (n : Str) : Str := '"' :: (n ++ ['"'])

/-- `_get_rule_object` (`is_single_module` = not a `ModuleGroup`) -/
def ruleObjectText (o : Mod) : Str := (if !o.group then [] else kwSubmoduleMarker) ++ quotedName o.id

/-- `_get_rule_subject_formatted` -/
def ruleSubjectText (s : Mod) : Str := (if s.group then kwSubModulesOf else []) ++ quotedName s.id

/-! ### module rules: `RuleViolationMessageGenerator` -/

/-- `_get_violating_rule_subjects_and_objects`: the set of rule subjects, and for each of them the list of its rule
    objects in the order the bucket (a set) is iterated -/
def violatingSubjectsAndObjects (bucket : List Dep) : List (Mod × List Mod) :=
  let ds := setIter bucket
  (setIter (ds.map (·.1))).map fun s => (s, (ds.filter fun d => d.1 = s).map (·.2))

/-- `_add_combined_rule_objects` -/
def addCombinedRuleObjects (ruleObjects : List Str) (ruleSubject ruleVerb : Str) : List Msg :=
  let combined := joinWith kwCommaSpace ruleObjects
  if !combined.isEmpty then [⟨ruleSubject, ruleVerb, combined⟩] else []

/-- `_add_combined_any_rule_objects` -/
def addCombinedAnyRuleObjects (ruleObjects : List Str) (ruleSubject ruleVerb ruleObjectType : Str) : List Msg :=
  if !ruleObjects.isEmpty then [⟨ruleSubject, ruleVerb, ruleObjectType ++ joinWith kwCommaSpace ruleObjects⟩] else []

/-- `_create_no_import_between_original_subject_and_objects_message` -/
def noImportBetweenMsgs (importRule : Bool) (bucket : List Dep) : List Msg :=
  (violatingSubjectsAndObjects bucket).flatMap fun so =>
    let ruleVerb := concatVerb (baseVerb importRule) (verbPrefix importRule true (!so.1.group)) []
    let ruleObjects := sortStr (so.2.map ruleObjectText)
    addCombinedRuleObjects ruleObjects (ruleSubjectText so.1) ruleVerb

/-- `_create_no_import_other_than_between_original_subject_and_objects_message` -/
def noImportOtherThanMsgs (importRule : Bool) (bucket : List Dep) : List Msg :=
  (violatingSubjectsAndObjects bucket).flatMap fun so =>
    let ruleVerb := concatVerb (baseVerb importRule) (verbPrefix importRule true (!so.1.group)) []
    let ruleObjects := sortStr (so.2.map ruleObjectText)
    addCombinedAnyRuleObjects ruleObjects (ruleSubjectText so.1) ruleVerb kwAnyModule

/-- the sort key `(m.rule_subject, m.rule_object)` of `_create_other_violating_dependencies_message`, as `≤` on tuples -/
def msgKeyLe (a b : Msg) : Bool :=
  if strLt a.subject b.subject then true
  else if strLt b.subject a.subject then false
  else strLe a.object b.object

/-- `_create_other_violating_dependencies_message`, the names already completed by
    `_get_rule_subject_and_object_of_dependency` (quoted, with the layer suffix for layer rules) -/
def otherViolatingOfNames (importRule : Bool) (names : List (Str × Str)) : List Msg :=
  let ruleVerb := concatVerb (baseVerb importRule) (verbPrefix importRule false true) (verbSuffix importRule true)
  sortBy msgKeyLe (names.map fun n => ⟨n.1, ruleVerb, n.2⟩)

/-- `_get_suffix` (module generator): "no suffix needed here" -/
def moduleSuffix (_ : Str) : Str := []

/-- `_get_rule_subject_and_object_of_dependency` (module generator) -/
def subjectAndObjectOfDependency (d : Dep) : Str × Str :=
  (quotedName d.1.id ++ moduleSuffix d.1.id, quotedName d.2.id ++ moduleSuffix d.2.id)

/-- `_create_other_violating_dependencies_message` (module rules) -/
def otherViolatingMsgs (importRule : Bool) (bucket : List Dep) : List Msg :=
  otherViolatingOfNames importRule ((setIter bucket).map subjectAndObjectOfDependency)

/-- `_create_violation_messages`: should, should only (forbidden import, no import), should not, should except,
    should only except (forbidden import, no import), should not except -/
def violationMessages (importRule : Bool) (v : Violations) : List Msg :=
  noImportBetweenMsgs importRule v.should ++
  (otherViolatingMsgs importRule v.shouldOnlyForbidden ++ noImportBetweenMsgs importRule v.shouldOnlyNoImport) ++
  otherViolatingMsgs importRule v.shouldNot ++
  noImportOtherThanMsgs importRule v.shouldExcept ++
  (otherViolatingMsgs importRule v.shouldOnlyExceptForbidden ++ noImportOtherThanMsgs importRule v.shouldOnlyExceptNoImport) ++
  otherViolatingMsgs importRule v.shouldNotExcept

/-- the tail of `create_rule_violation_messages`: `sorted(list(set(texts)))` -/
def finishLines (ms : List Msg) : List Str := sortStr (setIter (ms.map Msg.text))

/-- `create_rule_violation_messages` -/
def messageLines (importRule : Bool) (v : Violations) : List Str := finishLines (violationMessages importRule v)

/-- `create_rule_violation_message`: `"\n".join(...)` -/
def messageText (lines : List Str) : Str := joinWith ['\n'] lines

/-! ### layer rules: `LayerRuleViolationMessageGenerator` -/

/-- `_get_suffix` (layer generator) -/
def layerSuffix (m : LayerMap) (name : Str) : Except ErrKind Str := do
  match ← m.layerOf name with
  | none => pure " (no layer)".toList
  | some l => pure (" (layer ".toList ++ quotedName l ++ [')'])

/-- `_get_rule_subject_and_object_of_dependency` (layer generator) -/
def subjectAndObjectOfDependencyL (m : LayerMap) (d : Dep) : Except ErrKind (Str × Str) := do
  let s1 ← layerSuffix m d.1.id
  let s2 ← layerSuffix m d.2.id
  pure (quotedName d.1.id ++ s1, quotedName d.2.id ++ s2)

/-- `_create_other_violating_dependencies_message` (layer rules) -/
def otherViolatingMsgsL (m : LayerMap) (importRule : Bool) (bucket : List Dep) : Except ErrKind (List Msg) := do
  let names ← (setIter bucket).mapM (subjectAndObjectOfDependencyL m)
  pure (otherViolatingOfNames importRule names)

/-- what an f-string prints for a layer name; `None` cannot occur for rules built through `LayerRule`, whose subjects
    and objects are the contents of layers -/
def layerNameText : Option Str → Str
  | none => "None".toList
  | some l => l

/-- the order `sorted(...)` uses on layer names. Python compares `str`s; a `None` next to a `str` would raise
    `TypeError` (unreachable, see `layerNameText`) — the model puts `None` first instead. -/
def layerNameLe : Option Str → Option Str → Bool
  | none, _ => true
  | some _, none => false
  | some a, some b => strLe a b

/-- `_get_violating_rule_subject_and_objects_layers`: the set of subject layers with, for each, the SET of object layers.
    Both results are sets, so meeting a dependency twice changes nothing and the bucket is walked as it is. -/
def violatingSubjectAndObjectLayers (m : LayerMap) (bucket : List Dep) :
    Except ErrKind (List (Option Str × List (Option Str))) := do
  let ls ← bucket.mapM fun d => do
    let a ← m.layerOf d.1.id
    let b ← m.layerOf d.2.id
    pure (a, b)
  pure ((setIter (ls.map (·.1))).map fun s => (s, setIter ((ls.filter fun d => d.1 = s).map (·.2))))

/-- `_prepend_prefix` -/
def prependLayerPrefix (x : Str) (capital : Bool := true) : Str :=
  (if capital then 'L' else 'l') :: ("ayer ".toList ++ x)

/-- the object layers of one subject layer: `sorted(...)` on the layer NAMES, then formatted -/
def objectLayerTexts (objs : List (Option Str)) : List Str :=
  (sortBy layerNameLe objs).map fun l => prependLayerPrefix (quotedName (layerNameText l)) false

/-- `_create_no_import_between_original_subject_and_objects_message` (layer generator) -/
def noImportBetweenMsgsL (m : LayerMap) (importRule : Bool) (bucket : List Dep) : Except ErrKind (List Msg) := do
  let sos ← violatingSubjectAndObjectLayers m bucket
  pure <| sos.flatMap fun so =>
    let ruleVerb := concatVerb (baseVerb importRule) (verbPrefix importRule true true) []
    addCombinedRuleObjects (objectLayerTexts so.2) (prependLayerPrefix (quotedName (layerNameText so.1))) ruleVerb

/-- `_create_no_import_other_than_between_original_subject_and_objects_message` (layer generator) -/
def noImportOtherThanMsgsL (m : LayerMap) (importRule : Bool) (bucket : List Dep) : Except ErrKind (List Msg) := do
  let sos ← violatingSubjectAndObjectLayers m bucket
  pure <| sos.flatMap fun so =>
    let ruleVerb := concatVerb (baseVerb importRule) (verbPrefix importRule true true) []
    addCombinedAnyRuleObjects (objectLayerTexts so.2) (prependLayerPrefix (quotedName (layerNameText so.1))) ruleVerb kwAnyLayer

/-- `_create_violation_messages` with the layer generator's overrides -/
def violationMessagesL (m : LayerMap) (importRule : Bool) (v : Violations) : Except ErrKind (List Msg) := do
  let a ← noImportBetweenMsgsL m importRule v.should
  let b ← otherViolatingMsgsL m importRule v.shouldOnlyForbidden
  let c ← noImportBetweenMsgsL m importRule v.shouldOnlyNoImport
  let d ← otherViolatingMsgsL m importRule v.shouldNot
  let e ← noImportOtherThanMsgsL m importRule v.shouldExcept
  let f ← otherViolatingMsgsL m importRule v.shouldOnlyExceptForbidden
  let g ← noImportOtherThanMsgsL m importRule v.shouldOnlyExceptNoImport
  let h ← otherViolatingMsgsL m importRule v.shouldNotExcept
  pure (a ++ b ++ c ++ d ++ e ++ f ++ g ++ h)

/-- `create_rule_violation_messages` (layer rules) -/
def messageLinesL (m : LayerMap) (importRule : Bool) (v : Violations) : Except ErrKind (List Str) :=
  (violationMessagesL m importRule v).map finishLines

/-! ### `assert_applies` with the message text -/

/-- the outcome of `assert_applies`, the `AssertionError` carrying `"\n".join(lines)` -/
inductive TextVerdict
  | pass
  | fail (lines : List Str)
  | err (k : ErrKind)
deriving DecidableEq, Repr

/-- `RuleMatcher.match` (the pipeline of `matchRule`, the buckets rendered as text) -/
def matchRuleText (mt : Str → Str → Bool) (g : PGraph Str) (b : Behavior) (importRule : Bool)
    (subjects objects : List Filter) : TextVerdict :=
  match convertFilters mt g.nodes subjects with
  | .error k => .err k
  | .ok subs =>
  match convertFilters mt g.nodes objects with
  | .error k => .err k
  | .ok objs =>
  match runQueries g b importRule subs objs with
  | .error k => .err k
  | .ok (expl, other) =>
    let v := detect b importRule expl other (objs.map Filter.toMod)
    if v.any then .fail (messageLines importRule v) else .pass

/-- `Rule.assert_applies` (the pipeline of `assertApplies`) -/
def assertAppliesText (mt : Str → Str → Bool) (s : RuleState) (g : PGraph Str) : RuleState × TextVerdict :=
  if anythingMisused s.cfg then (s, .err .improperlyConfigured)
  else
    let c := convertAliases s.cfg
    let s' := { s with cfg := c }
    if configMissing c then (s', .err .improperlyConfigured)
    else if droppedAbsent g c then (s', .err .lookupError)
    else if c.behavior.inconsistent then (s', .err .ruleInconsistency)
    else
      match c.importDir, c.subjects, c.objects with
      | some d, some ss, some os => (s', matchRuleText mt g c.behavior d ss os)
      | _, _, _ => (s', .err .improperlyConfigured)

/-- the call chain of `runRuleOps`, ending in `assertAppliesText` -/
def runRuleOpsTextGo (glob : Str → Str) (mt : Str → Str → Bool) (g : PGraph Str) (s : RuleState) (i : Nat) :
    List RuleOp → TextVerdict × Nat
  | [] => ((assertAppliesText mt s g).2, i)
  | op :: rest =>
    match s.step glob op with
    | .error k => (.err k, i)
    | .ok s' => runRuleOpsTextGo glob mt g s' (i + 1) rest

def runRuleOpsText (glob : Str → Str) (mt : Str → Str → Bool) (ops : List RuleOp) (g : PGraph Str) :
    TextVerdict × Nat := runRuleOpsTextGo glob mt g {} 0 ops

/-- `LayerRuleMatcher.match` (the pipeline of `matchLayerRule`) -/
def matchLayerRuleText (mt : Str → Str → Bool) (g : PGraph Str) (a : LArch) (b : Behavior) (importRule : Bool)
    (subjects objects : List Filter) : TextVerdict :=
  match convertFilters mt g.nodes subjects with
  | .error k => .err k
  | .ok subs =>
  match convertFilters mt g.nodes objects with
  | .error k => .err k
  | .ok objs =>
  match runQueries g b importRule subs objs with
  | .error k => .err k
  | .ok (expl, other) =>
    let converted := ((subjects ++ objects).filter (·.isRegex)).map (·.id)
    let m := updateLayerMap mt g.nodes a converted
    if !m.consistent then .err .layerMismatch else
    match detectL m b importRule expl other (objs.map Filter.toMod) with
    | .error k => .err k
    | .ok v =>
      if v.any then
        match messageLinesL m importRule v with
        | .error k => .err k
        | .ok lines => .fail lines
      else .pass

/-- `LayerRule.assert_applies` (the pipeline of `assertAppliesLayer`) -/
def assertAppliesLayerText (mt : Str → Str → Bool) (s : LayerRuleState) (g : PGraph Str) : TextVerdict :=
  match s.rule, s.arch with
  | none, _ => .err .improperlyConfigured
  | some _, none => .err .improperlyConfigured
  | some r, some a =>
    if anythingMisused r.cfg then .err .improperlyConfigured
    else
      let c := convertAliases r.cfg
      if configMissing c then .err .improperlyConfigured
      else if droppedAbsent g c then .err .lookupError
      else if c.behavior.inconsistent then .err .ruleInconsistency
      else
        match c.importDir, c.subjects, c.objects with
        | some d, some ss, some os => matchLayerRuleText mt g a c.behavior d ss os
        | _, _, _ => .err .improperlyConfigured

def runLayerRuleOpsTextGo (mt : Str → Str → Bool) (g : PGraph Str) (s : LayerRuleState) (i : Nat) :
    List LayerRuleOp → TextVerdict × Nat
  | [] => (assertAppliesLayerText mt s g, i)
  | op :: rest =>
    match s.step op with
    | .error k => (.err k, i)
    | .ok s' => runLayerRuleOpsTextGo mt g s' (i + 1) rest

def runLayerRuleOpsText (mt : Str → Str → Bool) (ops : List LayerRuleOp) (g : PGraph Str) : TextVerdict × Nat :=
  runLayerRuleOpsTextGo mt g {} 0 ops

end Pta
