/-
  PtaModel.Scan — pytestarch.py (option validation, entry point), file_import/parser.py (directory
  walk, module names), file_import/file_filter.py, file_import/converter.py (import statements to
  Import records; after fixes 203ca2f / 0dc3136), file_import/import_types.py (relative targets),
  file_import/import_filter.py, file_import/importee_module_calculator.py and
  graph_generation/graph_generator.py (after fixes 2a73f45, c4bc59d, ccd1721).

  What is a parameter rather than a model: the file system (a flat list of entries below the root),
  the CPython parser (each `.py` file comes with the list of its `Import` / `ImportFrom` nodes at
  any depth — `Entry.stmts` — or with its AST as a flat node list — `Entry.tree`, from which `collectImports`, the
  walk of `ImportConverter.convert`, computes that list: `Entry.withCollected`), and `re.match` for user-supplied regular expressions (`mt`).
-/
import PtaModel.Graph
import PtaModel.Glob
import PtaModel.Search
namespace Pta

/-- an `ast.Import` / `ast.ImportFrom` node -/
inductive ImportStmt
  | imp (names : List Str)                                       -- import a.b, c as d
  | impFrom (module : Option Str) (names : List Str) (level : Nat) -- from ..m import x, y
deriving DecidableEq, Repr

/-- what `ImportConverter.convert` asks of an AST node: `isinstance(node, (ast.Import, ast.ImportFrom))`, and for
    those the data `_convert` reads; every other node class (`Module`, `If`, `Try`, `ExceptHandler`, `match_case`,
    `FunctionDef`, `ClassDef`, `Expr`, …) is `other` with its class name -/
inductive AstKind
  | imp (names : List Str)
  | impFrom (module : Option Str) (names : List Str) (level : Nat)
  | other (cls : Str)
deriving DecidableEq, Repr

/-- One node of a file's AST. The tree is a flat list of nodes: `path` = child indices from the `ast.Module` node
    (the root has path `[]`; the `i`-th node `ast.iter_child_nodes` yields for the node at `p` has path `p ++ [i]`),
    `field` = name of the parent's field the node sits in (`body`, `orelse`, `handlers`, `finalbody`, `cases`, …;
    empty for the root). -/
structure AstNode where
  path : List Nat
  kind : AstKind
  field : Str := []
deriving DecidableEq, Repr

/-- a directory entry below the root: path components relative to the root directory -/
structure Entry where
  rel : List Str
  isDir : Bool
  stmts : List ImportStmt := []       -- for files: every import statement of the file
  tree : List AstNode := []           -- for files, optional: the AST (see `collectImports`, `Entry.withCollected`)
deriving Repr

/-- how an exclusion tuple is interpreted -/
inductive Patterns
  | globs (ps : List Str)       -- exclusions / external_exclusions (converted by convert_partial_match_to_regex)
  | regexes (ps : List Str)     -- regex_exclusions / regex_external_exclusions
deriving Repr

/-- `FileFilter.is_excluded`: `any(re.match(p, s))`. Glob patterns go through the converter and the
    emitted-class matcher; user regexes through the uninterpreted `mt`. A converted glob the emitted-class
    parser does not recognise cannot occur (PtaProofs: `parseEmitted_convert`); `false` is never used. -/
def isExcluded (mt : Str → Str → Bool) (ps : Patterns) (s : Str) : Bool :=
  match ps with
  | .globs gs => gs.any fun g => (matchEmitted (convertPartialMatch g) s) == some true
  | .regexes rs => rs.any fun r => mt r s

def Patterns.isEmpty : Patterns → Bool
  | .globs l => l.isEmpty
  | .regexes l => l.isEmpty

/-- `str(path)` for a path below the root directory `base` -/
def pathStr (base : Str) (rel : List Str) : Str :=
  rel.foldl (fun acc c => acc ++ '/' :: c) base

/-- `path.suffix == ".py"` for the generated names (a non-empty stem followed by ".py") -/
def isPyFile (name : Str) : Bool := endsWith ".py".toList name && name.length > 3

/-- `Path.with_suffix("")` on the last component (file names: drop the last ".ext") -/
def dropSuffix (name : Str) : Str :=
  match (name.reverse.dropWhile (· != '.')) with
  | [] => name                          -- no dot: unchanged
  | _ :: stemRev => if stemRev.isEmpty then name else stemRev.reverse

/-- `Parser._get_module_name` -/
def moduleName (rootName : Str) (rel : List Str) : Str :=
  match rel.reverse with
  | [] => rootName
  | last :: initRev => joinDots (rootName :: (initRev.reverse ++ [dropSuffix last]))

def childrenOf (entries : List Entry) (p : List Str) : List Entry :=
  entries.filter fun e => e.rel.length == p.length + 1 && e.rel.take p.length == p

structure Parsed where
  allModules : List Str := []
  files : List (Str × List ImportStmt) := []       -- NamedModule: module name with its import statements
deriving Repr

def Parsed.append (a b : Parsed) : Parsed := ⟨a.allModules ++ b.allModules, a.files ++ b.files⟩

/-- `Parser.parse`, as a depth-bounded recursive descent (the Python uses an explicit stack; the
    visiting order only affects list order). `excl` is `FileFilter.is_excluded` on path strings. -/
def parseWalk (excl : Str → Bool) (base rootName : Str) (entries : List Entry) :
    Nat → Entry → Parsed
  | 0, _ => {}
  | fuel + 1, e =>
    let path := pathStr base e.rel
    if e.isDir then
      if excl path then {}
      else
        (childrenOf entries e.rel).foldl (fun acc c => acc.append (parseWalk excl base rootName entries fuel c))
          { allModules := [moduleName rootName e.rel] }
    else
      match e.rel.getLast? with
      | none => {}
      | some name =>
        if isPyFile name && !excl path then
          { allModules := [moduleName rootName e.rel], files := [(moduleName rootName e.rel, e.stmts)] }
        else {}

def maxDepth (entries : List Entry) : Nat := entries.foldl (fun m e => max m e.rel.length) 0

/-- `is_internal_module` -/
def isInternal (name internalPrefix : Str) : Bool := isModuleOrSub internalPrefix name

/-- `ImportConverter._adjust_with_root_prefix` -/
def adjustWithRootPrefix (name absPrefix : Str) (internal : List Str) : Str :=
  let potential := absPrefix ++ '.' :: name
  if internal.contains potential then potential else name

/-- `RelativeImport._calculate_importee`: `hierarchy[-level] + "." + name`; IndexError when too deep -/
def relativeImportee (importer name : Str) (level : Nat) : Except ErrKind Str :=
  let hier := parentModules importer
  if level == 0 || level > hier.length then .error .lookupError
  else
    match hier[hier.length - level]? with
    | some base => .ok (base ++ '.' :: name)
    | none => .error .lookupError

/-- `ImportConverter._convert` for one statement of module `importer` -/
def convertStmt (importer absPrefix : Str) (internal : List Str) : ImportStmt → Except ErrKind (List ImportRec)
  | .imp names => .ok (names.map fun n => absImport importer (adjustWithRootPrefix n absPrefix internal))
  | .impFrom module names 0 =>
    match module with
    | none => .error .lookupError       -- cannot be produced by the parser (level 0 always has a module)
    | some m =>
      .ok (names.map fun n =>
        let sub := adjustWithRootPrefix (m ++ '.' :: n) absPrefix internal
        if internal.contains sub then absImport importer sub
        else absImport importer (adjustWithRootPrefix m absPrefix internal))
  | .impFrom module names level =>
    names.mapM fun n => do
      let relName := match module with | some m => m | none => n
      let importee ← relativeImportee importer relName level
      -- after fix 36379e2 the importee's parent modules are those of the RESOLVED importee
      let plain : ImportRec := absImport importer importee
      match module with
      | none => pure plain
      | some m =>
        let subName := m ++ '.' :: n
        let subImportee ← relativeImportee importer subName level
        pure (if internal.contains subImportee then absImport importer subImportee else plain)

/-! ### the AST walk of `ImportConverter.convert` (after fix 203ca2f)

  ```
  module_to_search = asts                      # one NamedModule(ast.Module, name) per file
  while module_to_search:
      module = module_to_search.pop()
      if not isinstance(ast_module, (ast.Import, ast.ImportFrom)):
          module_to_search.extend([NamedModule(m, module_name) for m in ast.iter_child_nodes(ast_module)])
      else:
          imports.extend(self._convert(...))
  ```
  Every stack element carries its file's module name and the result is a concatenation, so the loop is the
  concatenation (last file first) of one walk per file; `convertAll` folds over the files and their statements.
  Below: the walk of ONE file, from its `ast.Module` node. The stack's top is the head of the list, so
  `extend(children)` followed by `pop()` is `children.reverse ++ rest`. -/

/-- `_convert` applies to this node (it is an `ast.Import` / `ast.ImportFrom`): the statement it reads -/
def AstNode.stmt? (n : AstNode) : Option ImportStmt :=
  match n.kind with
  | .imp names => some (.imp names)
  | .impFrom m names level => some (.impFrom m names level)
  | .other _ => none

/-- `ast.iter_child_nodes(node)` for the node at `p`: ALL nodes one level below it, whatever field they sit in.
    Order = list order; for a tree listed in pre-order (as the driver's parser lists it) that is ascending child
    index, the order `iter_child_nodes` yields. -/
def astChildren (nodes : List AstNode) (p : List Nat) : List AstNode :=
  nodes.filter fun m => m.path.length == p.length + 1 && p.isPrefixOf m.path

/-- the `while module_to_search` loop. `follow` selects the children that are pushed: all of them in the library
    as it is (`collectImports`), those in the field `body` before fix 203ca2f (`collectBodyOnly`). One iteration
    per unit of fuel; `acc` = `imports` (statements in the order `_convert` is reached for them). -/
def walkLoop (follow : AstNode → Bool) (nodes : List AstNode) :
    Nat → List AstNode → List ImportStmt → List ImportStmt
  | 0, _, acc => acc
  | _ + 1, [], acc => acc
  | fuel + 1, n :: rest, acc =>
    match n.stmt? with
    | some st => walkLoop follow nodes fuel rest (acc ++ [st])
    | none => walkLoop follow nodes fuel (((astChildren nodes n.path).filter follow).reverse ++ rest) acc

/-- the `ast.Module` node(s): path `[]` -/
def astRoots (nodes : List AstNode) : List AstNode := nodes.filter fun n => n.path.isEmpty

/-- `ImportConverter.convert` for one file: the import statements the walk reaches, in the order it reaches them.
    On a tree (unique paths) every node is pushed at most once, so `nodes.length + 1` iterations suffice
    (PtaProofs/Lemmas/AstWalk.lean: `walkLoop_perm`). -/
def collectImports (nodes : List AstNode) : List ImportStmt :=
  walkLoop (fun _ => true) nodes (nodes.length + 1) (astRoots nodes) []

/-- the walk BEFORE fix 203ca2f (defect F-C02a): `if hasattr(node, "body"): extend(node.body) else: _convert(node)` —
    only the children in the field `body` are pushed (a node without that field has none; `_convert` yields nothing
    for a node that is not an import) -/
def collectBodyOnly (nodes : List AstNode) : List ImportStmt :=
  walkLoop (fun c => c.field == "body".toList) nodes (nodes.length + 1) (astRoots nodes) []

/-- a file entry whose statements are what the walk collects from its AST -/
def Entry.withCollected (e : Entry) : Entry := { e with stmts := collectImports e.tree }

structure ScanOptions where
  exclusions : Patterns
  excludeExternal : Bool := true
  levelLimit : Option Nat := none
  externalExclusions : Patterns := .regexes []
deriving Repr

/-- `_add_extra_levels_to_limit_if_root_and_module_path_differ` -/
def shiftedLimit (o : ScanOptions) (mp : List Str) : Option Nat :=
  o.levelLimit.map fun k => if !mp.isEmpty then k + mp.length else k

/-- `_get_all_ast_modules`: the walk from `module_path` -/
def scanParsed (mt : Str → Str → Bool) (base rootName : Str) (mp : List Str) (entries : List Entry) (o : ScanOptions) : Parsed :=
  parseWalk (isExcluded mt o.exclusions) base rootName entries (maxDepth entries + 2) { rel := mp, isDir := true }

/-- `_get_internal_module_prefix` (after fix 2a73f45: the name of the base module, no trailing dot) -/
def internalPrefix (rootName : Str) (mp : List Str) : Str := if !mp.isEmpty then joinDots (rootName :: mp) else rootName

/-- `_get_absolute_import_prefix` -/
def absolutePrefix (rootName : Str) (mp : List Str) : Str := if !mp.isEmpty then joinDots (rootName :: mp.dropLast) else []

/-- `_get_imports_from_ast`: every statement of every parsed file, converted -/
def convertAll (parsed : Parsed) (absPrefix : Str) (internal : List Str) : Except ErrKind (List ImportRec) :=
  parsed.files.foldlM (fun acc f => do
      let is ← f.2.foldlM (fun acc2 st => do
        let r ← convertStmt f.1 absPrefix internal st
        pure (acc2 ++ r)) []
      pure (acc ++ is)) []

/-- `ExternalImportFilter.filter` -/
def retainImports (mt : Str → Str → Bool) (o : ScanOptions) (pre : Str) (imports : List ImportRec) : List ImportRec :=
  let extExcluded (s : Str) : Bool := isExcluded mt o.externalExclusions s
  if !o.excludeExternal && o.externalExclusions.isEmpty then imports
  else if !o.externalExclusions.isEmpty then
    imports.filter fun i => isInternal i.importee pre || !(extExcluded i.importee || i.importeeParents.any extExcluded)
  else imports.filter fun i => isInternal i.importee pre

/-- `_append_external_modules_to_module_list` as it was BEFORE the repair of F-C10e (library commit 4ee40c9):
    `ImporteeModuleCalculator.calculate_importee_modules` skipped every importee whose dotted name contains
    `str(root_path)` (= `base`) as a substring. Kept verbatim for the before/after theorems in `Props/C10.lean`;
    not used by `generateGraph`. -/
def moduleListBeforeRepair (mt : Str → Str → Bool) (base : Str) (o : ScanOptions) (pre : Str) (parsedModules : List Str)
    (imports : List ImportRec) : List Str :=
  if o.excludeExternal then parsedModules
  else
    let ext := imports.filter fun i => !isInternal i.importee pre
    let added := ext.flatMap fun i => if isInfix base i.importee then [] else i.importee :: i.importeeParents
    let all := dedup (parsedModules ++ added)
    if o.externalExclusions.isEmpty then all
    else all.filter fun m => parsedModules.contains m || !isExcluded mt o.externalExclusions m

set_option linter.unusedVariables false in
/-- `_append_external_modules_to_module_list` (after the repair of F-C10e, library commit 4ee40c9):
    `ImporteeModuleCalculator.calculate_importee_modules` adds the importee and its parent modules of EVERY
    external import; the substring test against `str(root_path)` is gone. The parameter `base` stays in the
    signature (the call sites pass it) but is unused. -/
def moduleList (mt : Str → Str → Bool) (base : Str) (o : ScanOptions) (pre : Str) (parsedModules : List Str)
    (imports : List ImportRec) : List Str :=
  if o.excludeExternal then parsedModules
  else
    let ext := imports.filter fun i => !isInternal i.importee pre
    let added := ext.flatMap fun i => i.importee :: i.importeeParents
    let all := dedup (parsedModules ++ added)
    if o.externalExclusions.isEmpty then all
    else all.filter fun m => parsedModules.contains m || !isExcluded mt o.externalExclusions m

/-- `generate_graph` for root directory `base` (named `rootName`), module path `mp` (components
    below the root) and the entries of the tree. -/
def generateGraph (mt : Str → Str → Bool) (base rootName : Str) (mp : List Str) (entries : List Entry)
    (o : ScanOptions) : Except ErrKind (PGraph Str) := do
  let parsed := scanParsed mt base rootName mp entries o
  let pre := internalPrefix rootName mp
  let internal := parsed.allModules.filter fun m => isInternal m pre
  let imports ← convertAll parsed (absolutePrefix rootName mp) internal
  let imports := retainImports mt o pre imports
  pure (buildGraph (moduleList mt base o pre parsed.allModules imports) imports (shiftedLimit o mp))

/-- the option checks at the top of `get_evaluable_architecture` (presence = truthiness of the tuple) -/
structure EntryOptions where
  exclusions : Bool
  regexExclusions : Bool
  externalExclusions : Bool
  regexExternalExclusions : Bool
  excludeExternal : Bool
  modulePathInsideRoot : Bool
deriving DecidableEq, Repr

def entryOptionsError (o : EntryOptions) : Option ErrKind :=
  if o.regexExclusions && o.exclusions then some .improperlyConfigured
  else if o.regexExternalExclusions && o.externalExclusions then some .improperlyConfigured
  else if o.excludeExternal && (o.externalExclusions || o.regexExternalExclusions) then some .improperlyConfigured
  else if !o.modulePathInsideRoot then some .lookupError      -- ValueError from Path.relative_to
  else none

end Pta

/-! ### the two entry points of pytestarch.py: paths, and module objects (property C04)

  `get_evaluable_architecture(root_path, module_path, *options)` checks the options, turns the two strings into
  `pathlib.Path`s, computes `module_path.relative_to(root_path)` and calls `generate_graph`;
  `get_evaluable_architecture_for_module_objects(root_module, module, *options)` computes
  `os.path.dirname(root_module.__file__)`, `os.path.dirname(module.__file__)` and delegates with the six options unchanged.
  Modelled: `posixpath.dirname`, the part of `PurePosixPath` the entry point uses (parsing, `str`, `name`, `relative_to`),
  the option plumbing. Parameters: the file system (`fs`: normalised root path string ↦ entries below that directory) and,
  as everywhere, `mt`. A module object is its `__file__`. -/
namespace Pta

/-- `s.split("/")` — never empty -/
def splitSlash : Str → List Str
  | [] => [[]]
  | c :: cs =>
    match splitSlash cs with
    | [] => [[]]
    | h :: t => if c = '/' then [] :: h :: t else (c :: h) :: t

/-- `posixpath.dirname`:
    ```
    i = p.rfind('/') + 1
    head = p[:i]
    if head and head != '/' * len(head): head = head.rstrip('/')
    return head
    ``` -/
def dirname (p : Str) : Str :=
  let head := (p.reverse.dropWhile (· != '/')).reverse          -- `p[:i]`: up to and including the last '/'; "" without one
  if !head.isEmpty && !head.all (· == '/') then (head.reverse.dropWhile (· == '/')).reverse else head

/-- a parsed `PurePosixPath`: the root (`""`, `"/"`, or `"//"` for exactly two leading slashes) and the components -/
structure PPath where
  root : Str
  parts : List Str
deriving DecidableEq, Repr

/-- `PurePosixPath(s)`: `splitroot`, then the components that are neither empty nor `.` (`..` is kept) -/
def parsePath (s : Str) : PPath :=
  let stripped := s.dropWhile (· == '/')
  let lead := s.length - stripped.length
  let root : Str := if lead == 0 then [] else if lead == 2 then ['/', '/'] else ['/']
  ⟨root, (splitSlash stripped).filter fun x => !x.isEmpty && x != ['.']⟩

/-- `str(path)` -/
def PPath.str (p : PPath) : Str :=
  let s := p.root ++ joinWith ['/'] p.parts
  if s.isEmpty then ['.'] else s

/-- `path.name` -/
def PPath.name (p : PPath) : Str :=
  match p.parts.getLast? with
  | some n => n
  | none => []

/-- `m.relative_to(r)`: same root and the components of `r` are a prefix of those of `m`; otherwise `ValueError` -/
def PPath.relativeTo (m r : PPath) : Except ErrKind (List Str) :=
  if m.root == r.root && r.parts.isPrefixOf m.parts then .ok (m.parts.drop r.parts.length)
  else .error .lookupError

/-- what `get_evaluable_architecture` derives from its two path arguments: `str(root_as_path)` (the `base` of `pathStr`),
    `root_as_path.name` and the components of `module_as_path.relative_to(root_as_path)` (`mp`; empty iff the
    `path_diff_between_root_and_module` is `"."`) -/
def entryPaths (rootPath modulePath : Str) : Except ErrKind (Str × Str × List Str) :=
  let r := parsePath rootPath
  match (parsePath modulePath).relativeTo r with
  | .ok mp => .ok (r.str, r.name, mp)
  | .error k => .error k

/-- the six options of both entry points, with the defaults of the signature (`None` = `none`) -/
structure EntryArgs where
  exclusions : List Str := ["*__pycache__*".toList]
  excludeExternal : Bool := true
  levelLimit : Option Nat := none
  regexExclusions : Option (List Str) := none
  externalExclusions : Option (List Str) := none
  regexExternalExclusions : Option (List Str) := none
deriving Repr

/-- truthiness of an optional tuple -/
def tupleGiven : Option (List Str) → Bool
  | some l => !l.isEmpty
  | none => false

/-- the flags `entryOptionsError` looks at -/
def EntryArgs.flags (a : EntryArgs) (inside : Bool) : EntryOptions :=
  ⟨!a.exclusions.isEmpty, tupleGiven a.regexExclusions, tupleGiven a.externalExclusions,
   tupleGiven a.regexExternalExclusions, a.excludeExternal, inside⟩

/-- `if exclusions: regex_exclusions = tuple(convert_partial_match_to_regex(p) …) elif regex_exclusions is None:
    regex_exclusions = ()`; the value then handed to `generate_graph` as `exclusions`. Since the repair c0bb7ac (F-C08a)
    it is never `None`: an empty `exclusions` tuple without `regex_exclusions` means that nothing is excluded.
    (Before the repair the last case was `none`, and `FileFilter(Config(None))` raised a `TypeError` — see
    `EntryArgs.filePatternsBeforeRepair` and `Pta.C08.no_patterns_*`.) -/
def EntryArgs.filePatterns (a : EntryArgs) : Option Patterns :=
  if !a.exclusions.isEmpty then some (.globs a.exclusions)
  else some (.regexes (a.regexExclusions.getD []))

/-- the same computation before the repair c0bb7ac -/
def EntryArgs.filePatternsBeforeRepair (a : EntryArgs) : Option Patterns :=
  if !a.exclusions.isEmpty then some (.globs a.exclusions)
  else a.regexExclusions.map .regexes

/-- the same for `external_exclusions`; `generate_graph` replaces `None` by `()` -/
def EntryArgs.externalPatterns (a : EntryArgs) : Patterns :=
  if tupleGiven a.externalExclusions then .globs (a.externalExclusions.getD [])
  else .regexes (a.regexExternalExclusions.getD [])

/-- the options as `generate_graph` receives them -/
def EntryArgs.scanOptions (a : EntryArgs) : Option ScanOptions :=
  a.filePatterns.map fun ex =>
    { exclusions := ex, excludeExternal := a.excludeExternal, levelLimit := a.levelLimit,
      externalExclusions := a.externalPatterns }

/-- errors of the entry points: the kinds the harness distinguishes, and the `TypeError` of `FileFilter(Config(None))`
    (`for pattern in None`) that `exclusions=()` without `regex_exclusions` ran into at the start of `generate_graph`
    before the repair c0bb7ac; since then `scanOptions` is always `some _` and the branch is dead
    (`Pta.C08.no_type_error`) -/
inductive EntryErr
  | kind (k : ErrKind)
  | typeError
deriving DecidableEq, Repr

/-- `get_evaluable_architecture(root_path, module_path, *options)` -/
def getEvaluableArchitecture (mt : Str → Str → Bool) (fs : Str → List Entry) (rootPath modulePath : Str)
    (a : EntryArgs) : Except EntryErr (PGraph Str) :=
  -- the three option checks (`modulePathInsideRoot := true`: the paths have not been looked at yet)
  match entryOptionsError (a.flags true) with
  | some k => .error (.kind k)
  | none =>
    match entryPaths rootPath modulePath with
    | .error k => .error (.kind k)
    | .ok (base, rootName, mp) =>
      match a.scanOptions with
      | none => .error .typeError
      | some o =>
        match generateGraph mt base rootName mp (fs base) o with
        | .error k => .error (.kind k)
        | .ok g => .ok g

/-- a module object, as far as the entry point looks at it: `module.__file__` -/
structure ModuleObj where
  file : Str
deriving DecidableEq, Repr

/-- `get_evaluable_architecture_for_module_objects(root_module, module, *options)` -/
def scanForModuleObjects (mt : Str → Str → Bool) (fs : Str → List Entry) (rootModule module : ModuleObj)
    (a : EntryArgs) : Except EntryErr (PGraph Str) :=
  let rootPath := dirname rootModule.file
  let modulePath := dirname module.file
  getEvaluableArchitecture mt fs rootPath modulePath a

end Pta
