/-
  PtaModel.Str — raw-string helpers with Python semantics (strings are `List Char`).
  Import-free on purpose: the model compiles into the native driver.
-/
namespace Pta

abbrev Str := List Char

/-- `s.startswith(p)` -/
def startsWith (p s : Str) : Bool :=
  match p, s with
  | [], _ => true
  | _ :: _, [] => false
  | a :: p', b :: s' => a == b && startsWith p' s'

/-- `s.endswith(p)` -/
def endsWith (p s : Str) : Bool := startsWith p.reverse s.reverse

/-- `p in s` (substring test) -/
def isInfix (p : Str) : Str → Bool
  | [] => p.isEmpty
  | c :: s => startsWith p (c :: s) || isInfix p s

/-- `s.split(".")` — never empty; `"".split(".") = [""]` -/
def splitDots : Str → List Str
  | [] => [[]]
  | c :: cs =>
    match splitDots cs with
    | [] => [[]]
    | h :: t => if c = '.' then [] :: h :: t else (c :: h) :: t

/-- `".".join(parts)` -/
def joinDots : List Str → Str
  | [] => []
  | [x] => x
  | x :: y :: r => x ++ '.' :: joinDots (y :: r)

/-- `sep.join(parts)` for an arbitrary separator -/
def joinWith (sep : Str) : List Str → Str
  | [] => []
  | [x] => x
  | x :: y :: r => x ++ sep ++ joinWith sep (y :: r)

/-- lexicographic `<` on strings by code point (Python `str.__lt__`) -/
def strLt : Str → Str → Bool
  | [], [] => false
  | [], _ :: _ => true
  | _ :: _, [] => false
  | a :: as, b :: bs => if a.toNat < b.toNat then true else if b.toNat < a.toNat then false else strLt as bs

def strLe (a b : Str) : Bool := !strLt b a

/-- insertion sort (stable) with a boolean `≤` -/
def insertBy {α : Type} (le : α → α → Bool) (x : α) : List α → List α
  | [] => [x]
  | y :: ys => if le x y then x :: y :: ys else y :: insertBy le x ys

def sortBy {α : Type} (le : α → α → Bool) : List α → List α
  | [] => []
  | x :: xs => insertBy le x (sortBy le xs)

/-- `sorted(xs)` on strings -/
def sortStr (xs : List Str) : List Str := sortBy strLe xs

/-- de-duplicate, keeping first occurrences -/
def dedup {α : Type} [DecidableEq α] : List α → List α
  | [] => []
  | x :: xs => let r := dedup xs; if x ∈ r then r else x :: r

def dedupKeepFirst {α : Type} [DecidableEq α] (l : List α) : List α :=
  (l.foldl (fun acc x => if x ∈ acc then acc else acc ++ [x]) [])

end Pta
