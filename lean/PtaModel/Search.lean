/-
  PtaModel.Search — eval_structure/breadth_first_searches.py (after the `fix:` commits 9bfbfa0 and
  1f57ed2: the two "something else" searches no longer re-queue import targets, so only
  `get_all_submodules_of` / `get_dependency_between_modules` are genuine worklists).

  Worklists are structural recursion on fuel; the top-level definitions fix the fuel and fuel
  sufficiency is proved in PtaProofs/Lemmas/Worklist.lean.
-/
import PtaModel.Graph
namespace Pta

inductive ErrKind
  | improperlyConfigured | ruleInconsistency | impossibleMatch | layerMismatch
  | lookupError | pumlParsingError
deriving DecidableEq, Repr

/-- `ModuleNameFilter` / `ParentModuleNameFilter` / `ModuleNameRegexFilter` -/
inductive Filter
  | name (id : Str)
  | parent (id : Str)
  | regex (pat : Str)
deriving DecidableEq, Repr

namespace Filter
def id : Filter → Str
  | name i => i | parent i => i | regex p => p
def isParent : Filter → Bool
  | parent _ => true | _ => false
def isRegex : Filter → Bool
  | regex _ => true | _ => false
end Filter

variable {α : Type} [DecidableEq α]

/-- the `while nodes_to_check:` loop of `get_all_submodules_of`:
    `work` is the stack (head = next to pop), `seen` the checked set. -/
def subLoop (g : PGraph α) : Nat → List α → List α → List α
  | 0, _, seen => seen
  | _ + 1, [], seen => seen
  | f + 1, n :: rest, seen =>
    if n ∈ seen then subLoop g f rest seen
    else subLoop g f (g.hierChildren n ++ rest) (n :: seen)

def hierCount (g : PGraph α) : Nat := g.edges.countP (·.inh)

/-- `get_all_submodules_of(graph, module)`; networkx raises for an unknown start node -/
def submodulesOf (g : PGraph α) (start : α) : Except ErrKind (List α) :=
  if g.hasNode start then .ok (subLoop g (hierCount g + 2) [start] [])
  else .error .lookupError

/-- `get_parent_nodes` -/
def parentIds (fs : List Filter) : List Str := (fs.filter (·.isParent)).map (·.id)

/-- `get_dependency_between_modules(graph, dependent, dependent_upon)`.
    The traversal from `dependent` follows hierarchy edges exactly like `get_all_submodules_of`;
    for every visited node its import successors inside `dependent_upon`'s sub tree are collected
    unless one end is the parent identifier of an `are_sub_modules_of` filter. -/
def depBetween (g : PGraph Str) (f o : Filter) : Except ErrKind (List (Str × Str)) := do
  let uponNodes ← submodulesOf g o.id
  let own ← submodulesOf g f.id
  let excl := parentIds [f, o]
  pure <| own.flatMap fun n =>
    ((g.importSuccs n).filter fun c => uponNodes.contains c && !excl.contains n && !excl.contains c).map
      fun c => (n, c)

/-- union of the sub-module sets of all `others` different from `self` -/
def exclUnion (g : PGraph Str) (self : Filter) (others : List Filter) : Except ErrKind (List Str) :=
  others.foldlM (fun acc o => if o = self then pure acc else do
    let s ← submodulesOf g o.id
    pure (acc ++ s)) []

/-- `any_dependency_to_module_other_than(graph, dependent, dependent_upons)` -/
def otherFrom (g : PGraph Str) (f : Filter) (os : List Filter) : Except ErrKind (List (Str × Str)) := do
  let excl0 ← exclUnion g f os
  let own ← submodulesOf g f.id
  let skip := if f.isParent then [f.id] else []
  let excl := excl0.filter fun n => !(parentIds os).contains n
  pure <| (own.filter fun n => !skip.contains n).flatMap fun n =>
    ((g.importSuccs n).filter fun c => !excl.contains c && !own.contains c).map fun c => (n, c)

/-- `any_other_dependency_to_module_than(graph, dependents, dependent_upon)` -/
def otherTo (g : PGraph Str) (fs : List Filter) (o : Filter) : Except ErrKind (List (Str × Str)) := do
  let excl0 ← exclUnion g o fs
  let own0 ← submodulesOf g o.id
  let own := if o.isParent then own0.filter (· != o.id) else own0
  let excl := excl0.filter fun n => !(parentIds fs).contains n
  pure <| own.flatMap fun n =>
    ((g.importPreds n).filter fun p => !excl.contains p && !own.contains p).map fun p => (p, n)

end Pta
