/-
  PtaModel.Layer — query_language/layered_architecture_rule.py (LayeredArchitecture and LayerRule
  builders), eval_structure/evaluable_architecture.py (LayerMapping), rule_check/rule_matcher.py
  (LayerRuleMatcher) and rule_check/layer_rule_violation_detector.py (lenient detector), plus the
  layer variant of the message generator — all after the `fix:` commits 71a05f3, c016918, 9704b26,
  6db7459 and 1df0d8a, and after the repair of `LayerRuleMatcher._update_layer_mapping` (a module assigned to two
  layers raises `LayerMismatch`).
-/
import PtaModel.Rule
namespace Pta

/-! ### LayeredArchitecture builder -/

/-- `_modules_by_layer_name` (dict, insertion ordered) -/
abbrev LArch := List (Str × List Filter)

inductive LArchOp
  | withLayer
  | layer (name : Str)
  | containingModules (ms : List Str)       -- a `str` argument is the one-element list
  | matching (regex : Str)
deriving DecidableEq, Repr

def LArch.pending (a : LArch) : List Str := (a.filter fun l => l.2.isEmpty).map (·.1)
def LArch.hasLayer (a : LArch) (n : Str) : Bool := a.any fun l => l.1 == n
def LArch.allIds (a : LArch) : List Str := a.flatMap fun l => l.2.map (·.id)
def LArch.setModules (a : LArch) (n : Str) (ms : List Filter) : LArch :=
  a.map fun l => if l.1 == n then (l.1, ms) else l

def LArch.step (a : LArch) : LArchOp → Except ErrKind LArch
  | .withLayer => .ok a
  | .layer n =>
    if !a.pending.isEmpty then .error .improperlyConfigured
    else if a.hasLayer n then .error .improperlyConfigured
    else .ok (a ++ [(n, [])])
  | .containingModules ms =>
    match a.pending with
    | [p] =>
      if ms.any (fun m => a.allIds.contains m) then .error .improperlyConfigured
      else .ok (a.setModules p (ms.map .name))
    | _ => .error .improperlyConfigured
  | .matching r =>
    match a.pending with
    | [p] => .ok (a.setModules p [.regex r])
    | _ => .error .improperlyConfigured

/-- run a builder history; on error returns the index of the raising call -/
def runLArch (ops : List LArchOp) : Except (ErrKind × Nat) LArch :=
  let rec go (a : LArch) (i : Nat) : List LArchOp → Except (ErrKind × Nat) LArch
    | [] => .ok a
    | op :: rest =>
      match a.step op with
      | .error k => .error (k, i)
      | .ok a' => go a' (i + 1) rest
  go [] 0 ops

/-- `architecture[layer]` -/
def LArch.get (a : LArch) (n : Str) : Except ErrKind (List Filter) :=
  match a.find? (·.1 == n) with
  | some l => .ok l.2
  | none => .error .lookupError

/-! ### LayerMapping -/

/-- the regex-free mapping handed to the detector: layer name ↦ listed module identifiers -/
abbrev LayerMap := List (Str × List Str)

/-- the check added to `LayerRuleMatcher._update_layer_mapping` (repair of the "module assigned to two layers" defect,
    where the layer of such a module depended on the order in which the layers were defined): no identifier is listed by
    two entries that carry different layer names; otherwise `LayerMismatch` is raised (see `matchLayerRule`).
    Listing an identifier twice in the SAME layer is not an error. -/
def LayerMap.consistent (m : LayerMap) : Bool :=
  m.all fun l1 => m.all fun l2 => l1.1 == l2.1 || !(l1.2.any fun id => l2.2.contains id)

/-- `_get_layer_or_none` / `_get_layer`: first entry (in dict order) listing exactly this identifier.
    The dict `_module_filter_mapping` keeps one entry per identifier; on duplicates across layers the
    later layer overwrites the value but the key keeps its first position. On a `consistent` mapping — the only
    mappings the detector and the message generator get to see since the repair — all entries listing an identifier
    carry the same layer name, so which of them is taken no longer matters. -/
def LayerMap.layerOfListed (m : LayerMap) (id : Str) : Option Str :=
  ((m.filter fun l => l.2.contains id).getLast?).map (·.1)

def LayerMap.listed (m : LayerMap) : List Str := m.flatMap (·.2)

/-- `get_layer_for_module_name` -/
def LayerMap.layerOf (m : LayerMap) (name : Str) : Except ErrKind (Option Str) :=
  match m.layerOfListed name with
  | some l => .ok (some l)
  | none =>
    let cands := m.listed.filter fun c => isStrictSub c name
    let layers := dedup (cands.filterMap m.layerOfListed)
    match layers with
    | [] => .ok none
    | [l] => .ok (some l)
    | _ => .error .layerMismatch

/-! ### LayerRule builder -/

structure LayerRuleState where
  arch : Option LArch := none
  rule : Option RuleState := none
deriving Repr

inductive LayerRuleOp
  | basedOn (a : LArch)
  | layersThat
  | areNamed (layers : List Str) (isList : Bool)
  | should | shouldOnly | shouldNot
  | access | beAccessedBy | accessExcept | beAccessedByExcept
  | accessAny | beAccessedByAny
deriving Repr

/-- `Rule._add_modules` / `_append_modules` -/
def RuleState.addModules (s : RuleState) (ms : List Filter) : RuleState :=
  if s.next == some true then
    { s with cfg := { s.cfg with subjects := some ((match s.cfg.subjects with | some l => l | none => []) ++ ms) } }
  else
    { s with cfg := { s.cfg with objects := some ((match s.cfg.objects with | some l => l | none => []) ++ ms) } }

def noGlob : Str → Str := fun s => s

def LayerRuleState.step (s : LayerRuleState) : LayerRuleOp → Except ErrKind LayerRuleState
  | .basedOn a => if s.arch.isSome then .error .improperlyConfigured else .ok { s with arch := some a }
  | .layersThat =>
    match s.arch with
    | none => .error .improperlyConfigured
    | some _ => .ok { s with rule := some { cfg := {}, next := some true } }
  | .areNamed layers isList =>
    match s.rule, s.arch with
    | none, _ => .error .improperlyConfigured
    | some _, none => .error .improperlyConfigured
    | some r, some a =>
      let subjectsEmpty := match r.cfg.subjects with | none => true | some l => l.isEmpty
      if subjectsEmpty && isList then .error .improperlyConfigured
      else if !subjectsEmpty && r.next == some true then .error .improperlyConfigured   -- fix 8558161
      else do
        let ms ← layers.mapM a.get
        pure { s with rule := some (r.addModules ms.flatten) }
  | op =>
    match s.rule with
    | none => .error .improperlyConfigured
    | some r =>
      let rop : RuleOp := match op with
        | .should => .should | .shouldOnly => .shouldOnly | .shouldNot => .shouldNot
        | .access => .importThat | .beAccessedBy => .beImportedByThat
        | .accessExcept => .importExcept | .beAccessedByExcept => .beImportedByExcept
        | .accessAny => .importAnything | _ => .beImportedByAnything
      (r.step noGlob rop).map fun r' => { s with rule := some r' }

/-! ### lenient detector and layer messages -/

inductive LItem
  | imp (importer importee : Str) (byDir : Bool) (tagImporter tagImportee : Option Str)
  | miss (any : Bool) (subjLayer : Option Str) (objLayers : List (Option Str)) (byDir : Bool)
deriving DecidableEq, Repr

inductive LVerdict
  | pass
  | fail (items : List LItem)
  | err (k : ErrKind)
deriving DecidableEq, Repr

/-- drop dependencies between two modules of the same layer (`_get_realised_dependencies` override) -/
def dropSameLayer (m : LayerMap) (ds : List Dep) : Except ErrKind (List Dep) :=
  ds.filterMapM fun d => do
    let l1 ← m.layerOf d.1.id
    let l2 ← m.layerOf d.2.id
    pure (if l1 != l2 then some d else none)

def realisedL (m : LayerMap) (importRule : Bool) {κ : Type} (deps : List (κ × List (Str × Str))) :
    Except ErrKind (List Dep) := dropSameLayer m (realised importRule deps)

/-- `_get_abstract_dependencies_without_any_realisations` -/
def abstractWithoutAny (m : LayerMap) (importRule : Bool) (deps : ExplDeps) : Except ErrKind (List Dep) := do
  let tagged ← deps.mapM fun kd => do
    let relevant := if importRule then kd.1.2 else kd.1.1
    let l ← m.layerOf relevant.id
    pure (l, kd)
  pure <| m.flatMap fun layer =>
    let forLayer := (tagged.filter fun t => t.1 == some layer.1).map (·.2)
    if forLayer.isEmpty then []
    else if forLayer.any fun kd => !kd.2.isEmpty then []
    else forLayer.map fun kd => userOrder importRule kd.1

/-- `_get_any_missing_dependencies_in_user_specified_order` (after fix 9704b26) -/
def anyMissing (m : LayerMap) (importRule : Bool) (deps : OtherDeps) (objs : List Mod) : Except ErrKind (List Dep) := do
  let r ← realisedL m importRule deps
  if !r.isEmpty then pure []
  else pure (deps.flatMap fun kd => objs.map fun o => (kd.1, o))

def detectL (m : LayerMap) (b : Behavior) (importRule : Bool) (expl : Option ExplDeps) (other : Option OtherDeps)
    (objs : List Mod) : Except ErrKind Violations := do
  let onE (flag : Bool) (f : ExplDeps → Except ErrKind (List Dep)) : Except ErrKind (List Dep) :=
    match expl with | some e => if flag then f e else pure [] | none => pure []
  let onO (flag : Bool) (f : OtherDeps → Except ErrKind (List Dep)) : Except ErrKind (List Dep) :=
    match other with | some o => if flag then f o else pure [] | none => pure []
  let shouldNot ← onE b.expExplNotPresent (realisedL m importRule)
  let should ← onE b.expExplPresent (abstractWithoutAny m importRule)
  let shouldOnlyNoImport ← onE b.expExplAndNoOther (abstractWithoutAny m importRule)
  let shouldOnlyForbidden ← onO b.expExplAndNoOther (realisedL m importRule)
  let shouldExcept ← onO b.expAtLeastOneOther (fun o => anyMissing m importRule o objs)
  let shouldOnlyExceptNoImport ← onO b.expExplNotButOthers (fun o => anyMissing m importRule o objs)
  let shouldOnlyExceptForbidden ← onE b.expExplNotButOthers (realisedL m importRule)
  let shouldNotExcept ← onO b.expOtherNotPresent (realisedL m importRule)
  pure { should, shouldOnlyForbidden, shouldOnlyNoImport, shouldNot, shouldExcept,
         shouldOnlyExceptForbidden, shouldOnlyExceptNoImport, shouldNotExcept }

def impItemsL (m : LayerMap) (importRule : Bool) (ds : List Dep) : Except ErrKind (List LItem) :=
  ds.mapM fun d => do
    let p := userOrder importRule (d.1.id, d.2.id)
    let t1 ← m.layerOf p.1
    let t2 ← m.layerOf p.2
    pure (LItem.imp p.1 p.2 (!importRule) t1 t2)

def missItemsL (m : LayerMap) (any : Bool) (importRule : Bool) (ds : List Dep) : Except ErrKind (List LItem) := do
  let ls ← ds.mapM fun d => do
    let a ← m.layerOf d.1.id
    let b ← m.layerOf d.2.id
    pure (a, b)
  pure <| (dedup (ls.map (·.1))).map fun s =>
    LItem.miss any s (dedup ((ls.filter fun d => d.1 = s).map (·.2))) (!importRule)

def reportItemsL (m : LayerMap) (importRule : Bool) (v : Violations) : Except ErrKind (List LItem) := do
  let a ← missItemsL m false importRule v.should
  let b ← impItemsL m importRule v.shouldOnlyForbidden
  let c ← missItemsL m false importRule v.shouldOnlyNoImport
  let d ← impItemsL m importRule v.shouldNot
  let e ← missItemsL m true importRule v.shouldExcept
  let f ← impItemsL m importRule v.shouldOnlyExceptForbidden
  let g ← missItemsL m true importRule v.shouldOnlyExceptNoImport
  let h ← impItemsL m importRule v.shouldNotExcept
  pure (a ++ b ++ c ++ d ++ e ++ f ++ g ++ h)

/-- `LayerRuleMatcher._update_layer_mapping`: regex filters of every layer are replaced by the modules
    the regex was converted to *for this rule*; a regex the rule did not convert contributes nothing -/
def updateLayerMap (mt : Str → Str → Bool) (mods : List Str) (a : LArch) (converted : List Str) : LayerMap :=
  a.map fun l => (l.1, l.2.flatMap fun f =>
    match f with
    | .regex p => if converted.contains p then mods.filter (mt p) else []
    | f => [f.id])

def matchLayerRule (mt : Str → Str → Bool) (g : PGraph Str) (a : LArch) (b : Behavior) (importRule : Bool)
    (subjects objects : List Filter) : LVerdict :=
  match convertFilters mt g.nodes subjects with
  | .error k => .err k
  | .ok subs =>
  match convertFilters mt g.nodes objects with
  | .error k => .err k
  | .ok objs =>
  match runQueries g b importRule subs objs with
  | .error k => .err k
  | .ok (expl, other) =>
    let converted := ((subjects ++ objects).filter (·.isRegex)).map (·.id)
    let m := updateLayerMap mt g.nodes a converted
    -- `_get_rule_violation_detector` → `_update_layer_mapping`: raises after the queries, before the detector runs
    if !m.consistent then .err .layerMismatch else
    match detectL m b importRule expl other (objs.map Filter.toMod) with
    | .error k => .err k
    | .ok v =>
      if v.any then
        match reportItemsL m importRule v with
        | .error k => .err k
        | .ok items => .fail items
      else .pass

/-- `LayerRule.assert_applies` -/
def assertAppliesLayer (mt : Str → Str → Bool) (s : LayerRuleState) (g : PGraph Str) : LVerdict :=
  match s.rule, s.arch with
  | none, _ => .err .improperlyConfigured
  | some _, none => .err .improperlyConfigured     -- unreachable: a rule exists only after based_on
  | some r, some a =>
    if anythingMisused r.cfg then .err .improperlyConfigured
    else
      let c := convertAliases r.cfg
      if configMissing c then .err .improperlyConfigured
      else if droppedAbsent g c then .err .lookupError
      else if c.behavior.inconsistent then .err .ruleInconsistency
      else
        match c.importDir, c.subjects, c.objects with
        | some d, some ss, some os => matchLayerRule mt g a c.behavior d ss os
        | _, _, _ => .err .improperlyConfigured

def runLayerRuleOps (mt : Str → Str → Bool) (ops : List LayerRuleOp) (g : PGraph Str) : LVerdict × Nat :=
  let rec go (s : LayerRuleState) (i : Nat) : List LayerRuleOp → LVerdict × Nat
    | [] => (assertAppliesLayer mt s g, i)
    | op :: rest =>
      match s.step op with
      | .error k => (.err k, i)
      | .ok s' => go s' (i + 1) rest
  go {} 0 ops

end Pta

/-! ### `containing_modules(modules: str | list[str])` with both argument forms (property C16)

  `LArchOp.containingModules ms` above carries the list `modules_list`; the `str` form of the argument used to be
  turned into the one-element list by the harness. Here the argument itself is modelled (`ModArg`), together with the
  line `modules_list = modules if isinstance(modules, list) else [modules]`, so that "string or list" is a statement
  about the model. `LArch.stepCharset` is the code BEFORE fix 1df0d8a, whose duplicate test read `set(modules)`. -/
namespace Pta

/-- the argument of `containing_modules`: a `str` or a `list[str]` -/
inductive ModArg
  | str (s : Str)
  | list (ms : List Str)
deriving DecidableEq, Repr

/-- `modules_list = modules if isinstance(modules, list) else [modules]` -/
def ModArg.toList : ModArg → List Str
  | .str s => [s]
  | .list ms => ms

/-- the elements of `set(modules)` for the RAW argument: iterating a `str` yields its characters, each a
    one-character string; iterating a list yields its elements -/
def ModArg.rawElems : ModArg → List Str
  | .str s => s.map fun c => [c]
  | .list ms => ms

/-- a call on the LayeredArchitecture builder: one of the calls of `LArchOp` (whose `containingModules ms` is the
    list form), or `containing_modules` with an explicit argument form -/
inductive LArchCall
  | op (o : LArchOp)
  | containing (a : ModArg)
deriving DecidableEq, Repr

/-- `containing_modules` as it is (after fix 1df0d8a): the pending-layer check, then `modules_list`, then the duplicate
    test on `set(modules_list)`, then the assignment of `_to_module_objects(modules_list)` -/
def LArch.stepCall (a : LArch) : LArchCall → Except ErrKind LArch
  | .op o => a.step o
  | .containing arg =>
    match a.pending with
    | [p] =>
      let modulesList := arg.toList
      if modulesList.any (fun m => a.allIds.contains m) then .error .improperlyConfigured
      else .ok (a.setModules p (modulesList.map .name))
    | _ => .error .improperlyConfigured

/-- `containing_modules` BEFORE fix 1df0d8a (defect F-C16): `module_set = set(modules)` — the duplicate test looks at
    the elements of the raw argument, for a `str` its characters; the assignment uses `modules_list` as today.
    Everything else as in `LArch.step`. -/
def LArch.stepCharset (a : LArch) : LArchCall → Except ErrKind LArch
  | .op o => a.step o
  | .containing arg =>
    match a.pending with
    | [p] =>
      let modulesList := arg.toList
      if arg.rawElems.any (fun m => a.allIds.contains m) then .error .improperlyConfigured
      else .ok (a.setModules p (modulesList.map .name))
    | _ => .error .improperlyConfigured

/-- the list-form call a call stands for -/
def LArchCall.toOp : LArchCall → LArchOp
  | .op o => o
  | .containing a => .containingModules a.toList

/-- run a history of calls with a given step function; on error the index of the raising call -/
def runLArchCallsFrom (step : LArch → LArchCall → Except ErrKind LArch) (a : LArch) (i : Nat) :
    List LArchCall → Except (ErrKind × Nat) LArch
  | [] => .ok a
  | c :: rest =>
    match step a c with
    | .error k => .error (k, i)
    | .ok a' => runLArchCallsFrom step a' (i + 1) rest

/-- a builder history with both argument forms, on the library as it is -/
def runLArchCalls (cs : List LArchCall) : Except (ErrKind × Nat) LArch := runLArchCallsFrom LArch.stepCall [] 0 cs

/-- the same history on the code before fix 1df0d8a -/
def runLArchCharset (cs : List LArchCall) : Except (ErrKind × Nat) LArch := runLArchCallsFrom LArch.stepCharset [] 0 cs

end Pta
