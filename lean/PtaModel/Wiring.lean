/-
  PtaModel.Wiring — the plumbing the scan model ASSUMES between the public entry points and `generate_graph`
  (src/pytestarch/pytestarch.py).  `ScanOptions` (PtaModel/Scan.lean) has one field per argument of `generate_graph`;
  the model takes for granted that every option of `get_evaluable_architecture` reaches it unchanged and un-swapped
  (`exclusions` from `exclusions` or, converted, from `regex_exclusions`; likewise the external patterns), that the
  module-object entry point passes every option through to the path entry point, and that both entry points have the
  same defaults.  The tables below say exactly that, as data flow: for each parameter of the callee the parameters of the
  caller its argument is computed from.  `Pta.C04.generated_wiring_agree` compares them with the tables
  regenerated from the Python source on every run (lean/Generated/Wiring.lean, harness/translate_wiring.py).
-/
namespace Pta.Wiring

/-- option parameters shared by the two entry points, in signature order -/
def options : List String :=
  ["exclusions", "exclude_external_libraries", "level_limit", "regex_exclusions", "external_exclusions",
   "regex_external_exclusions"]

/-- `get_evaluable_architecture(root_path, module_path, *options)` -/
def entryParams : List String := ["root_path", "module_path"] ++ options

/-- defaults of the options: only the default file exclusion is a value, externals are excluded, everything else absent -/
def defaults : List (String × String) :=
  [("exclusions", "DEFAULT_EXCLUSIONS"), ("exclude_external_libraries", "True"), ("level_limit", "None"),
   ("regex_exclusions", "None"), ("external_exclusions", "None"), ("regex_external_exclusions", "None")]

/-- the default of `exclusions` in the scan model (`ScanOptions.exclusions := .globs ["*__pycache__*"]` in the driver) -/
def defaultExclusions : List String := ["*__pycache__*"]

/-- module-object entry point → path entry point: the two paths come from the two module objects, every option from itself -/
def moduleObjectsFlow : List (String × List String) :=
  [("root_path", ["root_module"]), ("module_path", ["module"])] ++ options.map fun o => (o, [o])

/-- path entry point → `generate_graph`: one `ScanOptions` field per row -/
def generateGraphFlow : List (String × List String) :=
  [("root_path", ["root_path"]), ("module_path", ["module_path"]),
   ("path_diff_between_root_and_module", ["module_path", "root_path"]),
   ("exclusions", ["exclusions", "regex_exclusions"]),                               -- ScanOptions.exclusions
   ("exclude_external_libraries", ["exclude_external_libraries"]),                   -- ScanOptions.excludeExternal
   ("level_limit", ["level_limit"]),                                                 -- ScanOptions.levelLimit
   ("external_exclusions", ["external_exclusions", "regex_external_exclusions"])]    -- ScanOptions.externalExclusions

end Pta.Wiring
