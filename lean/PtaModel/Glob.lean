/-
  PtaModel.Glob — utils/partial_match_to_regex_converter.py transcribed (`convert_partial_match_to_regex`),
  `re.escape` as "backslash before every character of Python's special set", and `matchEmitted`, an
  interpreter for exactly the pattern class the converter emits, standing for `re.match(pattern, s)`.
  The tie between `matchEmitted` and Python's `re` is the exhaustive correspondence run of C08.
-/
import PtaModel.Str
namespace Pta

/-- the characters `re.escape` prefixes with a backslash (CPython `_special_chars_map`) -/
def reSpecial (c : Char) : Bool :=
  "()[]{}?*+-|^$\\.&~# \t\n\r\x0b\x0c".toList.contains c

def reEscape : Str → Str
  | [] => []
  | c :: cs => if reSpecial c then '\\' :: c :: reEscape cs else c :: reEscape cs

/-- Python slice `s[a:b]` for `0 ≤ a`, `0 ≤ b` -/
def pySlice (s : Str) (a b : Nat) : Str := (s.take b).drop a

/-- `convert_partial_match_to_regex` -/
def convertPartialMatch (m : Str) : Str :=
  let allAtStart := startsWith ['*'] m
  let allAtEnd := endsWith ['*'] m
  let len := m.length
  let startIndex := if allAtStart then 1 else 0
  let endIndex := if allAtEnd then len - 1 else len
  let inner := pySlice m startIndex endIndex
  let escaped := reEscape inner
  let escaped := if allAtStart then '.' :: '*' :: escaped else escaped
  if allAtEnd then escaped ++ ['.', '*'] else escaped ++ ['$']

/-- undo `reEscape` on the literal part; `none` if the text is not in the image of `reEscape`
    (an unescaped special character or a dangling backslash) -/
def unescape : Str → Option Str
  | [] => some []
  | '\\' :: c :: cs => if reSpecial c then (unescape cs).map (c :: ·) else none
  | c :: cs => if reSpecial c then none else (unescape cs).map (c :: ·)

/-- shape of an emitted pattern -/
structure Emitted where
  anyStart : Bool
  literal : Str
  anyEnd : Bool      -- false: the pattern ends with `$`
deriving DecidableEq, Repr

/-- parse a pattern of the emitted class: optional leading `.*`, escaped literal, then `.*` or `$` -/
def parseEmitted (p : Str) : Option Emitted :=
  let (anyStart, rest) := match p with
    | '.' :: '*' :: r => (true, r)
    | r => (false, r)
  let rr := rest.reverse
  match rr with
  | '*' :: '.' :: body =>
    -- `\.*` at the end would be an escaped dot followed by a star; the converter never emits that
    -- because a trailing star of the literal is cut off first, but a literal ending in a backslash-dot
    -- can precede the marker, so count the backslashes
    (unescape body.reverse).map fun lit => ⟨anyStart, lit, true⟩
  | '$' :: body => (unescape body.reverse).map fun lit => ⟨anyStart, lit, false⟩
  | _ => none

/-- `re.match(pattern, s) is not None` for an emitted pattern and a subject without newlines
    (`.` does not match `\n`, `$` also matches before a trailing `\n`; both excluded by hypothesis) -/
def emittedMatches (e : Emitted) (s : Str) : Bool :=
  match e.anyStart, e.anyEnd with
  | false, false => s == e.literal
  | false, true => startsWith e.literal s
  | true, false => endsWith e.literal s
  | true, true => isInfix e.literal s

def matchEmitted (p s : Str) : Option Bool := (parseEmitted p).map fun e => emittedMatches e s

/-- the documented meaning of a glob-style pattern -/
def globSpec (m s : Str) : Bool :=
  let allAtStart := startsWith ['*'] m
  let allAtEnd := endsWith ['*'] m
  let inner := pySlice m (if allAtStart then 1 else 0) (if allAtEnd then m.length - 1 else m.length)
  match allAtStart, allAtEnd with
  | false, false => s == inner
  | false, true => startsWith inner s
  | true, false => endsWith inner s
  | true, true => isInfix inner s

end Pta
