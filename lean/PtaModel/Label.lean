/-
  PtaModel.Label — `NetworkxGraph._create_plot_labels_with_alias`, `_assert_aliased_modules_exist`,
  `_create_label` and the kwargs hand-off of `draw` (eval_structure/networkxgraph.py, after fix 8ddf114).
-/
import PtaModel.Search
namespace Pta

/-- stable sort of the aliased names by length, longest first
    (`sorted(aliases.keys(), key=len, reverse=True)`; Python's sort is stable, and `reverse=True`
    keeps the original order among equal keys) -/
def sortByLenDesc (l : List Str) : List Str := sortBy (fun a b => a.length ≥ b.length) l

/-- `_create_label` -/
def createLabel (sortedAliased : List Str) (aliases : List (Str × Str)) (name : Str) : Str :=
  match sortedAliased.find? (fun m => isModuleOrSub m name) with
  | some m =>
    match aliases.find? (·.1 == m) with
    | some a => a.2 ++ name.drop m.length
    | none => name
  | none => name

/-- `_create_plot_labels_with_alias`: `KeyError` for an alias of an unknown module, otherwise one
    label per node. `aliases` is the dict as an association list in insertion order (keys distinct). -/
def plotLabels (nodes : List Str) (aliases : List (Str × Str)) : Except (ErrKind × Str) (List (Str × Str)) :=
  match aliases.find? (fun a => !nodes.contains a.1) with
  | some a => .error (.lookupError, a.1)
  | none =>
    let sorted := sortByLenDesc (aliases.map (·.1))
    .ok (nodes.map fun n => (n, createLabel sorted aliases n))

/-- the keyword arguments of `draw` as the drawing backend receives them: `spacing` is popped and
    replaced by `pos`, `aliases` by `labels`, everything else is passed through untouched.
    `other key val`: any other keyword with an opaque token standing for its value (the list is the
    `kwargs` dict in insertion order). -/
inductive KwArg
  | spacing | aliases | pos | labels | other (key val : Str)
deriving DecidableEq, Repr

def drawKwargs (kw : List KwArg) : List KwArg :=
  let kw := if kw.contains .spacing then (kw.filter (· != .spacing)) ++ [.pos] else kw
  if kw.contains .aliases then (kw.filter (· != .aliases)) ++ [.labels] else kw

end Pta
