/-
  PtaModel.Flags — `BehaviorRequirement` (rule_check/behavior_requirement.py) and
  `_get_dependency_expectations` (rule_check/rule_violation_detector.py).
  The same tables are regenerated from the Python source on every run into Generated/Flags.lean
  and compared with these definitions by a kernel-checked theorem (PtaProofs/Props/C12.lean).
-/
namespace Pta

structure Behavior where
  should : Bool
  shouldOnly : Bool
  shouldNot : Bool
  exc : Bool          -- behavior_exception / except_present
deriving DecidableEq, Repr

namespace Behavior
/-- explicitly_requested_dependency_required -/
def explReq (b : Behavior) : Bool := (b.should || b.shouldOnly) && !b.exc
/-- not_explicitly_requested_dependency_required -/
def otherReq (b : Behavior) : Bool := b.exc && (b.should || b.shouldOnly)
/-- explicitly_requested_dependency_not_allowed -/
def explForb (b : Behavior) : Bool := (b.shouldNot && !b.exc) || (b.shouldOnly && b.exc)
/-- not_explicitly_requested_dependency_not_allowed -/
def otherForb (b : Behavior) : Bool := (b.shouldNot && b.exc) || (b.shouldOnly && !b.exc)
/-- `_validate` raises `RuleInconsistency` -/
def inconsistent (b : Behavior) : Bool :=
  (b.explReq && b.explForb) || (b.otherReq && b.otherForb)

/-! `DependencyExpectation` -/
def expOtherNotPresent (b : Behavior) : Bool := b.shouldNot && b.exc
def expExplNotPresent (b : Behavior) : Bool := b.shouldNot && !b.exc
def expExplAndNoOther (b : Behavior) : Bool := b.shouldOnly && !b.exc
def expExplNotButOthers (b : Behavior) : Bool := b.shouldOnly && b.exc
def expAtLeastOneOther (b : Behavior) : Bool := b.should && b.exc
def expExplPresent (b : Behavior) : Bool := b.should && !b.exc
end Behavior

end Pta
