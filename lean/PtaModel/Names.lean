/-
  PtaModel.Names — `get_parent_modules`, `_flatten_graph_node` (eval_structure/types.py,
  eval_structure/networkxgraph.py), transcribed from the raw-string code.
-/
import PtaModel.Str
namespace Pta

/-- `get_parent_modules`: the loop over characters; `acc` is the prefix read so far (reversed). -/
def parentModulesAux : Str → Str → List Str
  | _, [] => []
  | acc, c :: cs =>
    if c = '.' then acc.reverse :: parentModulesAux (c :: acc) cs
    else parentModulesAux (c :: acc) cs

/-- `get_parent_modules("a.b.c") = ["a", "a.b"]` -/
def parentModules (m : Str) : List Str := parentModulesAux [] m

/-- `_flatten_graph_node`: `".".join(node.split(".")[: limit + 1])` -/
def flattenNode (limit : Option Nat) (n : Str) : Str :=
  match limit with
  | none => n
  | some k => joinDots ((splitDots n).take (k + 1))

/-- boundary-aware "is `n` the module `p` or a dotted extension of it" as the repaired code writes it:
    `n == p or n.startswith(p + ".")` -/
def isModuleOrSub (p n : Str) : Bool := n == p || startsWith (p ++ ['.']) n

/-- `n.startswith(p + ".")` -/
def isStrictSub (p n : Str) : Bool := startsWith (p ++ ['.']) n

end Pta
