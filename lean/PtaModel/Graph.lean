/-
  PtaModel.Graph — model of `NetworkxGraph` (eval_structure/networkxgraph.py): a node list and at
  most one edge record per ordered pair, carrying the `inherits` flag (networkx `DiGraph` keeps one
  attribute dict per (u, v); writing the same pair again overwrites the flag).
-/
import PtaModel.Names
namespace Pta

structure Edge (α : Type) where
  src : α
  dst : α
  inh : Bool
deriving DecidableEq, Repr

structure PGraph (α : Type) where
  nodes : List α
  edges : List (Edge α)
deriving Repr

/-- An import as the graph constructor sees it (`Import` objects): importer, importee and the
    importee's "parent modules" (for relative imports these are the parents of the *relative*
    name, exactly as `RelativeImport.importee_parent_modules` returns them). -/
structure ImportRec where
  importer : Str
  importee : Str
  importeeParents : List Str
deriving DecidableEq, Repr

namespace PGraph
variable {α : Type} [DecidableEq α]

def empty : PGraph α := ⟨[], []⟩

def hasNode (g : PGraph α) (n : α) : Bool := g.nodes.contains n

def findEdge (g : PGraph α) (s e : α) : Option (Edge α) :=
  g.edges.find? (fun x => x.src == s && x.dst == e)

def hasEdge (g : PGraph α) (s e : α) : Bool := (g.findEdge s e).isSome

/-- `graph.add_edge(s, e, inherits=inh)`: create or overwrite the attribute -/
def setEdge (g : PGraph α) (s e : α) (inh : Bool) : PGraph α :=
  if g.hasEdge s e then
    { g with edges := g.edges.map (fun x => if x.src == s && x.dst == e then ⟨s, e, inh⟩ else x) }
  else { g with edges := g.edges ++ [⟨s, e, inh⟩] }

/-- `graph.successors(n)` (all edge kinds) -/
def succs (g : PGraph α) (n : α) : List (Edge α) := g.edges.filter (fun x => x.src == n)
def preds (g : PGraph α) (n : α) : List (Edge α) := g.edges.filter (fun x => x.dst == n)

/-- children along hierarchy (`inherits=True`) edges -/
def hierChildren (g : PGraph α) (n : α) : List α :=
  (g.edges.filter (fun e => e.src == n && e.inh)).map (·.dst)

/-- targets of import (`inherits=False`) edges leaving `n` -/
def importSuccs (g : PGraph α) (n : α) : List α :=
  (g.edges.filter (fun e => e.src == n && !e.inh)).map (·.dst)

/-- sources of import edges entering `n` -/
def importPreds (g : PGraph α) (n : α) : List α :=
  (g.edges.filter (fun e => e.dst == n && !e.inh)).map (·.src)

def importPairs (g : PGraph α) : List (α × α) :=
  (g.edges.filter (fun e => !e.inh)).map (fun e => (e.src, e.dst))

def hierPairs (g : PGraph α) : List (α × α) :=
  (g.edges.filter (fun e => e.inh)).map (fun e => (e.src, e.dst))

end PGraph

/-! ### construction (`NetworkxGraph._initialise`) -/

/-- `_create_node` -/
def createNode (lim : Option Nat) (g : PGraph Str) (n : Str) : PGraph Str :=
  let n := flattenNode lim n
  if g.hasNode n then g else { g with nodes := g.nodes ++ [n] }

/-- `_create_edge`: flatten both ends, drop self edges, require both nodes, write unless the same
    edge with the same flag is already present. -/
def createEdge (lim : Option Nat) (g : PGraph Str) (s e : Str) (inh : Bool) : PGraph Str :=
  let s := flattenNode lim s
  let e := flattenNode lim e
  if s == e then g
  else if g.hasNode s && g.hasNode e then
    match g.findEdge s e with
    | some x => if x.inh == inh then g else g.setEdge s e inh
    | none => g.setEdge s e inh
  else g

/-- consecutive pairs `zip(l[:-1], l[1:])` -/
def consecutive {β : Type} : List β → List (β × β)
  | [] => []
  | [_] => []
  | a :: b :: r => (a, b) :: consecutive (b :: r)

/-- `_add_edges_within_module_hierarchy(parents, child)` -/
def addHierarchy (lim : Option Nat) (g : PGraph Str) (parents : List Str) (child : Str) : PGraph Str :=
  -- after fix 69a50d4: all parent nodes first, then the edges
  let g := parents.foldl (createNode lim) g
  (consecutive (parents ++ [child])).foldl (fun g pc => createEdge lim g pc.1 pc.2 true) g

/-- `_add_all_modules_as_nodes` -/
def addAllModules (lim : Option Nat) (g : PGraph Str) (mods : List Str) : PGraph Str :=
  mods.foldl (fun g m => addHierarchy lim (createNode lim g m) (parentModules m) m) g

/-- `_known_modules` (repair of the level-limit defect): all modules and all their parents, UNFLATTENED -/
def knownModules (mods : List Str) : List Str := mods ++ mods.flatMap parentModules

/-- `not _is_import_between_known_modules(importer, importee)`: with a level limit, an import whose
    unflattened importer or importee is not a known module does not produce an import edge -/
def skipImportEdge (lim : Option Nat) (known : List Str) (i : ImportRec) : Bool :=
  lim.isSome && !(known.contains i.importer && known.contains i.importee)

/-- the body of the `for imp in self._imports` loop -/
def addImport (lim : Option Nat) (known : List Str) (g : PGraph Str) (i : ImportRec) : PGraph Str :=
  let g := if skipImportEdge lim known i then g else createEdge lim g i.importer i.importee false
  let g := addHierarchy lim g (parentModules i.importer) i.importer
  (consecutive (i.importeeParents ++ [i.importee])).foldl
    (fun g pc => createEdge lim g pc.1 pc.2 true) g

/-- `NetworkxGraph(all_modules, imports, level_limit)` -/
def buildGraph (mods : List Str) (imports : List ImportRec) (lim : Option Nat) : PGraph Str :=
  imports.foldl (addImport lim (knownModules mods)) (addAllModules lim PGraph.empty mods)

/-- an `AbsoluteImport(importer, importee)` -/
def absImport (importer importee : Str) : ImportRec :=
  ⟨importer, importee, parentModules importee⟩

end Pta
