/-
  PtaProofs.Lemmas.ExtLimit — property C10 with externals INCLUDED under a level limit: the complete description of
  the node set, and the fate of an external importee that `ExternalImportFilter` removes (not retained).
  Everything is read off `ExtBuild.buildGraph_char` for the lists `generateGraph` hands to the constructor.
-/
import Bridge.Abs
import Bridge.ExtAbs
import PtaProofs.Lemmas.ExtScan
namespace Pta
namespace ExtLimit
open ExtNames ExtBuild ExtScan

/-- a member of `importee :: parents` is in the chain of the importee -/
theorem mem_cons_parents_chain {m y : Str} (h : m ∈ y :: parentModules y) : m ∈ chain y := by
  unfold chain
  rcases List.mem_cons.1 h with rfl | h
  · simp
  · exact List.mem_append_left _ h

/-- what `generateGraph` builds, in the vocabulary of `buildGraph_char` -/
theorem scan_char (mt : Str → Str → Bool) (base rootName : Str) (mp : List Str) (entries : List Entry)
    (o : ScanOptions) (g : PGraph Str)
    (h : generateGraph mt base rootName mp entries o = .ok g) (I : List ImportRec)
    (hI : convertAll (scanParsed mt base rootName mp entries o) (absolutePrefix rootName mp)
      ((scanParsed mt base rootName mp entries o).allModules.filter fun m => isInternal m (internalPrefix rootName mp)) = .ok I) :
    (∀ i ∈ retainImports mt o (internalPrefix rootName mp) I, i.importeeParents = parentModules i.importee) ∧
    (∀ s, s ∈ g.nodes ↔ NodeOf (shiftedLimit o mp)
      (moduleList mt base o (internalPrefix rootName mp) (scanParsed mt base rootName mp entries o).allModules
        (retainImports mt o (internalPrefix rootName mp) I)) s) ∧
    (∀ x ∈ g.edges, x.src ∈ g.nodes ∧ x.dst ∈ g.nodes) := by
  rw [generateGraph_eq] at h
  generalize hpd : scanParsed mt base rootName mp entries o = parsed at h hI ⊢
  have hfi : FilesIn parsed := by rw [← hpd]; exact scanParsed_filesIn _ _ _ _ _ _
  generalize internalPrefix rootName mp = pre at h hI ⊢
  generalize shiftedLimit o mp = lim at h ⊢
  rw [hI] at h
  simp only [Except.ok.injEq] at h
  subst h
  have a1 := scan_himp mt base o pre parsed hfi _ _ I hI lim
  obtain ⟨n1, t1, f1⟩ := buildGraph_char _ _ lim a1
  refine ⟨fun i hi => (a1 i hi).2, n1, ?_⟩
  rintro ⟨a, b, inh⟩ hxe
  simp only
  cases inh with
  | true =>
    obtain ⟨hp, m, hm, hbm⟩ := (t1 a b).1 hxe
    exact ⟨(n1 a).2 ⟨m, hm, chain_trans (parent_mem_chain (hierPair_parent hp)) hbm⟩, (n1 b).2 ⟨m, hm, hbm⟩⟩
  | false =>
    obtain ⟨-, -, ha, hb, -⟩ := (f1 a b).1 hxe
    exact ⟨(n1 a).2 ha, (n1 b).2 hb⟩

/-- externals included, ANY level limit: the nodes are the flattened parsed modules and the flattened external
    importees of the RETAINED imports, each with its dotted parents -/
theorem nodes_included_lemma (mt : Str → Str → Bool) (base rootName : Str) (mp : List Str) (entries : List Entry)
    (o : ScanOptions) (g : PGraph Str) (hx : o.excludeExternal = false)
    (h : generateGraph mt base rootName mp entries o = .ok g) (I : List ImportRec)
    (hI : convertAll (scanParsed mt base rootName mp entries o) (absolutePrefix rootName mp)
      ((scanParsed mt base rootName mp entries o).allModules.filter fun m => isInternal m (internalPrefix rootName mp)) = .ok I)
    (s : Str) :
    s ∈ g.nodes ↔
      (∃ m ∈ (scanParsed mt base rootName mp entries o).allModules, s ∈ withParents (flattenNode (shiftedLimit o mp) m)) ∨
      (∃ j ∈ I, isInternal j.importee (internalPrefix rootName mp) = false ∧
        retained mt o (internalPrefix rootName mp) j = true ∧
        s ∈ withParents (flattenNode (shiftedLimit o mp) j.importee)) := by
  obtain ⟨hpar, n1, -⟩ := scan_char mt base rootName mp entries o g h I hI
  rw [n1]
  constructor
  · rintro ⟨m, hm, hs⟩
    rw [mem_moduleList] at hm
    rcases hm with hm | ⟨-, ⟨j, hj, hjext, hmj⟩, -⟩
    · exact .inl ⟨m, hm, hs⟩
    · obtain ⟨hjI, hjret⟩ := (mem_retainImports mt o _ I j).1 hj
      rw [hpar j hj] at hmj
      exact .inr ⟨j, hjI, hjext, hjret,
        chain_trans hs (flatten_chain_mono _ (mem_cons_parents_chain hmj))⟩
  · rintro (⟨m, hm, hs⟩ | ⟨j, hjI, hjext, hjret, hs⟩)
    · exact ⟨m, (mem_moduleList ..).2 (.inl hm), hs⟩
    · have hjR : j ∈ retainImports mt o (internalPrefix rootName mp) I := (mem_retainImports mt o _ I j).2 ⟨hjI, hjret⟩
      refine ⟨j.importee, ?_, hs⟩
      rw [mem_moduleList]
      right
      refine ⟨hx, ⟨j, hjR, hjext, List.mem_cons_self⟩, ?_⟩
      rcases retained_true_cases mt o _ j hx hjext hjret with h | h
      · exact .inl h
      · exact .inr h.1

/-- a string that is not a node is touched by no edge -/
theorem no_edge_of_not_node (mt : Str → Str → Bool) (base rootName : Str) (mp : List Str) (entries : List Entry)
    (o : ScanOptions) (g : PGraph Str)
    (h : generateGraph mt base rootName mp entries o = .ok g) (s : Str) (hs : s ∉ g.nodes) :
    ∀ x ∈ g.edges, x.src ≠ s ∧ x.dst ≠ s := by
  have h' := h
  rw [generateGraph_eq] at h'
  cases hI : convertAll (scanParsed mt base rootName mp entries o) (absolutePrefix rootName mp)
      ((scanParsed mt base rootName mp entries o).allModules.filter fun m => isInternal m (internalPrefix rootName mp)) with
  | error e => rw [hI] at h'; cases h'
  | ok I =>
    obtain ⟨-, -, he⟩ := scan_char mt base rootName mp entries o g h I hI
    intro x hx
    exact ⟨fun e => hs (e ▸ (he x hx).1), fun e => hs (e ▸ (he x hx).2)⟩

/-- externals included, ANY level limit, a NOT retained external importee `y` (a pattern matches `y` or one of its
    parents).  If a pattern matches a member of the chain of `y` that survives the flattening (`y` itself or an ancestor
    with at most `limit + 1` components), then no retained external importee flattens onto or below the flattened `y`;
    so the flattened `y` is a node only if it is (an ancestor of) a flattened PARSED module. -/
theorem not_retained_lemma (mt : Str → Str → Bool) (base rootName : Str) (mp : List Str) (entries : List Entry)
    (o : ScanOptions) (g : PGraph Str) (hx : o.excludeExternal = false)
    (h : generateGraph mt base rootName mp entries o = .ok g) (I : List ImportRec)
    (hI : convertAll (scanParsed mt base rootName mp entries o) (absolutePrefix rootName mp)
      ((scanParsed mt base rootName mp entries o).allModules.filter fun m => isInternal m (internalPrefix rootName mp)) = .ok I)
    (y : Str)
    (hhit : ∃ p ∈ withParents (flattenNode (shiftedLimit o mp) y), isExcluded mt o.externalExclusions p = true)
    (hnp : ∀ m ∈ (scanParsed mt base rootName mp entries o).allModules,
      flattenNode (shiftedLimit o mp) y ∉ withParents (flattenNode (shiftedLimit o mp) m)) :
    flattenNode (shiftedLimit o mp) y ∉ g.nodes ∧
      ∀ x ∈ g.edges, x.src ≠ flattenNode (shiftedLimit o mp) y ∧ x.dst ≠ flattenNode (shiftedLimit o mp) y := by
  have hnot : flattenNode (shiftedLimit o mp) y ∉ g.nodes := by
    intro hc
    obtain ⟨hpar, -, -⟩ := scan_char mt base rootName mp entries o g h I hI
    rcases (nodes_included_lemma mt base rootName mp entries o g hx h I hI _).1 hc with ⟨m, hm, hs⟩ | ⟨j, hjI, hjext, hjret, hs⟩
    · exact hnp m hm hs
    · obtain ⟨p, hp, hpe⟩ := hhit
      have hjR : j ∈ retainImports mt o (internalPrefix rootName mp) I := (mem_retainImports mt o _ I j).2 ⟨hjI, hjret⟩
      have hpj : p ∈ chain j.importee := chain_trans (chain_trans hp hs) (flatten_mem_chain _ _)
      rcases retained_true_cases mt o _ j hx hjext hjret with he | ⟨hW, hWp⟩
      · -- no patterns at all: nothing is excluded
        cases hps : o.externalExclusions with
        | globs l => rw [hps] at he hpe; cases l <;> simp [Patterns.isEmpty, isExcluded] at he hpe
        | regexes l => rw [hps] at he hpe; cases l <;> simp [Patterns.isEmpty, isExcluded] at he hpe
      · rw [hpar j hjR] at hWp
        unfold chain at hpj
        rcases List.mem_append.1 hpj with hq | hq
        · rw [hWp p hq] at hpe; cases hpe
        · simp only [List.mem_singleton] at hq
          rw [hq, hW] at hpe; cases hpe
  exact ⟨hnot, no_edge_of_not_node mt base rootName mp entries o g h _ hnot⟩

/-- a not retained import: some member of the chain of its importee matches a pattern -/
theorem not_retained_hit (mt : Str → Str → Bool) (base rootName : Str) (mp : List Str) (entries : List Entry)
    (o : ScanOptions) (hx : o.excludeExternal = false) (I : List ImportRec)
    (hI : convertAll (scanParsed mt base rootName mp entries o) (absolutePrefix rootName mp)
      ((scanParsed mt base rootName mp entries o).allModules.filter fun m => isInternal m (internalPrefix rootName mp)) = .ok I)
    (i : ImportRec) (hi : i ∈ I) (hret : retained mt o (internalPrefix rootName mp) i = false) :
    ∃ p ∈ withParents i.importee, isExcluded mt o.externalExclusions p = true := by
  obtain ⟨f, -, -, hg2⟩ := convertAll_good _ _ _ I hI i hi
  obtain ⟨-, hexc⟩ := retained_false_cases mt o _ i hx hret
  rcases hexc with hY | ⟨p, hp, hpe⟩
  · exact ⟨i.importee, self_mem_chain _, hY⟩
  · rw [hg2] at hp
    exact ⟨p, parent_mem_chain hp, hpe⟩

end ExtLimit
end Pta
