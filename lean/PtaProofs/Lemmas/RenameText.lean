/-
  PtaProofs.Lemmas.RenameText — the message text under renaming (property C14, Props/C14Text.lean).
  * every module name in a report of a quote-free architecture and rule is free of `"` (by "parametricity", as
    `report_names_wf_lemma`: the model commutes with an injective map that fixes exactly the quote-free strings);
  * `renLine ρ` maps the line of an item to the line of the renamed item and is injective on the lines of a report;
  * hence the lines of the renamed report are a permutation of the renamed lines (`renderItems_ren`).
-/
import Bridge.RenameText
import PtaProofs.Lemmas.MessageText
import PtaProofs.Lemmas.RenameNames
import PtaProofs.Lemmas.DiagramSem
namespace Pta.RT
open Pta PtaSpec Pta.RM

/-! ### characters of joined / split names -/

theorem mem_joinDots (ch : Char) : ∀ n : List Str, ch ∈ joinDots n → ch = '.' ∨ ∃ c ∈ n, ch ∈ c
  | [], h => by cases h
  | [x], h => .inr ⟨x, by simp, by simpa [joinDots] using h⟩
  | x :: y :: r, h => by
    simp only [joinDots, List.mem_append, List.mem_cons] at h
    rcases h with h | h | h
    · exact .inr ⟨x, by simp, h⟩
    · exact .inl h
    · rcases mem_joinDots ch (y :: r) h with h | ⟨c, hc, h⟩
      · exact .inl h
      · exact .inr ⟨c, List.mem_cons_of_mem _ hc, h⟩

theorem mem_splitDots (ch : Char) : ∀ (s : Str) (c : Str), c ∈ splitDots s → ch ∈ c → ch ∈ s
  | [], c, hc, h => by
    simp only [splitDots, List.mem_singleton] at hc
    subst hc; cases h
  | a :: cs, c, hc, h => by
    have ih := mem_splitDots ch cs
    unfold splitDots at hc
    cases hs : splitDots cs with
    | nil =>
      rw [hs] at hc
      simp only [List.mem_singleton] at hc
      subst hc; cases h
    | cons x t =>
      rw [hs] at hc ih
      simp only at hc
      split at hc
      · rcases List.mem_cons.1 hc with rfl | hc
        · cases h
        · exact List.mem_cons_of_mem _ (ih c hc h)
      · rcases List.mem_cons.1 hc with rfl | hc
        · rcases List.mem_cons.1 h with rfl | h
          · exact List.mem_cons_self
          · exact List.mem_cons_of_mem _ (ih x (by simp) h)
        · exact List.mem_cons_of_mem _ (ih c (List.mem_cons_of_mem _ hc) h)

theorem noQuote_render (n : Name) (h : n.all noQuote = true) : noQuote (render n) = true := by
  rw [noQuote_iff]
  intro hm
  rcases mem_joinDots '"' n hm with e | ⟨c, hc, hq⟩
  · cases e
  · have := List.all_eq_true.1 h c hc
    rw [noQuote_iff] at this
    exact this hq

theorem noQuote_comps (s : Str) (h : noQuote s = true) : ∀ c ∈ splitDots s, noQuote c = true := by
  intro c hc
  rw [noQuote_iff] at h ⊢
  exact fun hq => h (mem_splitDots '"' s c hc hq)

theorem noQuote_renDotted (ρ : Comp → Comp) (hq : QuoteFree ρ) (s : Str) (h : noQuote s = true) :
    noQuote (renDotted ρ s) = true := by
  unfold renDotted
  apply noQuote_render
  rw [List.all_eq_true]
  intro c hc
  obtain ⟨c0, hc0, rfl⟩ := List.mem_map.1 hc
  exact hq c0 (noQuote_comps s h c0 hc0)

/-! ### parametricity: the names in a report are free of `"` -/

/-- fixes exactly the strings without `"` -/
def fixQ (s : Str) : Str := if noQuote s then s else '"' :: s

theorem noQuote_quote_cons (s : Str) : noQuote ('"' :: s) = false := by simp [noQuote]

theorem fixQ_eq_iff (s : Str) : fixQ s = s ↔ noQuote s = true := by
  unfold fixQ
  cases h : noQuote s
  · simp only [Bool.false_eq_true, if_false, iff_false]
    intro e
    have := congrArg List.length e
    simp at this
  · simp

theorem fixQ_inj : ∀ x y, fixQ x = fixQ y → x = y := by
  intro x y h
  unfold fixQ at h
  cases hx : noQuote x <;> cases hy : noQuote y <;>
    simp only [hx, hy, if_true, if_false, Bool.false_eq_true] at h
  · exact (List.cons.inj h).2
  · rw [← h, noQuote_quote_cons] at hy; cases hy
  · rw [h, noQuote_quote_cons] at hx; cases hx
  · exact h

/-- the graph of a well-formed architecture is fixed by an injective map that fixes its (rendered) module names -/
theorem archGraph_fix_of (φ : Str → Str) (hφ : ∀ x y, φ x = φ y → x = y) (a : Arch) (hwf : a.wf = true)
    (hfix : ∀ n ∈ a.nodes, φ (render n) = render n) : mapGraph φ (archGraph a) = archGraph a := by
  have hpar : ∀ n ∈ a.nodes, (parentModules (render n)).map φ = parentModules (render n) := by
    intro n hn
    apply map_fix
    intro s hs
    rw [parentModules_render n (BuildNames.wf_nodes a hwf n hn)] at hs
    obtain ⟨p, hp, rfl⟩ := List.mem_map.1 hs
    obtain ⟨k, h0, hk, rfl⟩ := (BuildNames.mem_properPrefixes n p).1 hp
    exact hfix _ (BuildNames.wf_prefix a hwf n hn k h0 (Nat.le_of_lt hk))
  unfold archGraph
  rw [← buildGraph_map φ hφ]
  · congr 1
    · apply map_fix
      intro s hs
      obtain ⟨n, hn, rfl⟩ := List.mem_map.1 hs
      exact hfix n hn
    · apply map_fix
      intro i hi
      obtain ⟨e, he, rfl⟩ := List.mem_map.1 hi
      obtain ⟨h1, h2, _⟩ := BuildNames.wf_import a hwf e he
      simp only [mapImp, absImport, hfix _ h1, hfix _ h2, hpar _ h2]
  · intro m hm
    obtain ⟨n, hn, rfl⟩ := List.mem_map.1 hm
    rw [hfix n hn, hpar n hn]
  · intro i hi
    obtain ⟨e, he, rfl⟩ := List.mem_map.1 hi
    obtain ⟨h1, _⟩ := BuildNames.wf_import a hwf e he
    show parentModules (φ (render e.1)) = (parentModules (render e.1)).map φ
    rw [hfix _ h1, hpar _ h1]

theorem compile_fix_of (φ : Str → Str) (r : RuleSpec) (hs : ∀ f ∈ r.subjects, φ (render f.id) = render f.id)
    (ho : r.anything = false → ∀ f ∈ r.objects, φ (render f.id) = render f.id) : (compile r).mapId φ = compile r := by
  have hf : ∀ fs : List SFilter, (∀ f ∈ fs, φ (render f.id) = render f.id) →
      (fs.map compileFilter).map (Filter.mapId φ) = fs.map compileFilter := by
    intro fs h
    apply map_fix
    intro F hF
    obtain ⟨f, hf, rfl⟩ := List.mem_map.1 hF
    cases f with
    | named x => show Filter.name _ = Filter.name _; exact congrArg Filter.name (h _ hf)
    | subOf x => show Filter.parent _ = Filter.parent _; exact congrArg Filter.parent (h _ hf)
  obtain ⟨verb, dir, exc, subjects, objects, anything⟩ := r
  simp only at hs ho
  cases anything
  · simp only [compile, RuleState.mapId, RuleConfig.mapId, Option.map_some, hf _ hs, Bool.false_eq_true, if_false,
      hf _ (ho rfl), List.map_nil]
  · simp only [compile, RuleState.mapId, RuleConfig.mapId, Option.map_some, hf _ hs, if_true, Option.map_none, List.map_nil]

theorem compile_subOK_of (φ : Str → Str) (r : RuleSpec) (hs : ∀ f ∈ r.subjects, φ (render f.id) = render f.id) :
    cfgSubOK φ (compile r).cfg := by
  intro ss hss f hf f' hf'
  simp only [compile, Option.some.injEq] at hss
  subst hss
  obtain ⟨f0, h0, rfl⟩ := List.mem_map.1 hf
  obtain ⟨f1, h1, rfl⟩ := List.mem_map.1 hf'
  have e0 : (compileFilter f0).id = render f0.id := by cases f0 <;> rfl
  have e1 : (compileFilter f1).id = render f1.id := by cases f1 <;> rfl
  rw [e0, e1, hs f0 h0, hs f1 h1]

theorem ruleNoQuote_iff (r : RuleSpec) :
    ruleNoQuote r = true ↔ (∀ f ∈ r.subjects, f.id.all noQuote = true) ∧
      (r.anything = false → ∀ f ∈ r.objects, f.id.all noQuote = true) := by
  obtain ⟨verb, dir, exc, subjects, objects, anything⟩ := r
  cases anything
  · simp only [ruleNoQuote, RuleSpec.effObjects, List.all_append, Bool.and_eq_true, List.all_eq_true, Bool.false_eq_true,
      if_false]
    constructor
    · rintro ⟨h1, h2⟩; exact ⟨h1, fun _ => h2⟩
    · rintro ⟨h1, h2⟩; exact ⟨h1, h2 trivial⟩
  · simp only [ruleNoQuote, RuleSpec.effObjects, List.all_append, Bool.and_eq_true, List.all_eq_true, if_true]
    constructor
    · rintro ⟨h1, _⟩; exact ⟨h1, fun h => by cases h⟩
    · rintro ⟨h1, _⟩; exact ⟨h1, h1⟩

/-- every module name in a report is free of `"` when the architecture and the rule are -/
theorem report_noQuote (mt : Str → Str → Bool) (a : Arch) (hwf : a.wf = true) (r : RuleSpec)
    (ha : archNoQuote a = true) (hr : ruleNoQuote r = true) :
    ∀ s ∈ (assertApplies mt (compile r) (archGraph a)).2.names, noQuote s = true := by
  obtain ⟨hs, ho⟩ := (ruleNoQuote_iff r).1 hr
  have fixr : ∀ n : Name, n.all noQuote = true → fixQ (render n) = render n :=
    fun n hn => (fixQ_eq_iff _).2 (noQuote_render n hn)
  have hs' : ∀ f ∈ r.subjects, fixQ (render f.id) = render f.id := fun f hf => fixr _ (hs f hf)
  have ho' : r.anything = false → ∀ f ∈ r.objects, fixQ (render f.id) = render f.id :=
    fun h f hf => fixr _ (ho h f hf)
  have h := assertApplies_map fixQ fixQ_inj mt (archGraph a) (compile r) (compile_noRegex r) (compile_subOK_of fixQ r hs')
  rw [compile_fix_of fixQ r hs' ho',
    archGraph_fix_of fixQ fixQ_inj a hwf (fun n hn => fixr n (List.all_eq_true.1 ha n hn))] at h
  have h2 := congrArg Prod.snd h
  simp only at h2
  intro s hs
  exact (fixQ_eq_iff s).1 (verdict_fix fixQ _ h2.symm s hs)

/-! ### items and their lines -/

theorem names_mapId (φ : Str → Str) (x : Item) : (x.mapId φ).names = x.names.map φ := by
  cases x with
  | imp u v d => rfl
  | miss any s objs d => simp [Item.mapId, Item.names, Mod.mapId, List.map_map, Function.comp_def]

theorem sortObjs_perm (objs : List Mod) : (sortObjs objs).Perm objs := Pta.Dg.sortBy_perm _ objs

theorem parsable_of_names (x : Item) (hq : ∀ s ∈ x.names, noQuote s = true)
    (hne : ∀ any s objs d, x = .miss any s objs d → objs ≠ []) : x.parsable = true := by
  cases x with
  | imp u v d =>
    simp only [Item.parsable, Bool.and_eq_true]
    exact ⟨hq u (by simp [Item.names]), hq v (by simp [Item.names])⟩
  | miss any s objs d =>
    simp only [Item.parsable, Bool.and_eq_true, List.all_eq_true, Bool.not_eq_true']
    refine ⟨⟨hq s.id (by simp [Item.names]), fun o ho => hq o.id ?_⟩, ?_⟩
    · simp only [Item.names, List.mem_cons, List.mem_map]
      exact .inr ⟨o, ho, rfl⟩
    · cases objs with
      | nil => exact absurd rfl (hne _ _ _ _ rfl)
      | cons o t => rfl

theorem canon_parsable (x : Item) (h : x.parsable = true) : x.canon.parsable = true := by
  cases x with
  | imp u v d => exact h
  | miss any s objs d =>
    simp only [Item.canon, Item.parsable, Bool.and_eq_true, List.all_eq_true, Bool.not_eq_true'] at h ⊢
    refine ⟨⟨h.1.1, fun o ho => h.1.2 o ((sortObjs_perm objs).mem_iff.1 ho)⟩, ?_⟩
    cases hs : sortObjs objs with
    | nil =>
      have := (sortObjs_perm objs).length_eq
      rw [hs] at this
      cases objs with
      | nil => exact h.2
      | cons o t => cases this
    | cons o t => rfl

theorem renderItem_miss_congr (any : Bool) (s : Mod) (objs objs' : List Mod) (d : Bool) (h : objs.Perm objs') :
    renderItem (.miss any s objs d) = renderItem (.miss any s objs' d) := by
  rw [renderItem_miss, renderItem_miss, sortStr_eq_of_perm _ _ (h.map objText)]

/-- renaming the item as its line shows it (objects sorted) or as reported: the same line -/
theorem mapId_canon_render (φ : Str → Str) (x : Item) : renderItem (x.canon.mapId φ) = renderItem (x.mapId φ) := by
  cases x with
  | imp u v d => rfl
  | miss any s objs d =>
    show renderItem (.miss any (s.mapId φ) ((sortObjs objs).map (Mod.mapId φ)) d) =
      renderItem (.miss any (s.mapId φ) (objs.map (Mod.mapId φ)) d)
    exact renderItem_miss_congr _ _ _ _ _ ((sortObjs_perm objs).map _)

/-- `renLine` on the line of an item: the line of the renamed item -/
theorem renLine_renderItem (ρ : Comp → Comp) (x : Item) (hp : x.canon.parsable = true) :
    renLine ρ (renderItem x) = renderItem (x.mapId (renDotted ρ)) := by
  unfold renLine
  rw [show parseLine (renderItem x) = some x.canon from parseLine_renderLine_lemma x.canon hp]
  exact mapId_canon_render _ x

theorem perm_of_map_inj {α β : Type} [DecidableEq α] (f : α → β) (hf : ∀ a b, f a = f b → a = b) :
    ∀ l l' : List α, (l.map f).Perm (l'.map f) → l.Perm l'
  | [], l', h => by
    have := h.length_eq
    cases l' with
    | nil => exact List.Perm.refl _
    | cons b t => simp at this
  | a :: t, l', h => by
    have hm : f a ∈ l'.map f := h.subset (by simp)
    obtain ⟨b, hb, e⟩ := List.mem_map.1 hm
    have := hf _ _ e
    subst this
    have hp : l'.Perm (b :: l'.erase b) := List.perm_cons_erase hb
    have h2 : ((b :: t).map f).Perm ((b :: l'.erase b).map f) := h.trans (hp.map f)
    simp only [List.map_cons] at h2
    have h3 := (List.perm_cons _).1 h2
    exact (List.Perm.cons b (perm_of_map_inj f hf t (l'.erase b) h3)).trans hp.symm

theorem modMapId_inj (φ : Str → Str) (hφ : ∀ x y, φ x = φ y → x = y) (a b : Mod) (h : a.mapId φ = b.mapId φ) : a = b := by
  obtain ⟨ga, ia⟩ := a
  obtain ⟨gb, ib⟩ := b
  simp only [Mod.mapId, Mod.mk.injEq] at h
  rw [h.1, hφ _ _ h.2]

/-- two items whose renamed lines coincide have the same line (names free of `"` after the renaming) -/
theorem renderItem_mapId_inj (φ : Str → Str) (hφ : ∀ x y, φ x = φ y → x = y) (x y : Item)
    (hx : (x.mapId φ).canon.parsable = true) (hy : (y.mapId φ).canon.parsable = true)
    (h : renderItem (x.mapId φ) = renderItem (y.mapId φ)) : renderItem x = renderItem y := by
  have e : (x.mapId φ).canon = (y.mapId φ).canon := by
    have h1 := parseLine_renderLine_lemma _ hx
    have h2 := parseLine_renderLine_lemma _ hy
    unfold renderItem at h
    rw [h, h2] at h1
    exact (Option.some.inj h1).symm
  cases x with
  | imp u v d =>
    cases y with
    | imp u' v' d' =>
      simp only [Item.mapId, Item.canon, Item.imp.injEq] at e
      obtain ⟨a, b, c⟩ := e
      rw [hφ _ _ a, hφ _ _ b, c]
    | miss any s objs d' => simp [Item.mapId, Item.canon] at e
  | miss any s objs d =>
    cases y with
    | imp u' v' d' => simp [Item.mapId, Item.canon] at e
    | miss any' s' objs' d' =>
      simp only [Item.mapId, Item.canon, Item.miss.injEq] at e
      obtain ⟨rfl, hs, ho, rfl⟩ := e
      have hs' := modMapId_inj φ hφ _ _ hs
      subst hs'
      have hp : (objs.map (Mod.mapId φ)).Perm (objs'.map (Mod.mapId φ)) :=
        ((sortObjs_perm _).symm.trans (by rw [ho])).trans (sortObjs_perm _)
      exact renderItem_miss_congr _ _ _ _ _ (perm_of_map_inj _ (modMapId_inj φ hφ) _ _ hp)

theorem dedup_map_on {α β : Type} [DecidableEq α] [DecidableEq β] (h : α → β) :
    ∀ l : List α, (∀ a ∈ l, ∀ b ∈ l, h a = h b → a = b) → (dedup l).map h = dedup (l.map h)
  | [], _ => rfl
  | x :: xs, hinj => by
    have ih := dedup_map_on h xs (fun a ha b hb => hinj a (by simp [ha]) b (by simp [hb]))
    have hiff : h x ∈ dedup (xs.map h) ↔ x ∈ dedup xs := by
      rw [mem_dedup, mem_dedup, List.mem_map]
      constructor
      · rintro ⟨b, hb, e⟩
        have := hinj b (by simp [hb]) x (by simp) e
        subst this; exact hb
      · intro hx; exact ⟨x, hx, rfl⟩
    simp only [dedup, List.map_cons]
    by_cases hx : x ∈ dedup xs
    · rw [if_pos hx, if_pos (hiff.2 hx), ih]
    · rw [if_neg hx, if_neg (fun h' => hx (hiff.1 h')), List.map_cons, ih]

theorem renStr_eq_renDotted (ρ : Comp → Comp) (s : Str) (h : nameWF (splitDots s) = true) : renStr ρ s = renDotted ρ s := by
  simp only [renStr, renDotted, h, if_true]

/-- **the lines of the renamed report.** Items with well-formed dotted names whose lines parse before and after the
    renaming: the renamed lines of the original message are a permutation of the lines of the message of the renamed items -/
theorem renderItems_ren (ρ : Comp → Comp) (hρ : GoodRen ρ) (items : List Item)
    (hwf : ∀ x ∈ items, ∀ s ∈ x.names, nameWF (splitDots s) = true)
    (hp : ∀ x ∈ items, x.canon.parsable = true)
    (hp' : ∀ x ∈ items, (x.mapId (renDotted ρ)).canon.parsable = true) :
    ((renderItems items).map (renLine ρ)).Perm (renderItems (items.map (Item.mapId (renDotted ρ)))) := by
  have hψ : ∀ x ∈ items, x.mapId (renDotted ρ) = x.mapId (renStr ρ) := fun x hx =>
    item_congr _ _ x (fun s hs => (renStr_eq_renDotted ρ s (hwf x hx s hs)).symm)
  have hinj : ∀ a ∈ items.map renderItem, ∀ b ∈ items.map renderItem, renLine ρ a = renLine ρ b → a = b := by
    intro a ha b hb e
    obtain ⟨x, hx, rfl⟩ := List.mem_map.1 ha
    obtain ⟨y, hy, rfl⟩ := List.mem_map.1 hb
    rw [renLine_renderItem ρ x (hp x hx), renLine_renderItem ρ y (hp y hy), hψ x hx, hψ y hy] at e
    exact renderItem_mapId_inj (renStr ρ) (renStr_inj hρ) x y (by rw [← hψ x hx]; exact hp' x hx)
      (by rw [← hψ y hy]; exact hp' y hy) e
  have hmap : (items.map renderItem).map (renLine ρ) = (items.map (Item.mapId (renDotted ρ))).map renderItem := by
    rw [List.map_map, List.map_map]
    apply List.map_congr_left
    intro x hx
    exact renLine_renderItem ρ x (hp x hx)
  unfold renderItems
  refine ((Pta.Dg.sortBy_perm strLe _).map (renLine ρ)).trans ?_
  rw [dedup_map_on (renLine ρ) _ hinj, hmap]
  exact (Pta.Dg.sortBy_perm strLe _).symm

end Pta.RT
