/-
  PtaProofs.Lemmas.QuotientLayer — property C09, second sentence, for LAYER rules and DIAGRAM rules: when the listed
  modules of the layers (the components of the diagram) lie at or above the level limit, the documented semantics
  (`layerVerdict`, `conforms`) do not see the truncation, the domain of C05 / C07 transfers to the quotient
  architecture, and hence the model returns the same verdict class on the flattened and on the full graph.
-/
import Bridge.Abs
import Bridge.Quotient
import Bridge.QuotientLayer
import Bridge.LayerAbs
import PtaProofs.Lemmas.LimitVerdict
import PtaProofs.Lemmas.LayerRegex
import PtaProofs.Lemmas.DiagramSem
import PtaProofs.Lemmas.DiagramE2E
namespace Pta.QL
open Pta PtaSpec

/-! ### `inLayer`, `access`, `otherAccess` under truncation -/

theorem nameAbove_iff (k : Nat) (m : Name) : nameAbove k m = true ↔ m.length ≤ k + 1 := by
  simp [nameAbove]

theorem inLayer_trunc (k : Nat) (l : List Name) (hl : ∀ x ∈ l, x.length ≤ k + 1) (n : Name) :
    inLayer l (trunc (some k) n) = inLayer l n := by
  unfold inLayer
  exact any_congr_mem l _ _ (fun x hx => desc_take k x n (hl x hx))

theorem nearE_trunc (lim : Option Nat) (dir : Bool) (e : Name × Name) :
    nearE dir (trunc lim e.1, trunc lim e.2) = trunc lim (nearE dir e) := by
  cases dir <;> rfl

theorem farE_trunc (lim : Option Nat) (dir : Bool) (e : Name × Name) :
    farE dir (trunc lim e.1, trunc lim e.2) = trunc lim (farE dir e) := by
  cases dir <;> rfl

theorem near_far_collapse (lim : Option Nat) (dir : Bool) (e : Name × Name) (h : trunc lim e.1 = trunc lim e.2) :
    trunc lim (nearE dir e) = trunc lim (farE dir e) := by
  cases dir
  · exact h.symm
  · exact h

/-- a module of two layers makes two of their listed modules related -/
theorem related_of_inLayer_both (s o : List Name) (n : Name) (hs : inLayer s n = true) (ho : inLayer o n = true) :
    ∃ x ∈ s, ∃ y ∈ o, related x y = true := by
  rw [inLayer_iff] at hs ho
  obtain ⟨x, hx, hxp⟩ := hs
  obtain ⟨y, hy, hyp⟩ := ho
  exact ⟨x, hx, y, hy, related_of_prefixes hxp hyp⟩

theorem access_trunc (k : Nat) (a : Arch) (dir : Bool) (s o : List Name) (hs : ∀ x ∈ s, x.length ≤ k + 1)
    (ho : ∀ x ∈ o, x.length ≤ k + 1) (hso : ∀ x ∈ s, ∀ y ∈ o, related x y = false) :
    (access (truncArch (some k) a) dir s o).isEmpty = (access a dir s o).isEmpty := by
  apply isEmpty_congr
  simp only [mem_access, mem_truncArch_imports]
  constructor
  · rintro ⟨p, ⟨e, he, _, rfl⟩, h1, h2⟩
    rw [nearE_trunc, inLayer_trunc k s hs] at h1
    rw [farE_trunc, inLayer_trunc k o ho] at h2
    exact ⟨e, he, h1, h2⟩
  · rintro ⟨e, he, h1, h2⟩
    refine ⟨_, ⟨e, he, ?_, rfl⟩, ?_, ?_⟩
    · intro hc
      have h3 : inLayer s (farE dir e) = true := by
        rw [← inLayer_trunc k s hs, ← near_far_collapse (some k) dir e hc, inLayer_trunc k s hs]
        exact h1
      obtain ⟨x, hx, y, hy, hr⟩ := related_of_inLayer_both s o _ h3 h2
      rw [hso x hx y hy] at hr
      cases hr
    · rw [nearE_trunc, inLayer_trunc k s hs]; exact h1
    · rw [farE_trunc, inLayer_trunc k o ho]; exact h2

theorem otherAccess_trunc (k : Nat) (a : Arch) (dir : Bool) (s : List Name) (os : List (List Name))
    (hs : ∀ x ∈ s, x.length ≤ k + 1) (hos : ∀ o ∈ os, ∀ x ∈ o, x.length ≤ k + 1) :
    (otherAccess (truncArch (some k) a) dir s os).isEmpty = (otherAccess a dir s os).isEmpty := by
  apply isEmpty_congr
  simp only [mem_otherAccess, mem_truncArch_imports]
  constructor
  · rintro ⟨p, ⟨e, he, _, rfl⟩, h1, h2, h3⟩
    rw [nearE_trunc, inLayer_trunc k s hs] at h1
    rw [farE_trunc, inLayer_trunc k s hs] at h2
    refine ⟨e, he, h1, h2, fun o ho => ?_⟩
    have := h3 o ho
    rw [farE_trunc, inLayer_trunc k o (hos o ho)] at this
    exact this
  · rintro ⟨e, he, h1, h2, h3⟩
    refine ⟨_, ⟨e, he, ?_, rfl⟩, ?_, ?_, ?_⟩
    · intro hc
      have h4 : inLayer s (farE dir e) = true := by
        rw [← inLayer_trunc k s hs, ← near_far_collapse (some k) dir e hc, inLayer_trunc k s hs]
        exact h1
      rw [h2] at h4
      cases h4
    · rw [nearE_trunc, inLayer_trunc k s hs]; exact h1
    · rw [farE_trunc, inLayer_trunc k s hs]; exact h2
    · intro o ho
      rw [farE_trunc, inLayer_trunc k o (hos o ho)]
      exact h3 o ho

/-- the documented layer semantics do not see the truncation: only the layers the rule mentions matter, their listed
    modules must lie at or above the limit, and subject and object layers must not share a module -/
theorem layerVerdict_trunc (k : Nat) (a : Arch) (ls : Layers) (r : LRuleSpec)
    (hS : ∀ x ∈ ls.get r.subject, x.length ≤ k + 1)
    (hO : r.anything = false → ∀ on ∈ r.objects, ∀ x ∈ ls.get on, x.length ≤ k + 1)
    (hun : r.anything = false → ∀ on ∈ r.objects, ∀ x ∈ ls.get r.subject, ∀ y ∈ ls.get on, related x y = false) :
    layerVerdict (truncArch (some k) a) ls r = layerVerdict a ls r := by
  unfold layerVerdict
  cases hany : r.anything with
  | true =>
    simp only [if_true, Bool.true_or, List.all_nil]
    rw [otherAccess_trunc k a r.importDir _ [] hS (fun o ho => by cases ho)]
  | false =>
    simp only [Bool.false_eq_true, if_false, Bool.false_or]
    have hos : ∀ o ∈ r.objects.map ls.get, ∀ x ∈ o, x.length ≤ k + 1 := by
      intro o ho x hx
      obtain ⟨on, hon, rfl⟩ := List.mem_map.1 ho
      exact hO hany on hon x hx
    have hA : ∀ o ∈ r.objects.map ls.get,
        (access (truncArch (some k) a) r.importDir (ls.get r.subject) o).isEmpty =
          (access a r.importDir (ls.get r.subject) o).isEmpty := by
      intro o ho
      obtain ⟨on, hon, rfl⟩ := List.mem_map.1 ho
      exact access_trunc k a r.importDir _ _ hS (hO hany on hon) (hun hany on hon)
    rw [otherAccess_trunc k a r.importDir _ _ hS hos,
      all_congr_mem (r.objects.map ls.get) _ _ hA,
      all_congr_mem (r.objects.map ls.get)
        (fun o => !(access (truncArch (some k) a) r.importDir (ls.get r.subject) o).isEmpty)
        (fun o => !(access a r.importDir (ls.get r.subject) o).isEmpty) (fun o ho => by rw [hA o ho])]

/-! ### from the domain of C05 -/

theorem layersAbove_iff (k : Nat) (ls : Layers) :
    layersAbove k ls = true ↔ ∀ l ∈ ls, ∀ x ∈ l.2, x.length ≤ k + 1 := by
  simp [layersAbove, nameAbove]

theorem ruleLayersAbove_iff (k : Nat) (ls : Layers) (r : LRuleSpec) :
    ruleLayersAbove k ls r = true ↔
      (∀ x ∈ ls.get r.subject, x.length ≤ k + 1) ∧
      (r.anything = false → ∀ on ∈ r.objects, ∀ x ∈ ls.get on, x.length ≤ k + 1) := by
  cases h : r.anything <;> simp [ruleLayersAbove, nameAbove, h]

theorem get_mem_layers (ls : Layers) (n : List Char) (x : Name) (hx : x ∈ ls.get n) : ∃ l ∈ ls, x ∈ l.2 := by
  induction ls with
  | nil => simp [Layers.get] at hx
  | cons l ls ih =>
    rw [layers_get_cons] at hx
    split at hx
    · exact ⟨l, List.mem_cons_self, hx⟩
    · obtain ⟨l', hl', h⟩ := ih hx
      exact ⟨l', List.mem_cons_of_mem _ hl', h⟩

/-- all layers at or above the limit ⟹ the layers the rule mentions are -/
theorem ruleLayersAbove_of_layersAbove (k : Nat) (ls : Layers) (r : LRuleSpec) (h : layersAbove k ls = true) :
    ruleLayersAbove k ls r = true := by
  rw [layersAbove_iff] at h
  rw [ruleLayersAbove_iff]
  refine ⟨fun x hx => ?_, fun _ on _ x hx => ?_⟩
  · obtain ⟨l, hl, hxl⟩ := get_mem_layers ls _ x hx
    exact h l hl x hxl
  · obtain ⟨l, hl, hxl⟩ := get_mem_layers ls _ x hx
    exact h l hl x hxl

/-- subject and object layers share no module (cross-layer unrelatedness, objects different from the subject) -/
theorem subject_object_unrelated {a : Arch} {ls : Layers} {r : LRuleSpec} (hd : LDom' a ls r) (hany : r.anything = false) :
    ∀ on ∈ r.objects, ∀ x ∈ ls.get r.subject, ∀ y ∈ ls.get on, related x y = false := by
  intro on hon x hx y hy
  obtain ⟨lS, hlS, hS1, hS2⟩ := get_of_any ls r.subject hd.subj
  obtain ⟨lO, hlO, hO1, hO2⟩ := get_of_any ls on (hd.obj hany on hon).1
  rw [hS2] at hx
  rw [hO2] at hy
  cases hr : related x y with
  | false => rfl
  | true =>
    have := unrelMap_of_cross ls hd.cross lS hlS lO hlO x hx y hy hr
    rw [hS1, hO1] at this
    exact absurd this.symm (hd.obj hany on hon).2

/-- C09 for layer rules, specification side, on the domain of C05 -/
theorem layerVerdict_trunc_dom (k : Nat) (a : Arch) (ls : Layers) (r : LRuleSpec) (hd : LDom' a ls r)
    (habove : ruleLayersAbove k ls r = true) :
    layerVerdict (truncArch (some k) a) ls r = layerVerdict a ls r := by
  rw [ruleLayersAbove_iff] at habove
  exact layerVerdict_trunc k a ls r habove.1 habove.2 (fun hany => subject_object_unrelated hd hany)

/-- the domain of C05 transfers to the quotient architecture when every listed module lies at or above the limit -/
theorem ldom'_trunc (k : Nat) (a : Arch) (ls : Layers) (r : LRuleSpec) (hd : LDom' a ls r)
    (habove : layersAbove k ls = true) : LDom' (truncArch (some k) a) ls r := by
  rw [layersAbove_iff] at habove
  refine ⟨hd.ne, fun l hl x hx => ?_, hd.cross, hd.nodup, hd.subj, hd.objNe, hd.obj⟩
  exact (mem_truncArch_nodes _ a x).2 ⟨x, hd.nodes l hl x hx, (List.take_of_length_le (habove l hl x hx)).symm⟩

theorem layerDomain'_of_ldom' (a : Arch) (ls : Layers) (r : LRuleSpec) (hd : LDom' a ls r) :
    layerDomain' a ls r = true := by
  unfold layerDomain'
  simp only [Bool.and_eq_true, List.all_eq_true, Bool.not_eq_true', List.contains_iff_mem, Bool.or_eq_true,
    bne_iff_ne, ne_eq]
  refine ⟨⟨⟨⟨⟨fun l hl => ?_, fun x hx => ?_⟩, hd.cross⟩, hd.nodup⟩, hd.subj⟩, ?_⟩
  · cases h : l.2 with
    | nil => exact absurd h (hd.ne l hl)
    | cons _ _ => rfl
  · obtain ⟨l, hl, hxl⟩ := List.mem_flatMap.1 hx
    exact hd.nodes l hl x hxl
  · cases hany : r.anything with
    | true => exact .inl rfl
    | false =>
      refine .inr ⟨?_, fun on hon => hd.obj hany on hon⟩
      cases h : r.objects with
      | nil => exact absurd h (hd.objNe hany)
      | cons _ _ => rfl

/-- `layerDomain'` transfers to the quotient architecture -/
theorem layerDomain'_trunc (k : Nat) (a : Arch) (ls : Layers) (r : LRuleSpec) (hdom : layerDomain' a ls r = true)
    (habove : layersAbove k ls = true) : layerDomain' (truncArch (some k) a) ls r = true :=
  layerDomain'_of_ldom' _ ls r (ldom'_trunc k a ls r (ldom'_of_layerDomain' a ls r hdom) habove)

/-! ### the layer semantics see the layers through `inLayer` only

A regex layer resolves to the matching modules in the node order of the graph; the node order of the flattened graph
is not the node order of the full graph, so the two resolutions agree as sets only. -/

theorem any_name_eq (ls : Layers) (n : List Char) : ls.any (·.1 == n) = (ls.map (·.1)).contains n := by
  induction ls with
  | nil => rfl
  | cons l ls ih =>
    rw [List.any_cons, List.map_cons, List.contains_cons, ih, BEq.comm]

theorem access_congr (a : Arch) (dir : Bool) (s s' o o' : List Name) (hs : ∀ n, inLayer s n = inLayer s' n)
    (ho : ∀ n, inLayer o n = inLayer o' n) : access a dir s o = access a dir s' o' := by
  unfold access
  simp only [hs, ho]

theorem otherAccess_congr (a : Arch) (dir : Bool) (s s' : List Name) (os os' : List (List Name))
    (hs : ∀ n, inLayer s n = inLayer s' n)
    (ho : ∀ n, (os.all fun o => !inLayer o n) = (os'.all fun o => !inLayer o n)) :
    otherAccess a dir s os = otherAccess a dir s' os' := by
  unfold otherAccess
  simp only [hs, ho]

/-! ### re-resolving a layered architecture on another node list -/

/-- the resolution of `larch` on the node list `nodesK`, given a resolution `ls` of it on some node list: name layers are
    kept, regex layers are evaluated on `nodesK` -/
def limEntry (mt : Str → Str → Bool) (nodesK : List Str) (F : List Filter) (l : List Name) : List Name :=
  if F == l.map nmF then l else
    match F with
    | [.regex p] => (nodesK.filter (mt p)).map splitDots
    | _ => l

def limLayers (mt : Str → Str → Bool) (nodesK : List Str) : LArch → Layers → Layers
  | L :: Ls, l :: ls => (l.1, limEntry mt nodesK L.2 l.2) :: limLayers mt nodesK Ls ls
  | _, _ => []

theorem map_render_splitDots (X : List Str) (h : ∀ s ∈ X, render (splitDots s) = s) :
    (X.map splitDots).map render = X := by
  induction X with
  | nil => rfl
  | cons s X ih =>
    rw [List.map_cons, List.map_cons, h s List.mem_cons_self, ih (fun t ht => h t (List.mem_cons_of_mem _ ht))]

theorem resolves_limLayers (mt : Str → Str → Bool) (nodes0 nodesK : List Str)
    (hK : ∀ s ∈ nodesK, render (splitDots s) = s) (larch : LArch) (ls : Layers)
    (hres : resolves mt nodes0 larch ls = true) :
    resolves mt nodesK larch (limLayers mt nodesK larch ls) = true := by
  induction larch generalizing ls with
  | nil =>
    cases ls with
    | nil => rfl
    | cons _ _ => simp [resolves] at hres
  | cons L Ls ih =>
    cases ls with
    | nil => simp [resolves] at hres
    | cons l ls =>
      obtain ⟨h1, h2, h3⟩ := (resolves_cons mt nodes0 L Ls l ls).1 hres
      unfold limLayers
      rw [resolves_cons]
      refine ⟨h1, ?_, ih ls h3⟩
      show layerRes mt nodesK L.2 (limEntry mt nodesK L.2 l.2) = true
      unfold limEntry
      cases hb : L.2 == l.2.map nmF with
      | true =>
        simp only [if_true]
        unfold layerRes
        rw [Bool.or_eq_true]
        exact .inl hb
      | false =>
        simp only [Bool.false_eq_true, if_false]
        rcases layerRes_cases h2 with h | ⟨p, hp, _⟩
        · rw [h] at hb; simp at hb
        · rw [hp]
          unfold layerRes
          rw [Bool.or_eq_true]
          right
          simp only [beq_iff_eq]
          exact (map_render_splitDots _ (fun s hs => hK s (List.mem_filter.1 hs).1)).symm

/-! ### nodes of the two graphs -/

theorem hasNode_iff (g : PGraph Str) (s : Str) : g.hasNode s = true ↔ s ∈ g.nodes := by
  unfold PGraph.hasNode
  simp

/-- the nodes of a graph of the quotient architecture are nodes of a graph of the full architecture -/
theorem quotient_nodes_sub {a : Arch} (hw : ArchWF a) (lim : Option Nat) {g0 g : PGraph Str} (hg0 : GraphOf a g0)
    (hg : GraphOf (truncArch lim a) g) : ∀ s ∈ g.nodes, s ∈ g0.nodes ∧ render (splitDots s) = s := by
  intro s hs
  obtain ⟨c, hc, rfl⟩ := (hg.nodes s).1 ((hasNode_iff g s).2 hs)
  obtain ⟨n, hn, rfl⟩ := (mem_truncArch_nodes lim a c).1 hc
  have hwfT : nameWF (trunc lim n) = true := BuildNames.nameWF_trunc lim n (hw.nwf n hn)
  have hin : trunc lim n ∈ a.nodes := hw.pref n hn _ (nameWF_ne_nil hwfT) (trunc_prefix lim n)
  exact ⟨(hasNode_iff g0 _).1 ((hg0.nodes _).2 ⟨_, hin, rfl⟩), by rw [splitDots_render _ hwfT]⟩

/-! ### C09 for layer rules on the model side; depth condition on the layers the rule MENTIONS only

A layer the rule does not mention may list modules below the limit: they are not nodes of the flattened graph, a regex
layer matches fewer modules there, but such a layer only has to stay unrelated to the others (`LDom`). -/

/-- the specification's verdict depends on the mentioned layers as SETS only -/
theorem layerVerdict_congr_sets (a : Arch) (ls ls' : Layers) (r : LRuleSpec)
    (hS : ∀ x, x ∈ ls.get r.subject ↔ x ∈ ls'.get r.subject)
    (hO : r.anything = false → ∀ on ∈ r.objects, ∀ x, x ∈ ls.get on ↔ x ∈ ls'.get on) :
    layerVerdict a ls r = layerVerdict a ls' r := by
  have hinS : ∀ n, inLayer (ls.get r.subject) n = inLayer (ls'.get r.subject) n := fun n => inLayer_congr hS n
  unfold layerVerdict
  cases hany : r.anything with
  | true =>
    simp only [if_true, Bool.true_or, List.all_nil]
    rw [otherAccess_congr a r.importDir _ (ls'.get r.subject) [] [] hinS (fun _ => rfl)]
  | false =>
    have hinO : ∀ on ∈ r.objects, ∀ n, inLayer (ls.get on) n = inLayer (ls'.get on) n :=
      fun on hon n => inLayer_congr (hO hany on hon) n
    simp only [Bool.false_eq_true, if_false, Bool.false_or, List.all_map]
    have hOth : otherAccess a r.importDir (ls.get r.subject) (r.objects.map ls.get) =
        otherAccess a r.importDir (ls'.get r.subject) (r.objects.map ls'.get) :=
      otherAccess_congr a r.importDir _ _ _ _ hinS (fun n => by
        rw [List.all_map, List.all_map]
        exact all_congr_mem _ _ _ (fun on hon => by simp only [Function.comp_def, hinO on hon]))
    have hA : ∀ on ∈ r.objects, access a r.importDir (ls.get r.subject) (ls.get on) =
        access a r.importDir (ls'.get r.subject) (ls'.get on) :=
      fun on hon => access_congr a r.importDir _ _ _ _ hinS (hinO on hon)
    rw [hOth,
      all_congr_mem r.objects ((fun o => !(access a r.importDir (ls.get r.subject) o).isEmpty) ∘ ls.get)
        ((fun o => !(access a r.importDir (ls'.get r.subject) o).isEmpty) ∘ ls'.get)
        (fun on hon => by simp only [Function.comp_def, hA on hon]),
      all_congr_mem r.objects ((fun o => (access a r.importDir (ls.get r.subject) o).isEmpty) ∘ ls.get)
        ((fun o => (access a r.importDir (ls'.get r.subject) o).isEmpty) ∘ ls'.get)
        (fun on hon => by simp only [Function.comp_def, hA on hon])]

theorem names_limLayers (mt : Str → Str → Bool) (nodes0 nodesK : List Str) (larch : LArch) (ls : Layers)
    (hres : resolves mt nodes0 larch ls = true) :
    (limLayers mt nodesK larch ls).map (·.1) = ls.map (·.1) := by
  induction larch generalizing ls with
  | nil =>
    cases ls with
    | nil => rfl
    | cons _ _ => simp [resolves] at hres
  | cons L Ls ih =>
    cases ls with
    | nil => simp [resolves] at hres
    | cons l ls =>
      obtain ⟨_, _, h3⟩ := (resolves_cons mt nodes0 L Ls l ls).1 hres
      unfold limLayers
      rw [List.map_cons, List.map_cons, ih ls h3]

/-- one entry: what `limLayers` lists is among what `ls` lists -/
theorem limEntry_sub (mt : Str → Str → Bool) (nodes0 nodesK : List Str) (hsub : ∀ s ∈ nodesK, s ∈ nodes0)
    (F : List Filter) (l : List Name) (hl : ∀ x ∈ l, nameWF x = true) (h2 : layerRes mt nodes0 F l = true) (x : Name)
    (hx : x ∈ limEntry mt nodesK F l) : x ∈ l := by
  unfold limEntry at hx
  cases hb : F == l.map nmF with
  | true => simpa only [hb, if_true] using hx
  | false =>
    simp only [hb, Bool.false_eq_true, if_false] at hx
    rcases layerRes_cases h2 with h | ⟨p, hp, hflt⟩
    · rw [h] at hb; simp at hb
    · rw [hp] at hx
      simp only [List.mem_map, List.mem_filter] at hx
      obtain ⟨s, ⟨hs, hm⟩, rfl⟩ := hx
      have : s ∈ nodes0.filter (mt p) := List.mem_filter.2 ⟨hsub s hs, hm⟩
      rw [hflt] at this
      obtain ⟨m, hml, rfl⟩ := List.mem_map.1 this
      rw [splitDots_render m (hl m hml)]
      exact hml

/-- … and all of it, when the listed modules are nodes of `nodesK` -/
theorem limEntry_sup (mt : Str → Str → Bool) (nodes0 nodesK : List Str)
    (F : List Filter) (l : List Name) (hl : ∀ x ∈ l, nameWF x = true ∧ render x ∈ nodesK)
    (h2 : layerRes mt nodes0 F l = true) (x : Name) (hx : x ∈ l) :
    x ∈ limEntry mt nodesK F l := by
  unfold limEntry
  cases hb : F == l.map nmF with
  | true => simpa only [if_true] using hx
  | false =>
    simp only [Bool.false_eq_true, if_false]
    rcases layerRes_cases h2 with h | ⟨p, hp, hflt⟩
    · rw [h] at hb; simp at hb
    · rw [hp]
      simp only [List.mem_map, List.mem_filter]
      obtain ⟨hwf, hin⟩ := hl x hx
      have : render x ∈ nodes0.filter (mt p) := by rw [hflt]; exact List.mem_map_of_mem hx
      exact ⟨render x, ⟨hin, (List.mem_filter.1 this).2⟩, splitDots_render x hwf⟩

theorem sub_limLayers (mt : Str → Str → Bool) (nodes0 nodesK : List Str) (hsub : ∀ s ∈ nodesK, s ∈ nodes0)
    (larch : LArch) (ls : Layers) (hls : ∀ l ∈ ls, ∀ x ∈ l.2, nameWF x = true)
    (hres : resolves mt nodes0 larch ls = true) :
    ∀ l' ∈ limLayers mt nodesK larch ls, ∃ l ∈ ls, l'.1 = l.1 ∧ ∀ x ∈ l'.2, x ∈ l.2 := by
  induction larch generalizing ls with
  | nil =>
    cases ls with
    | nil => intro l' hl'; simp [limLayers] at hl'
    | cons _ _ => simp [resolves] at hres
  | cons L Ls ih =>
    cases ls with
    | nil => simp [resolves] at hres
    | cons l ls =>
      obtain ⟨_, h2, h3⟩ := (resolves_cons mt nodes0 L Ls l ls).1 hres
      intro l' hl'
      unfold limLayers at hl'
      rcases List.mem_cons.1 hl' with rfl | hl'
      · exact ⟨l, List.mem_cons_self, rfl, fun x hx =>
          limEntry_sub mt nodes0 nodesK hsub L.2 l.2 (hls l List.mem_cons_self) h2 x hx⟩
      · obtain ⟨m, hm, h⟩ := ih ls (fun l' hl' => hls l' (List.mem_cons_of_mem _ hl')) h3 l' hl'
        exact ⟨m, List.mem_cons_of_mem _ hm, h⟩

/-- a layer whose listed modules are well-formed names rendered among `nodesK` is re-resolved to the same set -/
theorem get_limLayers (mt : Str → Str → Bool) (nodes0 nodesK : List Str) (hsub : ∀ s ∈ nodesK, s ∈ nodes0)
    (larch : LArch) (ls : Layers) (hres : resolves mt nodes0 larch ls = true) (n : List Char)
    (hn : ∀ x ∈ ls.get n, nameWF x = true ∧ render x ∈ nodesK) (x : Name) :
    x ∈ (limLayers mt nodesK larch ls).get n ↔ x ∈ ls.get n := by
  induction larch generalizing ls with
  | nil =>
    cases ls with
    | nil => exact Iff.rfl
    | cons _ _ => simp [resolves] at hres
  | cons L Ls ih =>
    cases ls with
    | nil => simp [resolves] at hres
    | cons l ls =>
      obtain ⟨_, h2, h3⟩ := (resolves_cons mt nodes0 L Ls l ls).1 hres
      unfold limLayers
      rw [layers_get_cons, layers_get_cons] at *
      cases hl : l.1 == n with
      | false =>
        simp only [hl, Bool.false_eq_true, if_false] at hn ⊢
        exact ih ls h3 hn
      | true =>
        simp only [hl, if_true] at hn ⊢
        exact ⟨limEntry_sub mt nodes0 nodesK hsub L.2 l.2 (fun y hy => (hn y hy).1) h2 x,
          limEntry_sup mt nodes0 nodesK L.2 l.2 hn h2 x⟩

/-- the domain of the core lemma of C05 on the quotient architecture, for the layers the rule works with after
    re-resolution on the flattened graph: only the MENTIONED layers need lie at or above the limit -/
theorem ldom_quotient {a : Arch} (hw : ArchWF a) (k : Nat) {ls : Layers} {r : LRuleSpec} (hd : LDom' a ls r)
    (habove : ruleLayersAbove k ls r = true) (mt : Str → Str → Bool) (nodes0 nodesK : List Str)
    (hsub : ∀ s ∈ nodesK, s ∈ nodes0)
    (hK : ∀ x ∈ (truncArch (some k) a).nodes, render x ∈ nodesK)
    (larch : LArch) (hres : resolves mt nodes0 larch ls = true)
    (hresK : resolves mt nodesK larch (limLayers mt nodesK larch ls) = true) :
    LDom (truncArch (some k) a) (ruleLayers larch (limLayers mt nodesK larch ls) r) r ∧
    (∀ x, x ∈ (limLayers mt nodesK larch ls).get r.subject ↔ x ∈ ls.get r.subject) ∧
    (r.anything = false → ∀ on ∈ r.objects, ∀ x, x ∈ (limLayers mt nodesK larch ls).get on ↔ x ∈ ls.get on) := by
  rw [ruleLayersAbove_iff] at habove
  have hd0 := ldom_of_ldom' hw hd
  have hwfls : ∀ l ∈ ls, ∀ x ∈ l.2, nameWF x = true := fun l hl x hx => hw.nwf x (hd.nodes l hl x hx)
  -- listed modules of a layer at or above the limit are nodes of the quotient
  have hmemT : ∀ n, (∀ x ∈ ls.get n, x.length ≤ k + 1) → ∀ x ∈ ls.get n,
      x ∈ (truncArch (some k) a).nodes := by
    intro n hlen x hx
    obtain ⟨l, hl, hxl⟩ := get_mem_layers ls n x hx
    exact (mem_truncArch_nodes _ a x).2 ⟨x, hd.nodes l hl x hxl, (List.take_of_length_le (hlen x hx)).symm⟩
  have hgetOK : ∀ n, (∀ x ∈ ls.get n, x.length ≤ k + 1) → ∀ x ∈ ls.get n, nameWF x = true ∧ render x ∈ nodesK := by
    intro n hlen x hx
    obtain ⟨l, hl, hxl⟩ := get_mem_layers ls n x hx
    exact ⟨hwfls l hl x hxl, hK x (hmemT n hlen x hx)⟩
  have hgS : ∀ x, x ∈ (limLayers mt nodesK larch ls).get r.subject ↔ x ∈ ls.get r.subject :=
    get_limLayers mt nodes0 nodesK hsub larch ls hres _ (hgetOK _ habove.1)
  have hgO : r.anything = false → ∀ on ∈ r.objects, ∀ x, x ∈ (limLayers mt nodesK larch ls).get on ↔ x ∈ ls.get on :=
    fun hany on hon => get_limLayers mt nodes0 nodesK hsub larch ls hres _ (hgetOK _ (habove.2 hany on hon))
  refine ⟨?_, hgS, hgO⟩
  have hsubL := sub_limLayers mt nodes0 nodesK hsub larch ls hwfls hres
  have hkept := kept_sub (ruleConv larch r) larch (limLayers mt nodesK larch ls)
  -- every entry the rule works with lists a subset of an entry of `ls` with the same name
  have hent : ∀ l' ∈ ruleLayers larch (limLayers mt nodesK larch ls) r, ∃ l ∈ ls, l'.1 = l.1 ∧ ∀ x ∈ l'.2, x ∈ l.2 := by
    intro l' hl'
    obtain ⟨m, hm, hm1, hm2⟩ := hkept l' hl'
    obtain ⟨l, hl, hl1, hl2⟩ := hsubL m hm
    refine ⟨l, hl, hm1.symm.trans hl1, fun x hx => ?_⟩
    rcases hm2 with h | h
    · rw [h] at hx; exact hl2 x hx
    · rw [h] at hx; cases hx
  have hnames : (ruleLayers larch (limLayers mt nodesK larch ls) r).map (·.1) = ls.map (·.1) := by
    show (keptLayers _ larch _).map _ = _
    rw [kept_names mt nodesK _ larch _ hresK, names_limLayers mt nodes0 nodesK larch ls hres]
  have hany' : ∀ n, (ruleLayers larch (limLayers mt nodesK larch ls) r).any (·.1 == n) = ls.any (·.1 == n) := by
    intro n
    rw [any_name_eq, any_name_eq, hnames]
  have hkS : (ruleLayers larch (limLayers mt nodesK larch ls) r).get r.subject =
      (limLayers mt nodesK larch ls).get r.subject :=
    kept_get mt nodesK _ larch _ hresK r.subject (ruleConv_subj larch r)
  have hkO : r.anything = false → ∀ on ∈ r.objects,
      (ruleLayers larch (limLayers mt nodesK larch ls) r).get on = (limLayers mt nodesK larch ls).get on :=
    fun hany on hon => kept_get mt nodesK _ larch _ hresK on (ruleConv_obj larch r hany on hon)
  have hne : ∀ (A B : List Name), (∀ x, x ∈ A ↔ x ∈ B) → B ≠ [] → A ≠ [] := by
    intro A B hAB hB hA
    obtain ⟨x, hx⟩ := List.exists_mem_of_ne_nil _ hB
    have := (hAB x).2 hx
    rw [hA] at this; cases this
  refine ⟨?_, ?_, ?_, ?_, ?_, ?_, ?_, hd.objNe, ?_⟩
  · intro l' hl' x hx
    obtain ⟨l, hl, _, hl2⟩ := hent l' hl'
    exact hwfls l hl x (hl2 x hx)
  · intro x hx
    rw [hkS] at hx
    exact hmemT _ habove.1 x ((hgS x).1 hx)
  · intro hany on hon x hx
    rw [hkO hany on hon] at hx
    exact hmemT _ (habove.2 hany on hon) x ((hgO hany on hon x).1 hx)
  · intro l₁ h₁ l₂ h₂ x hx y hy hrel
    obtain ⟨k₁, hk₁, hn₁, hs₁⟩ := hent l₁ h₁
    obtain ⟨k₂, hk₂, hn₂, hs₂⟩ := hent l₂ h₂
    rw [hn₁, hn₂]
    exact hd0.unrel k₁ hk₁ k₂ hk₂ x (hs₁ x hx) y (hs₂ y hy) hrel
  · rw [hnames]; exact hd.nodup
  · rw [hany']; exact hd.subj
  · rw [hkS]; exact hne _ _ hgS hd0.subjNe
  · intro hany on hon
    obtain ⟨h1, h2, h3⟩ := hd0.obj hany on hon
    refine ⟨by rw [hany']; exact h1, h2, ?_⟩
    rw [hkO hany on hon]
    exact hne _ _ (hgO hany on hon) h3

/-- C09, second sentence, for LAYER rules, depth condition on the MENTIONED layers only -/
theorem layer_verdict_quotient_lemma' (mt : Str → Str → Bool) (a : Arch) (hwf : a.wf = true) (k : Nat)
    (g0 g : PGraph Str) (hg0 : GraphOf a g0) (hg : GraphOf (truncArch (some k) a) g)
    (ls : Layers) (r : LRuleSpec) (hdom : layerDomain' a ls r = true)
    (hany : r.anything = true → r.verb = .shouldNot) (habove : ruleLayersAbove k ls r = true)
    (larch : LArch) (hres : resolves mt g0.nodes larch ls = true) :
    (assertAppliesLayer mt (compileLayerRule larch r) g).cls = VClass.ofBool (layerVerdict a ls r) ∧
    (assertAppliesLayer mt (compileLayerRule larch r) g0).cls = VClass.ofBool (layerVerdict a ls r) := by
  have hw := archWF_of_wf a hwf
  have hd := ldom'_of_layerDomain' a ls r hdom
  have hwfT := truncArch_wf (some k) a hwf
  have hnodes := quotient_nodes_sub hw (some k) hg0 hg
  refine ⟨?_, layer_verdict_lemma mt a g0 hg0 hwf ls r hdom hany larch hres⟩
  have hresK := resolves_limLayers mt g0.nodes g.nodes (fun s hs => (hnodes s hs).2) larch ls hres
  obtain ⟨hL, hgS, hgO⟩ := ldom_quotient hw k hd habove mt g0.nodes g.nodes (fun s hs => (hnodes s hs).1)
    (fun x hx => (hasNode_iff g _).1 ((hg.nodes _).2 ⟨x, hx, rfl⟩)) larch hres hresK
  obtain ⟨S, O, c, heq⟩ := layer_reduce mt _ g hg hwfT _ r hany larch hresK hL
  rw [heq, matchTail_verdict c (archWF_of_wf _ hwfT) hg hany,
    layerVerdict_ruleLayers mt g.nodes _ larch _ r hresK,
    layerVerdict_congr_sets _ _ ls r hgS hgO, layerVerdict_trunc_dom k a ls r hd habove]

/-- C09, second sentence, for LAYER rules: on any graph `g0` of a well-formed architecture and any graph `g` of its
    quotient under truncation to level `k`, a layer rule in the domain of C05 (layers resolved on `g0`) all of whose
    listed modules lie at or above level `k` has on both graphs the verdict class of the documented semantics on the
    FULL architecture -/
theorem layer_verdict_quotient_lemma (mt : Str → Str → Bool) (a : Arch) (hwf : a.wf = true) (k : Nat)
    (g0 g : PGraph Str) (hg0 : GraphOf a g0) (hg : GraphOf (truncArch (some k) a) g)
    (ls : Layers) (r : LRuleSpec) (hdom : layerDomain' a ls r = true)
    (hany : r.anything = true → r.verb = .shouldNot) (habove : layersAbove k ls = true)
    (larch : LArch) (hres : resolves mt g0.nodes larch ls = true) :
    (assertAppliesLayer mt (compileLayerRule larch r) g).cls = VClass.ofBool (layerVerdict a ls r) ∧
    (assertAppliesLayer mt (compileLayerRule larch r) g0).cls = VClass.ofBool (layerVerdict a ls r) :=
  layer_verdict_quotient_lemma' mt a hwf k g0 g hg0 hg ls r hdom hany (ruleLayersAbove_of_layersAbove k ls r habove)
    larch hres

/-! ### diagrams: `conforms` under truncation -/

theorem diagramAbove_iff (k : Nat) (d : Diagram) :
    diagramAbove k d = true ↔ ∀ c ∈ d.components, c.length ≤ k + 1 := by
  simp [diagramAbove, nameAbove]

theorem importsBetween_trunc (k : Nat) (a : Arch) (x y : Name) (hx : x.length ≤ k + 1) (hy : y.length ≤ k + 1)
    (hxy : related x y = false) :
    importsBetween (truncArch (some k) a) x y = importsBetween a x y := by
  unfold importsBetween
  rw [Bool.eq_iff_iff, List.any_eq_true, List.any_eq_true]
  simp only [mem_truncArch_imports, Bool.and_eq_true]
  constructor
  · rintro ⟨p, ⟨e, he, _, rfl⟩, h1, h2⟩
    simp only [trunc] at h1 h2
    rw [desc_take k x _ hx] at h1
    rw [desc_take k y _ hy] at h2
    exact ⟨e, he, h1, h2⟩
  · rintro ⟨e, he, h1, h2⟩
    refine ⟨_, ⟨e, he, ?_, rfl⟩, ?_, ?_⟩
    · intro hc
      have h3 : desc x e.2 = true := by
        rw [← desc_take k x e.2 hx]
        have : e.2.take (k + 1) = e.1.take (k + 1) := hc.symm
        rw [this, desc_take k x e.1 hx]
        exact h1
      rw [related_of_common x y e.2 h3 h2] at hxy
      cases hxy
    · show desc x (e.1.take (k + 1)) = true
      rw [desc_take k x _ hx]; exact h1
    · show desc y (e.2.take (k + 1)) = true
      rw [desc_take k y _ hy]; exact h2

/-- the should-only clause: "a component with outgoing arrows imports nothing outside its targets and itself" -/
theorem onlyClause_trunc (k : Nat) (a : Arch) (x : Name) (ts : List Name) (hx : x.length ≤ k + 1)
    (hts : ∀ t ∈ ts, t.length ≤ k + 1) :
    ((truncArch (some k) a).imports.all fun e => !desc x e.1 || desc x e.2 || ts.any fun t => desc t e.2) =
      (a.imports.all fun e => !desc x e.1 || desc x e.2 || ts.any fun t => desc t e.2) := by
  have hp : ∀ e : Name × Name,
      (!desc x (trunc (some k) e.1) || desc x (trunc (some k) e.2) || ts.any fun t => desc t (trunc (some k) e.2)) =
        (!desc x e.1 || desc x e.2 || ts.any fun t => desc t e.2) := by
    intro e
    show (!desc x (e.1.take (k + 1)) || desc x (e.2.take (k + 1)) || ts.any fun t => desc t (e.2.take (k + 1))) = _
    rw [desc_take k x e.1 hx, desc_take k x e.2 hx, any_congr_mem ts _ _ (fun t ht => desc_take k t e.2 (hts t ht))]
  rw [Bool.eq_iff_iff, List.all_eq_true, List.all_eq_true]
  constructor
  · intro h e he
    by_cases hc : trunc (some k) e.1 = trunc (some k) e.2
    · cases h1 : desc x e.1 with
      | false => simp
      | true =>
        have h2 : desc x e.2 = true := by
          rw [← desc_take k x e.2 hx]
          have : e.2.take (k + 1) = e.1.take (k + 1) := hc.symm
          rw [this, desc_take k x e.1 hx]
          exact h1
        simp [h2]
    · have := h _ ((mem_truncArch_imports (some k) a _).2 ⟨e, he, hc, rfl⟩)
      rw [← hp e]
      exact this
  · intro h p hp'
    obtain ⟨e, he, _, rfl⟩ := (mem_truncArch_imports (some k) a p).1 hp'
    show (!desc x (trunc (some k) e.1) || desc x (trunc (some k) e.2) || ts.any fun t => desc t (trunc (some k) e.2)) = true
    rw [hp e]
    exact h e he

/-- C09 for diagram rules, specification side: conformance does not see the truncation -/
theorem conforms_trunc (k : Nat) (a : Arch) (d : Diagram) (so : Bool) (hd : Dg.Dom a d)
    (habove : diagramAbove k d = true) :
    conforms (truncArch (some k) a) d so = conforms a d so := by
  rw [diagramAbove_iff] at habove
  have hun : ∀ x ∈ d.components, ∀ y ∈ d.components, x = y ∨ related x y = false :=
    pairwise_sym_mem (fun x y h => by rw [related_symm]; exact h) (pairwise_of_pairwiseUnrelated _ hd.unrel)
  unfold conforms
  congr 1
  · refine all_congr_mem _ _ _ (fun x hx => all_congr_mem _ _ _ (fun y hy => ?_))
    rcases hun x hx y hy with rfl | hxy
    · simp
    · rw [importsBetween_trunc k a x y (habove x hx) (habove y hy) hxy]
  · congr 1
    refine all_congr_mem _ _ _ (fun x hx => ?_)
    simp only []
    congr 1
    refine onlyClause_trunc k a x _ (habove x hx) (fun t ht => ?_)
    obtain ⟨e, he, rfl⟩ := List.mem_map.1 ht
    exact habove _ (hd.arr e (List.mem_filter.1 he).1).2.1

theorem dom_trunc (k : Nat) (a : Arch) (d : Diagram) (hd : Dg.Dom a d) (habove : diagramAbove k d = true) :
    Dg.Dom (truncArch (some k) a) d := by
  rw [diagramAbove_iff] at habove
  refine ⟨truncArch_wf (some k) a hd.wf, hd.nodup, hd.unrel, fun c hc => ?_, hd.arr⟩
  exact (mem_truncArch_nodes _ a c).2 ⟨c, hd.nodes c hc, (List.take_of_length_le (habove c hc)).symm⟩

theorem diagramDomain_of_dom (a : Arch) (d : Diagram) (hd : Dg.Dom a d) : diagramDomain a d = true := by
  unfold diagramDomain
  simp only [Bool.and_eq_true, List.all_eq_true, List.contains_iff_mem, bne_iff_ne, ne_eq, Dg.nodupB_iff']
  exact ⟨⟨⟨⟨hd.wf, hd.nodup⟩, hd.unrel⟩, hd.nodes⟩, fun e he => ⟨⟨(hd.arr e he).1, (hd.arr e he).2.1⟩, (hd.arr e he).2.2⟩⟩

/-- the domain of C07 transfers to the quotient architecture -/
theorem diagramDomain_trunc (k : Nat) (a : Arch) (d : Diagram) (h : diagramDomain a d = true)
    (habove : diagramAbove k d = true) : diagramDomain (truncArch (some k) a) d = true :=
  diagramDomain_of_dom _ d (dom_trunc k a d (Dg.dom_of a d h) habove)

theorem cls_of_pass_iff (v : DVerdict) (c : Bool) (h1 : v = .pass ↔ c = true) (h2 : ∀ k, v ≠ .err k) :
    v.cls = VClass.ofBool c := by
  cases v with
  | pass => rw [h1.1 rfl]; rfl
  | fail items =>
    cases c with
    | false => rfl
    | true => cases h1.2 rfl
  | err k => exact absurd rfl (h2 k)

/-- C07 as an equation between verdict classes, on any graph of the architecture -/
theorem diagram_cls (mt : Str → Str → Bool) (a : Arch) (g : PGraph Str) (hg : GraphOf a g) (d : Diagram) (so : Bool)
    (h : diagramDomain a d = true) :
    (applyAll mt g (diagramRules so (parsedOf d))).cls = VClass.ofBool (conforms a d so) := by
  obtain ⟨h1, h2, _⟩ := Dg.conforms_iff_lemma mt a g hg d so h
  exact cls_of_pass_iff _ _ h1 h2

/-- C09, second sentence, for DIAGRAM rules: on any graph `g0` of the architecture and any graph `g` of its quotient,
    the generated rules of a diagram in the domain of C07 whose components lie at or above level `k` have on both
    graphs the verdict class "the imports of the FULL architecture conform to the diagram" -/
theorem diagram_verdict_quotient_lemma (mt : Str → Str → Bool) (a : Arch) (k : Nat) (g0 g : PGraph Str)
    (hg0 : GraphOf a g0) (hg : GraphOf (truncArch (some k) a) g) (d : Diagram) (so : Bool)
    (hdom : diagramDomain a d = true) (habove : diagramAbove k d = true) :
    (applyAll mt g (diagramRules so (parsedOf d))).cls = VClass.ofBool (conforms a d so) ∧
    (applyAll mt g0 (diagramRules so (parsedOf d))).cls = VClass.ofBool (conforms a d so) := by
  refine ⟨?_, diagram_cls mt a g0 hg0 d so hdom⟩
  rw [diagram_cls mt _ g hg d so (diagramDomain_trunc k a d hdom habove),
    conforms_trunc k a d so (Dg.dom_of a d hdom) habove]

/-- the same from the diagram FILE (C06 ∘ C07 ∘ C09): `DiagramRule.assert_applies` on a rendered diagram -/
theorem diagram_file_quotient_lemma (mt : Str → Str → Bool) (a : Arch) (k : Nat) (g0 g : PGraph Str)
    (hg0 : GraphOf a g0) (hg : GraphOf (truncArch (some k) a) g) (n1 n2 : Str) (d : List DLine)
    (hwf : diagramWF d = true) (hn : isInfix tagEnd n2 = false) (D : Diagram) (hM : E2E.Means d D) (so : Bool)
    (hdom : diagramDomain a D = true) (habove : diagramAbove k D = true) :
    (diagramAssert mt (some (diagramText n1 d n2)) none so g).cls = VClass.ofBool (conforms a D so) ∧
    (diagramAssert mt (some (diagramText n1 d n2)) none so g0).cls = VClass.ofBool (conforms a D so) := by
  obtain ⟨h1, h2, _⟩ := E2E.file_conforms_lemma mt a g0 hg0 n1 n2 d hwf hn D hM so hdom
  obtain ⟨h3, h4, _⟩ := E2E.file_conforms_lemma mt _ g hg n1 n2 d hwf hn D hM so (diagramDomain_trunc k a D hdom habove)
  refine ⟨?_, cls_of_pass_iff _ _ h1 h2⟩
  rw [cls_of_pass_iff _ _ h3 h4, conforms_trunc k a D so (Dg.dom_of a D hdom) habove]

end Pta.QL
