/-
  PtaProofs.Lemmas.LayerTag — `LayerMap.layerOf` on rendered names is the specification's `layerTag`
  (the layer listing an ancestor of the module) whenever listed modules of the mapping are unrelated:
  it never raises `layerMismatch`.
-/
import Bridge.LayerAbs
import PtaProofs.Lemmas.Render
import PtaProofs.Lemmas.RenameAux
import PtaProofs.Lemmas.SemHier
import PtaProofs.Lemmas.LayerConsistent
namespace Pta
open PtaSpec

/-- related listed modules sit in layers of the same name (inside one layer a module and its sub module, or the same
    module twice, may be listed) -/
def UnrelMap (m : Layers) : Prop :=
  ∀ l₁ ∈ m, ∀ l₂ ∈ m, ∀ x ∈ l₁.2, ∀ y ∈ l₂.2, related x y = true → l₁.1 = l₂.1

theorem related_of_prefixes {x y n : Name} (hx : x <+: n) (hy : y <+: n) : related x y = true := by
  unfold related
  rcases List.prefix_or_prefix_of_prefix hx hy with h | h
  · simp [(desc_iff _ _).2 h]
  · simp [(desc_iff _ _).2 h]

theorem inLayer_iff (l : List Name) (n : Name) : inLayer l n = true ↔ ∃ x ∈ l, x <+: n := by
  simp only [inLayer, List.any_eq_true, desc_iff]

theorem inLayer_self (l : List Name) (n : Name) (h : n ∈ l) : inLayer l n = true :=
  (inLayer_iff l n).2 ⟨n, h, List.prefix_refl _⟩

/-- the tag, unpacked -/
theorem layerTag_some {m : Layers} {n : Name} {t : List Char} (h : layerTag m n = some t) :
    ∃ l ∈ m, l.1 = t ∧ inLayer l.2 n = true := by
  unfold layerTag at h
  cases hf : m.find? (fun l => inLayer l.2 n) with
  | none => rw [hf] at h; cases h
  | some l =>
    rw [hf] at h
    simp only [Option.map_some, Option.some.injEq] at h
    exact ⟨l, List.mem_of_find?_eq_some hf, h, List.find?_some (p := fun l : List Char × List Name => inLayer l.2 n) hf⟩

theorem layerTag_of_mem {m : Layers} (hU : UnrelMap m) {n : Name} {l : List Char × List Name} (hl : l ∈ m)
    (hin : inLayer l.2 n = true) : layerTag m n = some l.1 := by
  unfold layerTag
  cases hf : m.find? (fun l => inLayer l.2 n) with
  | none =>
    rw [List.find?_eq_none] at hf
    exact absurd hin (hf l hl)
  | some l' =>
    have hl' := List.mem_of_find?_eq_some hf
    have hin' : inLayer l'.2 n = true := List.find?_some (p := fun l : List Char × List Name => inLayer l.2 n) hf
    obtain ⟨x, hx, hxn⟩ := (inLayer_iff _ _).1 hin
    obtain ⟨y, hy, hyn⟩ := (inLayer_iff _ _).1 hin'
    have := hU l' hl' l hl y hy x hx (related_of_prefixes hyn hxn)
    simp only [Option.map_some, this]

theorem layerTag_none {m : Layers} {n : Name} (h : layerTag m n = none) :
    ∀ l ∈ m, inLayer l.2 n = false := by
  unfold layerTag at h
  cases hf : m.find? (fun l => inLayer l.2 n) with
  | some l => rw [hf] at h; cases h
  | none =>
    rw [List.find?_eq_none] at hf
    intro l hl
    simpa using hf l hl

theorem dedup_all_eq {α : Type} [DecidableEq α] (l : List α) (t : α) (h : ∀ x ∈ l, x = t) (hne : l ≠ []) :
    dedup l = [t] := by
  induction l with
  | nil => exact absurd rfl hne
  | cons x xs ih =>
    have hx : x = t := h x (by simp)
    subst hx
    cases xs with
    | nil => simp [dedup]
    | cons y ys =>
      have := ih (fun z hz => h z (List.mem_cons_of_mem _ hz)) (by simp)
      show (let r := dedup (y :: ys); if x ∈ r then r else x :: r) = [x]
      simp only [this]
      simp

theorem layerOfListedC_some {m : Layers} {n : Name} {t : Str} (h : Ren.layerOfListedC m n = some t) :
    ∃ l ∈ m, l.1 = t ∧ n ∈ l.2 := by
  unfold Ren.layerOfListedC at h
  cases hg : (m.filter fun l => l.2.contains n).getLast? with
  | none => rw [hg] at h; cases h
  | some l =>
    rw [hg] at h
    simp only [Option.map_some, Option.some.injEq] at h
    have := List.mem_filter.1 (List.mem_of_getLast? hg)
    exact ⟨l, this.1, h, by simpa using this.2⟩

theorem layerOfListedC_none {m : Layers} {n : Name} (h : Ren.layerOfListedC m n = none) :
    ∀ l ∈ m, n ∉ l.2 := by
  unfold Ren.layerOfListedC at h
  cases hg : (m.filter fun l => l.2.contains n).getLast? with
  | some l => rw [hg] at h; cases h
  | none =>
    rw [List.getLast?_eq_none_iff, List.filter_eq_nil_iff] at hg
    intro l hl
    simpa using hg l hl

theorem layerOfListedC_of_mem {m : Layers} {n : Name} {l : List Char × List Name} (hl : l ∈ m) (hn : n ∈ l.2) :
    ∃ t, Ren.layerOfListedC m n = some t := by
  cases h : Ren.layerOfListedC m n with
  | some t => exact ⟨t, rfl⟩
  | none => exact absurd hn (layerOfListedC_none h l hl)

/-- component-level lookup = the specification's tag -/
theorem layerOfC_correct (m : Layers) (hU : UnrelMap m) (n : Name) :
    Ren.layerOfC m n = .ok (layerTag m n) := by
  unfold Ren.layerOfC
  cases hL : Ren.layerOfListedC m n with
  | some t =>
    obtain ⟨l, hl, rfl, hn⟩ := layerOfListedC_some hL
    simp only
    rw [layerTag_of_mem hU hl (inLayer_self _ _ hn)]
  | none =>
    simp only
    have hnot := layerOfListedC_none hL
    have claim1 : ∀ t ∈ ((m.flatMap (·.2)).filter fun c => sdesc c n).filterMap (Ren.layerOfListedC m),
        layerTag m n = some t := by
      intro t ht
      obtain ⟨c, hc, hct⟩ := List.mem_filterMap.1 ht
      obtain ⟨_, hsd⟩ := List.mem_filter.1 hc
      obtain ⟨l', hl', rfl, hcl'⟩ := layerOfListedC_some hct
      exact layerTag_of_mem hU hl' ((inLayer_iff _ _).2 ⟨c, hcl', ((sdesc_iff _ _).1 hsd).1⟩)
    have claim2 : ∀ t, layerTag m n = some t →
        ((m.flatMap (·.2)).filter fun c => sdesc c n).filterMap (Ren.layerOfListedC m) ≠ [] := by
      intro t ht
      obtain ⟨l, hl, _, hin⟩ := layerTag_some ht
      obtain ⟨x, hx, hxn⟩ := (inLayer_iff _ _).1 hin
      have hne : x ≠ n := by rintro rfl; exact hnot l hl hx
      obtain ⟨t', ht'⟩ := layerOfListedC_of_mem hl hx
      intro h0
      have : t' ∈ ((m.flatMap (·.2)).filter fun c => sdesc c n).filterMap (Ren.layerOfListedC m) :=
        List.mem_filterMap.2 ⟨x, List.mem_filter.2 ⟨List.mem_flatMap.2 ⟨l, hl, hx⟩, (sdesc_iff _ _).2 ⟨hxn, hne⟩⟩, ht'⟩
      rw [h0] at this; cases this
    cases hT : layerTag m n with
    | none =>
      have : ((m.flatMap (·.2)).filter fun c => sdesc c n).filterMap (Ren.layerOfListedC m) = [] := by
        cases hh : ((m.flatMap (·.2)).filter fun c => sdesc c n).filterMap (Ren.layerOfListedC m) with
        | nil => rfl
        | cons t ts =>
          have := claim1 t (by rw [hh]; simp)
          rw [hT] at this; cases this
      rw [this]
      rfl
    | some t =>
      rw [dedup_all_eq _ t (fun x hx => by
        have := claim1 x hx
        rw [hT] at this
        exact (Option.some.inj this).symm) (claim2 t hT)]

/-- `layerOf_correct`: on a mapping that lists rendered, pairwise unrelated modules, the layer of a rendered module is the
    unique layer listing one of its ancestors (or itself), or none — never `.error layerMismatch` -/
theorem layerOf_correct (m : Layers) (hU : UnrelMap m) (hm : ∀ l ∈ m, ∀ x ∈ l.2, nameWF x = true) (n : Name)
    (hn : nameWF n = true) :
    LayerMap.layerOf (m.map fun l => (l.1, l.2.map render)) (render n) = .ok (layerTag m n) := by
  rw [Ren.layerOf_enc render render_injective m hm n hn (fun c hc => isStrictSub_render c n hc hn)]
  exact layerOfC_correct m hU n

/-- on a mapping that lists rendered, pairwise unrelated modules the check of the repaired `_update_layer_mapping`
    passes: listed modules are in particular pairwise distinct, unless they sit in layers of the same name -/
theorem consistent_of_unrelMap (m : Layers) (hU : UnrelMap m) (hm : ∀ l ∈ m, ∀ x ∈ l.2, nameWF x = true) :
    LayerMap.consistent (m.map fun l => (l.1, l.2.map render)) = true := by
  rw [consistent_iff]
  intro l1 h1 l2 h2 id i1 i2
  obtain ⟨k1, hk1, rfl⟩ := List.mem_map.1 h1
  obtain ⟨k2, hk2, rfl⟩ := List.mem_map.1 h2
  simp only [List.mem_map] at i1 i2
  obtain ⟨x, hx, rfl⟩ := i1
  obtain ⟨y, hy, hxy⟩ := i2
  have e : y = x := render_injective y x (hm k2 hk2 y hy) (hm k1 hk1 x hx) hxy
  subst e
  have hrel : related y y = true := by simp [related, desc]
  exact hU k1 hk1 k2 hk2 y hx y hy hrel

/-! ### from the Bool-valued domain predicate to `UnrelMap` -/

theorem pairwise_of_pairwiseUnrelated (l : List Name) (h : pairwiseUnrelated l = true) :
    l.Pairwise fun x y => related x y = false := by
  induction l with
  | nil => exact List.Pairwise.nil
  | cons x xs ih =>
    simp only [pairwiseUnrelated, Bool.and_eq_true, List.all_eq_true, Bool.not_eq_true'] at h
    exact List.Pairwise.cons h.1 (ih h.2)

theorem pairwise_sym_mem {α : Type} {R : α → α → Prop} (hsym : ∀ a b, R a b → R b a) {l : List α}
    (h : l.Pairwise R) : ∀ a ∈ l, ∀ b ∈ l, a = b ∨ R a b := by
  induction l with
  | nil => intro a ha; cases ha
  | cons x xs ih =>
    rw [List.pairwise_cons] at h
    intro a ha b hb
    rcases List.mem_cons.1 ha with ha' | ha' <;> rcases List.mem_cons.1 hb with hb' | hb'
    · exact .inl (ha'.trans hb'.symm)
    · exact .inr (ha' ▸ h.1 b hb')
    · exact .inr (hsym _ _ (hb' ▸ h.1 a ha'))
    · exact ih h.2 a ha' b hb'

theorem related_symm (x y : Name) : related x y = related y x := by
  simp [related, Bool.or_comm]

theorem related_self (x : Name) : related x x = true := by
  simp [related, desc]

theorem unrelMap_of_pairwise (m : Layers) (h : pairwiseUnrelated (m.flatMap (·.2)) = true) : UnrelMap m := by
  have hp := pairwise_of_pairwiseUnrelated _ h
  rw [List.pairwise_flatMap] at hp
  obtain ⟨hin, hout⟩ := hp
  intro l₁ h₁ l₂ h₂ x hx y hy hrel
  have hsym : ∀ a b : List Char × List Name,
      (∀ x ∈ a.2, ∀ y ∈ b.2, related x y = false) → (∀ x ∈ b.2, ∀ y ∈ a.2, related x y = false) :=
    fun a b hab x hx y hy => by rw [related_symm]; exact hab y hy x hx
  rcases pairwise_sym_mem hsym hout l₁ h₁ l₂ h₂ with rfl | hne
  · rfl
  · rw [hne x hx y hy] at hrel; cases hrel

/-- cross-layer unrelatedness as a `Pairwise` statement -/
theorem pairwise_of_crossUnrelated (m : Layers) (h : crossUnrelated m = true) :
    m.Pairwise fun l₁ l₂ => ∀ x ∈ l₁.2, ∀ y ∈ l₂.2, related x y = false := by
  induction m with
  | nil => exact List.Pairwise.nil
  | cons l ls ih =>
    simp only [crossUnrelated, Bool.and_eq_true, List.all_eq_true, Bool.not_eq_true'] at h
    exact List.Pairwise.cons (fun l' hl' x hx y hy => h.1 x hx l' hl' y hy) (ih h.2)

theorem unrelMap_of_cross (m : Layers) (h : crossUnrelated m = true) : UnrelMap m := by
  have hout := pairwise_of_crossUnrelated m h
  intro l₁ h₁ l₂ h₂ x hx y hy hrel
  have hsym : ∀ a b : List Char × List Name,
      (∀ x ∈ a.2, ∀ y ∈ b.2, related x y = false) → (∀ x ∈ b.2, ∀ y ∈ a.2, related x y = false) :=
    fun a b hab x hx y hy => by rw [related_symm]; exact hab y hy x hx
  rcases pairwise_sym_mem hsym hout l₁ h₁ l₂ h₂ with rfl | hne
  · rfl
  · rw [hne x hx y hy] at hrel; cases hrel

/-- the old (all listed modules pairwise unrelated) implies the relaxed (cross-layer) condition -/
theorem cross_of_pairwiseUnrelated (m : Layers) (h : pairwiseUnrelated (m.flatMap (·.2)) = true) :
    crossUnrelated m = true := by
  induction m with
  | nil => rfl
  | cons l ls ih =>
    have hp := pairwise_of_pairwiseUnrelated _ h
    rw [List.flatMap_cons, List.pairwise_append] at hp
    obtain ⟨_, h2, h3⟩ := hp
    simp only [crossUnrelated, Bool.and_eq_true, List.all_eq_true, Bool.not_eq_true']
    refine ⟨fun x hx l' hl' y hy => h3 x hx y (List.mem_flatMap.2 ⟨l', hl', hy⟩), ih ?_⟩
    clear ih h3 h
    generalize ls.flatMap (·.2) = L at h2
    induction L with
    | nil => rfl
    | cons z zs ih2 =>
      rw [List.pairwise_cons] at h2
      simp only [pairwiseUnrelated, Bool.and_eq_true, List.all_eq_true, Bool.not_eq_true']
      exact ⟨h2.1, ih2 h2.2⟩

end Pta
