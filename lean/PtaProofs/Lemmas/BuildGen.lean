/-
  PtaProofs.Lemmas.BuildGen — list-level facts about the graph construction primitives
  (`createNode`, `createEdge`, `addHierarchy`), independent of any architecture: under an invariant
  "every node satisfies `Q`, every edge satisfies `P`" with `P · · true` and `P · · false` exclusive,
  every *legal* call only ever appends, so nodes and edges grow monotonically.
-/
import Bridge.Abs
namespace Pta
namespace BuildGen

theorem hasNode_iff (g : PGraph Str) (s : Str) : g.hasNode s = true ↔ s ∈ g.nodes := by
  simp [PGraph.hasNode]

/-! ### generic fold lemmas -/

theorem foldl_inv {β γ : Type} (f : β → γ → β) (Inv : β → Prop) (l : List γ)
    (hinv : ∀ g x, x ∈ l → Inv g → Inv (f g x)) : ∀ g, Inv g → Inv (l.foldl f g) := by
  induction l with
  | nil => intro g h; simpa using h
  | cons y l ih =>
    intro g h
    simp only [List.foldl_cons]
    exact ih (fun g x hx => hinv g x (List.mem_cons_of_mem _ hx)) _ (hinv g y (List.mem_cons_self) h)

theorem foldl_establish {β γ : Type} (f : β → γ → β) (Inv Has : β → Prop) (l : List γ) (x₀ : γ) (hx : x₀ ∈ l)
    (hinv : ∀ g x, x ∈ l → Inv g → Inv (f g x))
    (hmono : ∀ g x, x ∈ l → Inv g → Has g → Has (f g x))
    (hest : ∀ g, Inv g → Has (f g x₀)) : ∀ g, Inv g → Has (l.foldl f g) := by
  induction l with
  | nil => cases hx
  | cons y l ih =>
    intro g h
    simp only [List.foldl_cons]
    have hinv' : ∀ g x, x ∈ l → Inv g → Inv (f g x) := fun g x hx => hinv g x (List.mem_cons_of_mem _ hx)
    have hmono' : ∀ g x, x ∈ l → Inv g → Has g → Has (f g x) := fun g x hx => hmono g x (List.mem_cons_of_mem _ hx)
    have hy : Inv (f g y) := hinv g y List.mem_cons_self h
    rcases List.mem_cons.1 hx with rfl | hx'
    · have : Inv (f g x₀) ∧ Has (f g x₀) := ⟨hy, hest g h⟩
      exact (foldl_inv f (fun g => Inv g ∧ Has g) l
        (fun g x hx hg => ⟨hinv' g x hx hg.1, hmono' g x hx hg.1 hg.2⟩) _ this).2
    · exact ih hx' hinv' hmono' _ hy

/-! ### `createNode` -/

theorem createNode_nodes (lim : Option Nat) (g : PGraph Str) (n s : Str) :
    s ∈ (createNode lim g n).nodes ↔ s ∈ g.nodes ∨ s = flattenNode lim n := by
  unfold createNode
  simp only []
  split
  · rename_i h
    rw [hasNode_iff] at h
    constructor
    · exact Or.inl
    · rintro (h' | rfl)
      · exact h'
      · exact h
  · simp

theorem createNode_edges (lim : Option Nat) (g : PGraph Str) (n : Str) :
    (createNode lim g n).edges = g.edges := by
  unfold createNode
  simp only []
  split <;> rfl

theorem createNode_nodup (lim : Option Nat) (g : PGraph Str) (n : Str) (h : g.nodes.Nodup) :
    (createNode lim g n).nodes.Nodup := by
  unfold createNode
  simp only []
  split
  · exact h
  · rename_i hn
    rw [hasNode_iff] at hn
    simp only []
    rw [List.nodup_append]
    refine ⟨h, by simp, ?_⟩
    intro x hx y hy
    simp at hy
    subst hy
    intro hxy; subst hxy; exact hn hx

/-! ### `createEdge` -/

theorem createEdge_nodes (lim : Option Nat) (g : PGraph Str) (s e : Str) (inh : Bool) :
    (createEdge lim g s e inh).nodes = g.nodes := by
  unfold createEdge PGraph.setEdge
  simp only []
  repeat' split
  all_goals rfl

section
variable (lim : Option Nat) (P : Str → Str → Bool → Prop)
  (hex : ∀ s e, P s e true → P s e false → False)
include hex

theorem createEdge_edges (g : PGraph Str) (s e : Str) (inh : Bool)
    (hg : ∀ x ∈ g.edges, P x.src x.dst x.inh)
    (hleg : flattenNode lim s ≠ flattenNode lim e → P (flattenNode lim s) (flattenNode lim e) inh) (x : Edge Str) :
    x ∈ (createEdge lim g s e inh).edges ↔
      x ∈ g.edges ∨ (x = ⟨flattenNode lim s, flattenNode lim e, inh⟩ ∧ flattenNode lim s ≠ flattenNode lim e ∧
        flattenNode lim s ∈ g.nodes ∧ flattenNode lim e ∈ g.nodes) := by
  unfold createEdge
  simp only []
  generalize flattenNode lim s = s' at *
  generalize flattenNode lim e = e' at *
  by_cases hse : s' = e'
  · simp [hse]
  · simp only [beq_iff_eq, hse, if_false]
    by_cases hn : (g.hasNode s' && g.hasNode e') = true
    · simp only [hn, if_true]
      have hn' : s' ∈ g.nodes ∧ e' ∈ g.nodes := by
        simpa [Bool.and_eq_true, hasNode_iff] using hn
      cases hf : g.findEdge s' e' with
      | some y =>
        simp only []
        unfold PGraph.findEdge at hf
        have hy := List.find?_some hf
        have hym := List.mem_of_find?_eq_some hf
        simp only [Bool.and_eq_true, beq_iff_eq] at hy
        by_cases hinh : y.inh = inh
        · simp only [hinh, if_true]
          constructor
          · exact Or.inl
          · rintro (h | ⟨rfl, -⟩)
            · exact h
            · obtain ⟨ys, yd, yi⟩ := y
              simp only at hy hinh
              obtain ⟨rfl, rfl⟩ := hy
              subst hinh
              exact hym
        · exfalso
          have h1 := hg y hym
          rw [hy.1, hy.2] at h1
          have h2 := hleg hse
          cases inh <;> cases hyi : y.inh <;> simp [hyi] at hinh h1
          · exact hex _ _ h1 h2
          · exact hex _ _ h2 h1
      | none =>
        simp only []
        unfold PGraph.setEdge PGraph.hasEdge
        simp only [hf, Option.isSome_none, Bool.false_eq_true, if_false, List.mem_append, List.mem_singleton]
        constructor
        · rintro (h | h)
          · exact Or.inl h
          · exact Or.inr ⟨h, hse, hn'⟩
        · rintro (h | ⟨h, -⟩)
          · exact Or.inl h
          · exact Or.inr h
    · simp only [hn, Bool.false_eq_true, if_false]
      have hn' : ¬ (s' ∈ g.nodes ∧ e' ∈ g.nodes) := by
        simpa [Bool.and_eq_true, hasNode_iff] using hn
      constructor
      · exact Or.inl
      · rintro (h | ⟨-, -, h⟩)
        · exact h
        · exact absurd h hn'

end

/-! ### folds -/

theorem nodeFold_nodes (lim : Option Nat) (ps : List Str) (g : PGraph Str) (s : Str) :
    s ∈ (ps.foldl (createNode lim) g).nodes ↔ s ∈ g.nodes ∨ ∃ p ∈ ps, s = flattenNode lim p := by
  induction ps generalizing g with
  | nil => simp
  | cons p ps ih =>
    simp only [List.foldl_cons, ih, createNode_nodes, List.mem_cons, exists_eq_or_imp]
    exact or_assoc

theorem nodeFold_edges (lim : Option Nat) (ps : List Str) (g : PGraph Str) :
    (ps.foldl (createNode lim) g).edges = g.edges := by
  induction ps generalizing g with
  | nil => rfl
  | cons p ps ih => simp only [List.foldl_cons, ih, createNode_edges]

theorem nodeFold_nodup (lim : Option Nat) (ps : List Str) (g : PGraph Str) (h : g.nodes.Nodup) :
    (ps.foldl (createNode lim) g).nodes.Nodup := by
  induction ps generalizing g with
  | nil => exact h
  | cons p ps ih => exact ih _ (createNode_nodup lim g p h)

theorem edgeFold_nodes (lim : Option Nat) (inh : Bool) (l : List (Str × Str)) (g : PGraph Str) :
    (l.foldl (fun g pc => createEdge lim g pc.1 pc.2 inh) g).nodes = g.nodes := by
  induction l generalizing g with
  | nil => rfl
  | cons p ps ih => simp only [List.foldl_cons, ih, createEdge_nodes]

theorem mem_consecutive_left {β : Type} : ∀ (l : List β) (p : β × β), p ∈ consecutive l → p.1 ∈ l ∧ p.2 ∈ l
  | [], p, h => by simp [consecutive] at h
  | [_], p, h => by simp [consecutive] at h
  | a :: b :: r, p, h => by
    simp only [consecutive, List.mem_cons] at h
    rcases h with rfl | h
    · simp
    · have := mem_consecutive_left (b :: r) p h
      simp only [List.mem_cons] at this ⊢
      exact ⟨Or.inr this.1, Or.inr this.2⟩

section
variable (lim : Option Nat) (P : Str → Str → Bool → Prop)
  (hex : ∀ s e, P s e true → P s e false → False)
include hex

/-- folding legal `createEdge` calls: invariant kept, edges only grow, every call with both (distinct) ends
    present leaves its edge in the result -/
theorem edgeFold_spec (inh : Bool) (l : List (Str × Str)) (g : PGraph Str)
    (hg : ∀ x ∈ g.edges, P x.src x.dst x.inh)
    (hleg : ∀ pc ∈ l, flattenNode lim pc.1 ≠ flattenNode lim pc.2 → P (flattenNode lim pc.1) (flattenNode lim pc.2) inh) :
    (∀ x ∈ (l.foldl (fun g pc => createEdge lim g pc.1 pc.2 inh) g).edges, P x.src x.dst x.inh) ∧
    g.edges ⊆ (l.foldl (fun g pc => createEdge lim g pc.1 pc.2 inh) g).edges ∧
    (∀ pc ∈ l, flattenNode lim pc.1 ≠ flattenNode lim pc.2 → flattenNode lim pc.1 ∈ g.nodes → flattenNode lim pc.2 ∈ g.nodes →
      ⟨flattenNode lim pc.1, flattenNode lim pc.2, inh⟩ ∈ (l.foldl (fun g pc => createEdge lim g pc.1 pc.2 inh) g).edges) := by
  induction l generalizing g with
  | nil => exact ⟨hg, fun _ h => h, fun _ h => by cases h⟩
  | cons p ps ih =>
    simp only [List.foldl_cons]
    have hp := hleg p List.mem_cons_self
    have hchar := createEdge_edges lim P hex g p.1 p.2 inh hg hp
    have hg' : ∀ x ∈ (createEdge lim g p.1 p.2 inh).edges, P x.src x.dst x.inh := by
      intro x hx
      rcases (hchar x).1 hx with h | ⟨rfl, hne, -⟩
      · exact hg x h
      · exact hp hne
    obtain ⟨i1, i2, i3⟩ := ih (createEdge lim g p.1 p.2 inh) hg' (fun pc h => hleg pc (List.mem_cons_of_mem _ h))
    refine ⟨i1, fun x hx => i2 ((hchar x).2 (Or.inl hx)), ?_⟩
    intro pc hpc hne h1 h2
    rcases List.mem_cons.1 hpc with rfl | hpc
    · exact i2 ((hchar _).2 (Or.inr ⟨rfl, hne, h1, h2⟩))
    · exact i3 pc hpc hne (by rw [createEdge_nodes]; exact h1) (by rw [createEdge_nodes]; exact h2)

/-- `addHierarchy` with a legal chain -/
theorem addHierarchy_spec (Q : Str → Prop) (g : PGraph Str) (parents : List Str) (child : Str)
    (hq : ∀ s ∈ g.nodes, Q s)
    (hg : ∀ x ∈ g.edges, P x.src x.dst x.inh)
    (hlegn : ∀ p ∈ parents, Q (flattenNode lim p))
    (hleg : ∀ pc ∈ consecutive (parents ++ [child]), flattenNode lim pc.1 ≠ flattenNode lim pc.2 →
      P (flattenNode lim pc.1) (flattenNode lim pc.2) true) :
    (∀ s ∈ (addHierarchy lim g parents child).nodes, Q s) ∧
    (∀ x ∈ (addHierarchy lim g parents child).edges, P x.src x.dst x.inh) ∧
    g.nodes ⊆ (addHierarchy lim g parents child).nodes ∧
    g.edges ⊆ (addHierarchy lim g parents child).edges ∧
    (flattenNode lim child ∈ g.nodes → ∀ pc ∈ consecutive (parents ++ [child]),
      flattenNode lim pc.1 ≠ flattenNode lim pc.2 →
      ⟨flattenNode lim pc.1, flattenNode lim pc.2, true⟩ ∈ (addHierarchy lim g parents child).edges) := by
  unfold addHierarchy
  simp only []
  have hg1 : ∀ x ∈ (parents.foldl (createNode lim) g).edges, P x.src x.dst x.inh := by
    rw [nodeFold_edges]; exact hg
  obtain ⟨i1, i2, i3⟩ := edgeFold_spec lim P hex true (consecutive (parents ++ [child])) _ hg1 hleg
  refine ⟨?_, i1, ?_, ?_, ?_⟩
  · intro s hs
    rw [edgeFold_nodes, nodeFold_nodes] at hs
    rcases hs with h | ⟨p, hp, rfl⟩
    · exact hq s h
    · exact hlegn p hp
  · intro s hs
    rw [edgeFold_nodes, nodeFold_nodes]
    exact Or.inl hs
  · intro x hx
    apply i2
    rw [nodeFold_edges]; exact hx
  · intro hc pc hpc hne
    have hm := mem_consecutive_left _ _ hpc
    have hin : ∀ y ∈ parents ++ [child], flattenNode lim y ∈ (parents.foldl (createNode lim) g).nodes := by
      intro y hy
      rw [nodeFold_nodes]
      rcases List.mem_append.1 hy with h | h
      · exact Or.inr ⟨y, h, rfl⟩
      · simp at h; subst h; exact Or.inl hc
    exact i3 pc hpc hne (hin _ hm.1) (hin _ hm.2)

end

/-! ### the repair of the level-limit defect: `skipImportEdge` -/

theorem skipImportEdge_none (known : List Str) (i : ImportRec) : skipImportEdge none known i = false := rfl

theorem skipImportEdge_some (k : Nat) (known : List Str) (i : ImportRec) :
    skipImportEdge (some k) known i = false ↔ i.importer ∈ known ∧ i.importee ∈ known := by
  simp [skipImportEdge]

theorem skipImportEdge_false_of_mem (lim : Option Nat) (known : List Str) (i : ImportRec)
    (h1 : i.importer ∈ known) (h2 : i.importee ∈ known) : skipImportEdge lim known i = false := by
  simp [skipImportEdge, h1, h2]

theorem skipImportEdge_congr (lim : Option Nat) (known known' : List Str) (i : ImportRec)
    (h : ∀ s, s ∈ known ↔ s ∈ known') : skipImportEdge lim known i = skipImportEdge lim known' i := by
  have hc : ∀ s, known.contains s = known'.contains s := by
    intro s
    rw [Bool.eq_iff_iff]
    simp only [List.contains_iff_mem]
    exact h s
  unfold skipImportEdge
  rw [hc, hc]

theorem mem_knownModules (mods : List Str) (s : Str) :
    s ∈ knownModules mods ↔ s ∈ mods ∨ ∃ m ∈ mods, s ∈ parentModules m := by
  simp [knownModules, List.mem_flatMap]

/-- the unguarded loop body (what `addImport` was before the repair; still what it is without a level limit or
    for an import between known modules) -/
def addImport₀ (lim : Option Nat) (g : PGraph Str) (i : ImportRec) : PGraph Str :=
  let g := createEdge lim g i.importer i.importee false
  let g := addHierarchy lim g (parentModules i.importer) i.importer
  (consecutive (i.importeeParents ++ [i.importee])).foldl
    (fun g pc => createEdge lim g pc.1 pc.2 true) g

theorem addImport_none (known : List Str) (g : PGraph Str) (i : ImportRec) :
    addImport none known g i = addImport₀ none g i := rfl

theorem addImport_of_not_skip (lim : Option Nat) (known : List Str) (g : PGraph Str) (i : ImportRec)
    (h : skipImportEdge lim known i = false) : addImport lim known g i = addImport₀ lim g i := by
  unfold addImport addImport₀
  rw [h]
  rfl

theorem addImport_none_fun (known : List Str) : addImport none known = addImport₀ none := by
  funext g i; rfl

/-- the first stage of `addImport` -/
theorem addImport_nodes_first (lim : Option Nat) (known : List Str) (g : PGraph Str) (i : ImportRec) :
    (if skipImportEdge lim known i then g else createEdge lim g i.importer i.importee false).nodes = g.nodes := by
  split
  · rfl
  · exact createEdge_nodes lim g _ _ false

end BuildGen
end Pta
