/-
  PtaProofs.Lemmas.RenameBuild — graph construction commutes with every injective map `φ` of node names that
  commutes with `get_parent_modules` (namespace `Pta.RM`), and the string renaming `renStr ρ` is such a map.
-/
import Bridge.Abs
import Bridge.Rename
import PtaProofs.Lemmas.Render
import PtaProofs.Lemmas.BuildNames
import PtaProofs.Lemmas.RenameAux
import PtaProofs.Lemmas.RenameModel
namespace Pta.RM
open Pta PtaSpec

/-- image of an import record -/
def mapImp (φ : Str → Str) (i : ImportRec) : ImportRec := ⟨φ i.importer, φ i.importee, i.importeeParents.map φ⟩

section Build
variable (φ : Str → Str) (hφ : ∀ x y, φ x = φ y → x = y)
include hφ

theorem createNode_map (g : PGraph Str) (n : Str) :
    createNode none (mapGraph φ g) (φ n) = mapGraph φ (createNode none g n) := by
  simp only [createNode, flattenNode, hasNode_map φ hφ]
  by_cases h : g.hasNode n = true
  · simp only [h, if_true]
  · simp only [h, Bool.false_eq_true, ↓reduceIte, mapGraph, List.map_append, List.map_cons, List.map_nil]

theorem findEdge_map (g : PGraph Str) (s e : Str) :
    (mapGraph φ g).findEdge (φ s) (φ e) = (g.findEdge s e).map fun x => ⟨φ x.src, φ x.dst, x.inh⟩ := by
  simp only [PGraph.findEdge, mapGraph, List.find?_map, Function.comp_def, beq_inj_d φ hφ]

theorem hasEdge_map (g : PGraph Str) (s e : Str) : (mapGraph φ g).hasEdge (φ s) (φ e) = g.hasEdge s e := by
  simp only [PGraph.hasEdge, findEdge_map φ hφ, Option.isSome_map]

theorem setEdge_map (g : PGraph Str) (s e : Str) (inh : Bool) :
    (mapGraph φ g).setEdge (φ s) (φ e) inh = mapGraph φ (g.setEdge s e inh) := by
  simp only [PGraph.setEdge, hasEdge_map φ hφ]
  by_cases h : g.hasEdge s e = true
  · simp only [h, if_true, mapGraph, List.map_map, Function.comp_def, beq_inj_d φ hφ]
    congr 1
    apply List.map_congr_left
    intro x _
    split <;> rfl
  · simp only [h, Bool.false_eq_true, ↓reduceIte, mapGraph, List.map_append, List.map_cons, List.map_nil]

theorem createEdge_map (g : PGraph Str) (s e : Str) (inh : Bool) :
    createEdge none (mapGraph φ g) (φ s) (φ e) inh = mapGraph φ (createEdge none g s e inh) := by
  simp only [createEdge, flattenNode, beq_inj φ hφ, hasNode_map φ hφ, findEdge_map φ hφ]
  by_cases h1 : (s == e) = true
  · simp only [h1, if_true]
  · by_cases h2 : (g.hasNode s && g.hasNode e) = true
    · simp only [h1, h2, Bool.false_eq_true, ↓reduceIte]
      cases g.findEdge s e with
      | none => simp only [Option.map_none, setEdge_map φ hφ]
      | some x =>
        simp only [Option.map_some]
        by_cases h3 : (x.inh == inh) = true
        · simp only [h3, if_true]
        · simp only [h3, Bool.false_eq_true, ↓reduceIte, setEdge_map φ hφ]
    · simp only [h1, h2, Bool.false_eq_true, ↓reduceIte]

theorem nodeFold_map (ps : List Str) (g : PGraph Str) :
    (ps.map φ).foldl (createNode none) (mapGraph φ g) = mapGraph φ (ps.foldl (createNode none) g) := by
  induction ps generalizing g with
  | nil => rfl
  | cons p ps ih => simp only [List.map_cons, List.foldl_cons, createNode_map φ hφ, ih]

theorem edgeFold_map (inh : Bool) (l : List (Str × Str)) (g : PGraph Str) :
    (l.map fun p => (φ p.1, φ p.2)).foldl (fun g pc => createEdge none g pc.1 pc.2 inh) (mapGraph φ g) =
      mapGraph φ (l.foldl (fun g pc => createEdge none g pc.1 pc.2 inh) g) := by
  induction l generalizing g with
  | nil => rfl
  | cons p ps ih => simp only [List.map_cons, List.foldl_cons, createEdge_map φ hφ, ih]

theorem addHierarchy_map (g : PGraph Str) (ps : List Str) (c : Str) :
    addHierarchy none (mapGraph φ g) (ps.map φ) (φ c) = mapGraph φ (addHierarchy none g ps c) := by
  simp only [addHierarchy, nodeFold_map φ hφ]
  have : ps.map φ ++ [φ c] = (ps ++ [c]).map φ := by simp
  rw [this, BuildNames.consecutive_map, edgeFold_map φ hφ]

theorem addAllModules_map (mods : List Str) (hpm : ∀ m ∈ mods, parentModules (φ m) = (parentModules m).map φ)
    (g : PGraph Str) :
    addAllModules none (mapGraph φ g) (mods.map φ) = mapGraph φ (addAllModules none g mods) := by
  unfold addAllModules
  induction mods generalizing g with
  | nil => rfl
  | cons m ms ih =>
    simp only [List.map_cons, List.foldl_cons]
    rw [createNode_map φ hφ, hpm m (by simp), addHierarchy_map φ hφ]
    exact ih (fun x hx => hpm x (by simp [hx])) _

theorem addImport_map (known known' : List Str) (g : PGraph Str) (i : ImportRec)
    (hp : parentModules (φ i.importer) = (parentModules i.importer).map φ) :
    addImport none known' (mapGraph φ g) (mapImp φ i) = mapGraph φ (addImport none known g i) := by
  simp only [addImport, skipImportEdge, Option.isSome, Bool.false_and, Bool.false_eq_true, if_false,
    mapImp, createEdge_map φ hφ, hp, addHierarchy_map φ hφ]
  have : i.importeeParents.map φ ++ [φ i.importee] = (i.importeeParents ++ [i.importee]).map φ := by simp
  rw [this, BuildNames.consecutive_map, edgeFold_map φ hφ]

theorem importFold_map (known known' : List Str) (imports : List ImportRec)
    (hpi : ∀ i ∈ imports, parentModules (φ i.importer) = (parentModules i.importer).map φ) (g : PGraph Str) :
    (imports.map (mapImp φ)).foldl (addImport none known') (mapGraph φ g) =
      mapGraph φ (imports.foldl (addImport none known) g) := by
  induction imports generalizing g with
  | nil => rfl
  | cons i is ih =>
    simp only [List.map_cons, List.foldl_cons]
    rw [addImport_map φ hφ known known' g i (hpi i (by simp))]
    exact ih (fun x hx => hpi x (by simp [hx])) _

theorem buildGraph_map (mods : List Str) (imports : List ImportRec)
    (hpm : ∀ m ∈ mods, parentModules (φ m) = (parentModules m).map φ)
    (hpi : ∀ i ∈ imports, parentModules (φ i.importer) = (parentModules i.importer).map φ) :
    buildGraph (mods.map φ) (imports.map (mapImp φ)) none = mapGraph φ (buildGraph mods imports none) := by
  unfold buildGraph
  have h0 : addAllModules none PGraph.empty (mods.map φ) = mapGraph φ (addAllModules none PGraph.empty mods) :=
    addAllModules_map φ hφ mods hpm PGraph.empty
  rw [h0, importFold_map φ hφ _ _ imports hpi]

end Build

/-! ### the string renaming `renStr ρ` -/

theorem joinDots_splitDots (s : Str) : joinDots (splitDots s) = s := by
  induction s with
  | nil => rfl
  | cons c cs ih =>
    have hne := splitDots_ne_nil cs
    cases h : splitDots cs with
    | nil => exact absurd h hne
    | cons x t =>
      rw [h] at ih
      simp only [splitDots, h]
      split
      · rename_i hc
        subst hc
        show [] ++ '.' :: joinDots (x :: t) = _
        rw [ih]; rfl
      · cases t with
        | nil =>
          simp only [joinDots] at ih ⊢
          rw [ih]
        | cons y r =>
          simp only [joinDots] at ih ⊢
          rw [← ih]; rfl

theorem renStr_render (ρ : Comp → Comp) (n : Name) (hn : nameWF n = true) :
    renStr ρ (render n) = render (renName ρ n) := by
  simp only [renStr, splitDots_render n hn, hn, if_true]

theorem renStr_inj {ρ : Comp → Comp} (hρ : GoodRen ρ) : ∀ x y, renStr ρ x = renStr ρ y → x = y := by
  have key : ∀ x y, nameWF (splitDots x) = true → nameWF (splitDots y) = false →
      render (renName ρ (splitDots x)) ≠ y := by
    intro x y hx hy h
    rw [← h, splitDots_render _ (Ren.nameWF_ren hρ hx), Ren.nameWF_ren hρ hx] at hy
    cases hy
  intro x y h
  simp only [renStr] at h
  cases hx : nameWF (splitDots x) <;> cases hy : nameWF (splitDots y) <;>
    simp only [hx, hy, if_true, if_false, Bool.false_eq_true] at h
  · exact h
  · exact absurd h.symm (key y x hy hx)
  · exact absurd h (key x y hx hy)
  · have h1 := Ren.renName_inj hρ (render_injective _ _ (Ren.nameWF_ren hρ hx) (Ren.nameWF_ren hρ hy) h)
    rw [← joinDots_splitDots x, ← joinDots_splitDots y, h1]

theorem renStr_strictSub {ρ : Comp → Comp} (hρ : GoodRen ρ) (x y : Name) (hx : nameWF x = true) (hy : nameWF y = true) :
    isStrictSub (renStr ρ (render x)) (renStr ρ (render y)) = isStrictSub (render x) (render y) := by
  rw [renStr_render ρ x hx, renStr_render ρ y hy, isStrictSub_render _ _ (Ren.nameWF_ren hρ hx) (Ren.nameWF_ren hρ hy),
    isStrictSub_render _ _ hx hy, Ren.sdesc_ren hρ]

theorem nameWF_properPrefix {n p : Name} (hn : nameWF n = true) (hp : p ∈ properPrefixes n) : nameWF p = true := by
  obtain ⟨k, h0, _, rfl⟩ := (BuildNames.mem_properPrefixes n p).1 hp
  exact BuildNames.nameWF_take n hn k h0

theorem renStr_parentModules (ρ : Comp → Comp) {hρ : GoodRen ρ} (n : Name) (hn : nameWF n = true) :
    parentModules (renStr ρ (render n)) = (parentModules (render n)).map (renStr ρ) := by
  rw [renStr_render ρ n hn, parentModules_render _ (Ren.nameWF_ren hρ hn), parentModules_render n hn,
    Ren.properPrefixes_ren, List.map_map, List.map_map]
  apply List.map_congr_left
  intro p hp
  exact (renStr_render ρ p (nameWF_properPrefix hn hp)).symm

/-- the graph of the renamed architecture is the image of the original graph -/
theorem archGraph_ren {ρ : Comp → Comp} (hρ : GoodRen ρ) (a : Arch) (hwf : a.wf = true) :
    archGraph (renArch ρ a) = mapGraph (renStr ρ) (archGraph a) := by
  unfold archGraph
  have hn : (renArch ρ a).nodes.map render = (a.nodes.map render).map (renStr ρ) := by
    simp only [renArch, List.map_map]
    apply List.map_congr_left
    intro n hn
    exact (renStr_render ρ n (BuildNames.wf_nodes a hwf n hn)).symm
  have hi : ((renArch ρ a).imports.map fun e => absImport (render e.1) (render e.2)) =
      (a.imports.map fun e => absImport (render e.1) (render e.2)).map (mapImp (renStr ρ)) := by
    simp only [renArch, List.map_map]
    apply List.map_congr_left
    intro e he
    obtain ⟨h1, h2, _⟩ := BuildNames.wf_import a hwf e he
    have w1 := BuildNames.wf_nodes a hwf _ h1
    have w2 := BuildNames.wf_nodes a hwf _ h2
    simp only [Function.comp_def, absImport, mapImp, renStr_render ρ _ w1, renStr_render ρ _ w2]
    rw [← renStr_render ρ _ w2, renStr_parentModules ρ (hρ := hρ) _ w2]
  rw [hn, hi]
  apply buildGraph_map _ (renStr_inj hρ)
  · intro m hm
    obtain ⟨n, hn, rfl⟩ := List.mem_map.1 hm
    exact renStr_parentModules ρ (hρ := hρ) n (BuildNames.wf_nodes a hwf n hn)
  · intro i hi
    obtain ⟨e, he, rfl⟩ := List.mem_map.1 hi
    obtain ⟨h1, _⟩ := BuildNames.wf_import a hwf e he
    exact renStr_parentModules ρ (hρ := hρ) _ (BuildNames.wf_nodes a hwf _ h1)

/-! ### the rule side -/

theorem compileFilter_ren (ρ : Comp → Comp) (f : SFilter) (hf : nameWF f.id = true) :
    compileFilter (renFilter ρ f) = (compileFilter f).mapId (renStr ρ) := by
  cases f with
  | named x => show Filter.name _ = Filter.name _; rw [renStr_render ρ x hf]
  | subOf x => show Filter.parent _ = Filter.parent _; rw [renStr_render ρ x hf]

theorem compileFilters_ren (ρ : Comp → Comp) (fs : List SFilter) (hf : ∀ f ∈ fs, nameWF f.id = true) :
    (fs.map (renFilter ρ)).map compileFilter = (fs.map compileFilter).map (Filter.mapId (renStr ρ)) := by
  simp only [List.map_map]
  apply List.map_congr_left
  intro f h
  exact compileFilter_ren ρ f (hf f h)

theorem ruleWF_iff (r : RuleSpec) :
    ruleWF r = true ↔ (∀ f ∈ r.subjects, nameWF f.id = true) ∧ (r.anything = false → ∀ f ∈ r.objects, nameWF f.id = true) := by
  obtain ⟨verb, dir, exc, subjects, objects, anything⟩ := r
  cases anything
  · simp only [ruleWF, RuleSpec.effObjects, List.all_append, Bool.and_eq_true, List.all_eq_true, Bool.false_eq_true, if_false]
    constructor
    · rintro ⟨h1, h2⟩; exact ⟨h1, fun _ => h2⟩
    · rintro ⟨h1, h2⟩; exact ⟨h1, h2 trivial⟩
  · simp only [ruleWF, RuleSpec.effObjects, List.all_append, Bool.and_eq_true, List.all_eq_true, if_true]
    constructor
    · rintro ⟨h1, _⟩; exact ⟨h1, fun h => by cases h⟩
    · rintro ⟨h1, _⟩; exact ⟨h1, h1⟩

theorem compile_ren (ρ : Comp → Comp) (r : RuleSpec) (hr : ruleWF r = true) :
    compile (renRule ρ r) = (compile r).mapId (renStr ρ) := by
  obtain ⟨hs, ho⟩ := (ruleWF_iff r).1 hr
  obtain ⟨verb, dir, exc, subjects, objects, anything⟩ := r
  simp only at hs ho
  cases anything
  · simp only [compile, renRule, RuleState.mapId, RuleConfig.mapId, Option.map_some, compileFilters_ren ρ _ hs,
      Bool.false_eq_true, if_false, compileFilters_ren ρ _ (ho rfl), List.map_nil]
  · simp only [compile, renRule, RuleState.mapId, RuleConfig.mapId, Option.map_some, compileFilters_ren ρ _ hs,
      if_true, Option.map_none, List.map_nil]

theorem compile_noRegex (r : RuleSpec) : cfgNoRegex (compile r).cfg := by
  constructor
  · intro ss hss f hf
    simp only [compile, Option.some.injEq] at hss
    subst hss
    obtain ⟨f0, _, rfl⟩ := List.mem_map.1 hf
    cases f0 <;> rfl
  · intro os hos f hf
    simp only [compile] at hos
    split at hos
    · cases hos
    · simp only [Option.some.injEq] at hos
      subst hos
      obtain ⟨f0, _, rfl⟩ := List.mem_map.1 hf
      cases f0 <;> rfl

theorem compile_subOK {ρ : Comp → Comp} (hρ : GoodRen ρ) (r : RuleSpec) (hr : ruleWF r = true) :
    cfgSubOK (renStr ρ) (compile r).cfg := by
  obtain ⟨hs, _⟩ := (ruleWF_iff r).1 hr
  intro ss hss f hf f' hf'
  simp only [compile, Option.some.injEq] at hss
  subst hss
  obtain ⟨f0, h0, rfl⟩ := List.mem_map.1 hf
  obtain ⟨f1, h1, rfl⟩ := List.mem_map.1 hf'
  have e0 : (compileFilter f0).id = render f0.id := by cases f0 <;> rfl
  have e1 : (compileFilter f1).id = render f1.id := by cases f1 <;> rfl
  rw [e0, e1]
  exact renStr_strictSub hρ _ _ (hs f0 h0) (hs f1 h1)

/-- Target A, exact form: `assert_applies` on the renamed architecture and rule returns the renamed rule state and the
    renamed verdict (same class, same error kind, report items renamed in place, in the same order) -/
theorem model_report_ren_lemma (mt : Str → Str → Bool) (ρ : Comp → Comp) (hρ : GoodRen ρ) (a : Arch) (hwf : a.wf = true)
    (r : RuleSpec) (hr : ruleWF r = true) :
    assertApplies mt (compile (renRule ρ r)) (archGraph (renArch ρ a)) =
      ((assertApplies mt (compile r) (archGraph a)).1.mapId (renStr ρ),
       (assertApplies mt (compile r) (archGraph a)).2.mapId (renStr ρ)) := by
  rw [compile_ren ρ r hr, archGraph_ren hρ a hwf]
  exact assertApplies_map (renStr ρ) (renStr_inj hρ) mt _ _ (compile_noRegex r) (compile_subOK hρ r hr)

theorem cls_mapId (φ : Str → Str) (v : Verdict) : (v.mapId φ).cls = v.cls := by cases v <;> rfl

theorem model_verdict_ren_all_lemma (mt : Str → Str → Bool) (ρ : Comp → Comp) (hρ : GoodRen ρ) (a : Arch) (hwf : a.wf = true)
    (r : RuleSpec) (hr : ruleWF r = true) :
    verdictOf mt (archGraph (renArch ρ a)) (compile (renRule ρ r)) = verdictOf mt (archGraph a) (compile r) := by
  unfold verdictOf
  rw [model_report_ren_lemma mt ρ hρ a hwf r hr, cls_mapId]

end Pta.RM
