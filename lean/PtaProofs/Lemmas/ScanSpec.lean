/-
  PtaProofs.Lemmas.ScanSpec — `scanParsed` against the specification (property C04, part 1): the walk from
  `module_path` registers exactly the entries the specification's `survives` selects (through `toSEntry`),
  each under its `entryName`, once.
-/
import Bridge.Abs
import Bridge.ScanTree
import PtaProofs.Lemmas.Render
import PtaProofs.Lemmas.ScanWalk
import PtaProofs.Lemmas.ScanNames
import PtaProofs.Lemmas.SemHier
namespace Pta
namespace ScanSpec
open PtaSpec ScanWalk ScanNames

variable (excl : Str → Bool) (base : Str)

theorem isPrefixOf_eq_false_iff {α : Type} [BEq α] [LawfulBEq α] (l m : List α) : l.isPrefixOf m = false ↔ ¬ l <+: m := by
  rw [← List.isPrefixOf_iff_prefix, Bool.not_eq_true]

theorem kind_iff (e : Entry) :
    (e.isDir || (!e.isDir && isPyFile (lastName e))) = true ↔
      (e.isDir = true ∨ ∃ name, e.rel.getLast? = some name ∧ isPyFile name = true) := by
  cases hd : e.isDir
  · simp only [Bool.false_or, Bool.not_false, Bool.true_and, Bool.false_eq_true, false_or, lastName]
    cases hl : e.rel.getLast? with
    | none => simp [isPyFile_nil]
    | some name => simp
  · simp

theorem Survives.congr {mp : List Str} {d d' : Entry} (hr : d.rel = d'.rel) (hd : d.isDir = d'.isDir)
    (h : Survives excl base mp d) : Survives excl base mp d' := by
  unfold Survives at h ⊢
  rw [← hr, ← hd]
  exact h

/-- the specification's `survives` (a Bool on the abstracted tree) is the model-side `Survives` -/
theorem survives_iff {entries : List Entry} (s : Shape entries) (mp : List Str) (e : Entry)
    (he : e ∈ rootEntry :: entries) :
    survives (toSEntries excl base entries) mp (toSEntry excl base e) = true ↔ Survives excl base mp e := by
  unfold survives Survives
  simp only [Bool.and_eq_true, List.isPrefixOf_iff_prefix, List.all_eq_true, toSEntries, List.mem_map]
  show ((mp <+: e.rel ∧ (e.isDir || (!e.isDir && isPyFile (lastName e))) = true) ∧ _) ↔ _
  rw [kind_iff]
  constructor
  · rintro ⟨⟨h1, h2⟩, h3⟩
    refine ⟨h1, h2, ?_⟩
    intro k hk1 hk2
    -- the entry at depth k on the way to e
    have hd : ∃ d ∈ rootEntry :: entries, d.rel = e.rel.take k ∧ (d.isDir = true ∨ d.rel = e.rel) := by
      by_cases hk : k = e.rel.length
      · exact ⟨e, he, by rw [hk, List.take_length], Or.inr rfl⟩
      · by_cases h0 : k = 0
        · exact ⟨rootEntry, List.mem_cons_self, by rw [h0]; rfl, Or.inl rfl⟩
        · have hee : e ∈ entries := by
            rcases List.mem_cons.1 he with rfl | h
            · simp [rootEntry] at hk2; omega
            · exact h
          obtain ⟨c, hc, hcd, hcr⟩ := prefix_closed s _ e hee rfl k (by omega) (by omega)
          exact ⟨c, List.mem_cons_of_mem _ hc, hcr, Or.inl hcd⟩
    obtain ⟨d, hdm, hdr, hdk⟩ := hd
    have := h3 (toSEntry excl base d) ⟨d, hdm, rfl⟩
    simp only [toSEntry, Bool.not_eq_true', Bool.and_eq_false_iff, Bool.or_eq_false_iff, beq_eq_false_iff_ne,
      isPrefixOf_eq_false_iff] at this
    rcases this with ((h | h) | h) | h
    · rw [← hdr]; exact h
    · exact absurd (by rw [hdr]; exact List.take_prefix _ _) h
    · refine absurd ?_ h
      rw [hdr]
      refine List.prefix_of_prefix_length_le h1 (List.take_prefix _ _) ?_
      rw [List.length_take]; omega
    · rcases hdk with h' | h'
      · rw [h'] at h; cases h.1
      · exact absurd h' h.2
  · rintro ⟨h1, h2, h3⟩
    refine ⟨⟨h1, h2⟩, ?_⟩
    rintro x ⟨d, -, rfl⟩
    simp only [toSEntry, Bool.not_eq_true', Bool.and_eq_false_iff, isPrefixOf_eq_false_iff]
    by_cases hp : d.rel <+: e.rel
    · by_cases hm : mp <+: d.rel
      · left; left; left
        have := h3 d.rel.length hm.length_le hp.length_le
        rwa [take_of_prefix hp] at this
      · left; right; exact hm
    · left; left; right; exact hp

/-! ### the walk `scanParsed` starts: from the directory `module_path` with fuel `maxDepth + 2` -/

def startEntry (mp : List Str) : Entry := { rel := mp, isDir := true }

theorem scanParsed_eq (mt : Str → Str → Bool) (root : Str) (mp : List Str) (entries : List Entry) (o : ScanOptions) :
    scanParsed mt base root mp entries o =
      parseWalk (isExcluded mt o.exclusions) base root entries (maxDepth entries + 2) (startEntry mp) := rfl

theorem mpOK_cases {entries : List Entry} {mp : List Str} (h : mpOK entries mp = true) :
    mp = [] ∨ ∃ e' ∈ entries, e'.isDir = true ∧ e'.rel = mp := by
  simp only [mpOK, Bool.or_eq_true, List.isEmpty_iff, List.any_eq_true, Bool.and_eq_true, beq_iff_eq] at h
  rcases h with h | ⟨e', h1, h2, h3⟩
  · exact Or.inl h
  · exact Or.inr ⟨e', h1, h2, h3⟩

theorem start_isNode {entries : List Entry} {mp : List Str} (h : mpOK entries mp = true) :
    IsNode entries (startEntry mp) := by
  right
  refine ⟨rfl, ?_⟩
  rcases mpOK_cases h with h | h
  · exact Or.inl h
  · exact Or.inr h

/-- the start of the walk, as a member of `rootEntry :: entries` -/
theorem start_repr {entries : List Entry} {mp : List Str} (h : mpOK entries mp = true) :
    ∃ e ∈ rootEntry :: entries, e.rel = mp ∧ e.isDir = true := by
  rcases mpOK_cases h with h | ⟨e', h1, h2, h3⟩
  · exact ⟨rootEntry, List.mem_cons_self, h.symm, rfl⟩
  · exact ⟨e', List.mem_cons_of_mem _ h1, h3, h2⟩

section
variable {entries : List Entry} (s : Shape entries) {mp : List Str} (hmp : mpOK entries mp = true)
include s hmp

/-- an entry at `module_path` itself is the directory `module_path` -/
theorem at_mp_isDir (e : Entry) (he : e ∈ rootEntry :: entries) (hr : e.rel = mp) : e.isDir = true := by
  rcases List.mem_cons.1 he with rfl | he'
  · rfl
  · rcases mpOK_cases hmp with h | ⟨e', h1, h2, h3⟩
    · exact absurd (hr.trans h) (s.ne e he')
    · rw [s.inj e he' e' h1 (hr.trans h3.symm)]; exact h2

theorem mem_walk_start (d : Entry) :
    d ∈ walkList excl base entries (maxDepth entries + 2) (startEntry mp) ↔
      (d = startEntry mp ∨ (d ∈ entries ∧ d.rel ≠ mp)) ∧ Survives excl base mp d :=
  mem_walkList excl base s _ _ (start_isNode hmp) (by omega) d

theorem walk_modules (root : Str) (x : Str) :
    x ∈ (walkList excl base entries (maxDepth entries + 2) (startEntry mp)).map (fun d => moduleName root d.rel) ↔
      ∃ e ∈ rootEntry :: entries, Survives excl base mp e ∧ x = moduleName root e.rel := by
  rw [List.mem_map]
  constructor
  · rintro ⟨d, hd, rfl⟩
    obtain ⟨h1, h2⟩ := (mem_walk_start excl base s hmp d).1 hd
    rcases h1 with rfl | ⟨h, -⟩
    · obtain ⟨e, he, hr, hdir⟩ := start_repr hmp
      exact ⟨e, he, Survives.congr excl base hr.symm hdir.symm h2, by rw [hr]; rfl⟩
    · exact ⟨d, List.mem_cons_of_mem _ h, h2, rfl⟩
  · rintro ⟨e, he, hs, rfl⟩
    by_cases hr : e.rel = mp
    · have hdir := at_mp_isDir s hmp e he hr
      refine ⟨startEntry mp, ?_, by rw [hr]; rfl⟩
      exact (mem_walk_start excl base s hmp _).2 ⟨Or.inl rfl, Survives.congr excl base hr hdir hs⟩
    · have hee : e ∈ entries := by
        rcases List.mem_cons.1 he with rfl | h
        · exfalso
          apply hr
          have := hs.1
          simp only [rootEntry, List.prefix_nil] at this
          rw [this]; rfl
        · exact h
      exact ⟨e, (mem_walk_start excl base s hmp e).2 ⟨Or.inr ⟨hee, hr⟩, hs⟩, rfl⟩

theorem walk_files (root : Str) (y : Str × List ImportStmt) :
    y ∈ ((walkList excl base entries (maxDepth entries + 2) (startEntry mp)).filter fun d => !d.isDir).map
        (fun d => (moduleName root d.rel, d.stmts)) ↔
      ∃ e ∈ entries, e.isDir = false ∧ Survives excl base mp e ∧ y = (moduleName root e.rel, e.stmts) := by
  simp only [List.mem_map, List.mem_filter, Bool.not_eq_true']
  constructor
  · rintro ⟨d, ⟨hd, hdir⟩, rfl⟩
    obtain ⟨h1, h2⟩ := (mem_walk_start excl base s hmp d).1 hd
    rcases h1 with rfl | ⟨h, -⟩
    · cases hdir
    · exact ⟨d, h, hdir, h2, rfl⟩
  · rintro ⟨e, he, hdir, hs, rfl⟩
    refine ⟨e, ⟨(mem_walk_start excl base s hmp e).2 ⟨Or.inr ⟨he, ?_⟩, hs⟩, hdir⟩, rfl⟩
    intro hr
    have := at_mp_isDir s hmp e (List.mem_cons_of_mem _ he) hr
    rw [hdir] at this; cases this

/-- the walk registers every module once -/
theorem walk_modules_nodup (nm : Names (Rel excl base mp) entries) (root : Str) (hroot : compWF root = true) :
    ((walkList excl base entries (maxDepth entries + 2) (startEntry mp)).map (fun d => moduleName root d.rel)).Nodup := by
  rw [List.nodup_iff_pairwise_ne, List.pairwise_map]
  refine List.Pairwise.imp_of_mem ?_ (walk_pairwise excl base s.pw _ _)
  intro a b ha hb hne heq
  obtain ⟨a1, a2⟩ := (mem_walk_start excl base s hmp a).1 ha
  obtain ⟨b1, b2⟩ := (mem_walk_start excl base s hmp b).1 hb
  have na : IsNode entries a := by
    rcases a1 with rfl | ⟨h, -⟩
    · exact start_isNode hmp
    · exact Or.inl h
  have nb : IsNode entries b := by
    rcases b1 with rfl | ⟨h, -⟩
    · exact start_isNode hmp
    · exact Or.inl h
  have ka := survives_dirOrPy excl base a2
  have kb := survives_dirOrPy excl base b2
  rw [moduleName_eq, moduleName_eq] at heq
  have ra := Rel.of_survives a2
  have rb := Rel.of_survives b2
  have := render_injective _ _ (relName_wf s nm root hroot a na ka ra) (relName_wf s nm root hroot b nb kb rb) heq
  exact hne (relName_inj s nm root a b na nb ka kb ra rb this)

end

/-! ### `scanParsed` against the specification -/

section
variable (mt : Str → Str → Bool) (root : Str) (mp : List Str) (entries : List Entry) (o : ScanOptions)

theorem scan_modules_lemma (hshape : treeShape entries = true) (hmp : mpOK entries mp = true) (x : Str) :
    x ∈ (scanParsed mt base root mp entries o).allModules ↔
      ∃ e ∈ rootEntry :: entries,
        survives (toSEntries (isExcluded mt o.exclusions) base entries) mp
          (toSEntry (isExcluded mt o.exclusions) base e) = true ∧
        x = render (entryName root (toSEntry (isExcluded mt o.exclusions) base e)) := by
  have s := shape_of entries hshape
  rw [scanParsed_eq, parseWalk_eq]
  simp only []
  rw [walk_modules _ base s hmp root x]
  constructor
  · rintro ⟨e, he, hs, rfl⟩
    exact ⟨e, he, (survives_iff _ base s mp e he).2 hs, by rw [entryName_toSEntry, moduleName_eq]⟩
  · rintro ⟨e, he, hs, rfl⟩
    exact ⟨e, he, (survives_iff _ base s mp e he).1 hs, by rw [entryName_toSEntry, moduleName_eq]⟩

theorem scan_files_lemma (hshape : treeShape entries = true) (hmp : mpOK entries mp = true)
    (y : Str × List ImportStmt) :
    y ∈ (scanParsed mt base root mp entries o).files ↔
      ∃ e ∈ entries, e.isDir = false ∧
        survives (toSEntries (isExcluded mt o.exclusions) base entries) mp
          (toSEntry (isExcluded mt o.exclusions) base e) = true ∧
        y = (render (entryName root (toSEntry (isExcluded mt o.exclusions) base e)), e.stmts) := by
  have s := shape_of entries hshape
  rw [scanParsed_eq, parseWalk_eq]
  simp only []
  rw [walk_files _ base s hmp root y]
  constructor
  · rintro ⟨e, he, hd, hs, rfl⟩
    exact ⟨e, he, hd, (survives_iff _ base s mp e (List.mem_cons_of_mem _ he)).2 hs,
      by rw [entryName_toSEntry, moduleName_eq]⟩
  · rintro ⟨e, he, hd, hs, rfl⟩
    exact ⟨e, he, hd, (survives_iff _ base s mp e (List.mem_cons_of_mem _ he)).1 hs,
      by rw [entryName_toSEntry, moduleName_eq]⟩

theorem scan_modules_nodup_lemma (hwf : treeWFFor (isExcluded mt o.exclusions) base mp entries = true)
    (hmp : mpOK entries mp = true)
    (hroot : compWF root = true) : (scanParsed mt base root mp entries o).allModules.Nodup := by
  simp only [treeWFFor, Bool.and_eq_true] at hwf
  rw [scanParsed_eq, parseWalk_eq]
  exact walk_modules_nodup _ base (shape_of entries hwf.1) hmp (names_of _ base mp entries hwf.2) root hroot

/-- the files are among the modules (same order), hence also without duplicates -/
theorem scan_files_sublist_lemma :
    ((scanParsed mt base root mp entries o).files.map (·.1)).Sublist (scanParsed mt base root mp entries o).allModules := by
  rw [scanParsed_eq, parseWalk_eq]
  simp only [List.map_map]
  exact (List.filter_sublist (l := walkList _ base entries _ _)).map _

/-- names of scanned modules are well-formed -/
theorem scan_modules_wf_lemma (hwf : treeWFFor (isExcluded mt o.exclusions) base mp entries = true)
    (hroot : compWF root = true) (e : Entry)
    (he : e ∈ rootEntry :: entries)
    (hs : survives (toSEntries (isExcluded mt o.exclusions) base entries) mp
      (toSEntry (isExcluded mt o.exclusions) base e) = true) :
    nameWF (entryName root (toSEntry (isExcluded mt o.exclusions) base e)) = true := by
  simp only [treeWFFor, Bool.and_eq_true] at hwf
  have s := shape_of entries hwf.1
  have hS := (survives_iff _ base s mp e he).1 hs
  rw [entryName_toSEntry]
  refine relName_wf s (names_of _ base mp entries hwf.2) root hroot e ?_ (survives_dirOrPy _ base hS)
    (Rel.of_survives hS)
  rcases List.mem_cons.1 he with rfl | h
  · exact Or.inr ⟨rfl, Or.inl rfl⟩
  · exact Or.inl h

end

/-! ### scanning a sub-directory -/

section
variable {R : List Str → Prop} {entries : List Entry} (s : Shape entries) (nm : Names R entries) {mp : List Str}
  (hmp : mpOK entries mp = true)

theorem survives_subscan (hclear : ∀ k, k < mp.length → excl (pathStr base (mp.take k)) = false) (d : Entry) :
    Survives excl base mp d ↔ mp <+: d.rel ∧ Survives excl base [] d := by
  constructor
  · intro h
    exact ⟨h.1, survives_mono excl base (List.nil_prefix) h (fun k _ hk => hclear k hk)⟩
  · rintro ⟨h1, h2⟩
    exact survives_restrict excl base h2 h1 (Nat.zero_le _)

include s nm hmp

/-- the name of the directory `module_path` -/
theorem relName_start (hR : R mp) (root : Str) : relName root (startEntry mp) = root :: mp := by
  rcases mpOK_cases hmp with h | ⟨e', h1, h2, h3⟩
  · subst h; rfl
  · have hne := s.ne e' h1
    have hw := nm.dirWF e' h1 (by rw [h3]; exact hR) h2
    have : relName root (startEntry mp) = relName root e' := relName_congr root (by rw [h3]; rfl)
    rw [this]
    simp only [relName, List.isEmpty_iff, hne, if_false, dropSuffix_compWF _ hw]
    rw [← rel_split e' hne, h3]

omit s nm hmp in
theorem internalPrefix_eq (root : Str) : internalPrefix root mp = render (root :: mp) := by
  unfold internalPrefix
  cases mp with
  | nil => rfl
  | cons x r => rfl

/-- the dotted name lies at or below `module_path`'s name exactly when the path lies at or below `module_path` -/
theorem prefix_relName_iff (root : Str) (e : Entry) (he : e ∈ rootEntry :: entries) (hk : dirOrPy e = true)
    (hR : R e.rel) :
    (root :: mp) <+: relName root e ↔ mp <+: e.rel := by
  rcases List.mem_cons.1 he with rfl | hee
  · simp [relName, rootEntry]
  · have hne := s.ne e hee
    simp only [relName, List.isEmpty_iff, hne, if_false, List.cons_prefix_cons, true_and]
    constructor
    · intro h
      rcases List.prefix_concat_iff.1 h with heq | hp
      · rcases mpOK_cases hmp with h0 | ⟨e', h1, h2, h3⟩
        · rw [h0]; exact List.nil_prefix
        · cases hd : e.isDir with
          | true =>
            rw [heq, dropSuffix_compWF _ (nm.dirWF e hee hR hd), ← rel_split e hne]
            exact List.prefix_refl _
          | false =>
            exfalso
            simp only [dirOrPy, hd, Bool.false_or] at hk
            exact nm.noClash e hee hR hd hk e' h1 h2 (h3.trans heq)
      · exact hp.trans (List.dropLast_prefix _)
    · intro h
      by_cases heq : mp = e.rel
      · have hd : e.isDir = true := at_mp_isDir s hmp e he heq.symm
        rw [dropSuffix_compWF _ (nm.dirWF e hee hR hd), ← rel_split e hne, heq]
        exact List.prefix_refl _
      · have : mp <+: e.rel.dropLast := by
          have hsplit := rel_split e hne
          rw [hsplit] at h
          rcases List.prefix_concat_iff.1 h with h' | h'
          · exact absurd (h'.trans hsplit.symm) heq
          · exact h'
        exact this.trans (List.prefix_append _ _)

end

section
variable (mt : Str → Str → Bool) (root : Str) (mp : List Str) (entries : List Entry) (o : ScanOptions)

/-- C04, sub-directory scans: when no directory strictly between the root and `module_path` is excluded, the modules
    of the sub-scan are the modules of the whole-root scan that lie at or below `module_path`'s dotted name -/
theorem subscan_modules_lemma (hwf0 : treeWFFor (isExcluded mt o.exclusions) base [] entries = true)
    (hwf : treeWFFor (isExcluded mt o.exclusions) base mp entries = true)
    (hmp : mpOK entries mp = true) (hroot : compWF root = true)
    (hclear : ∀ k, k < mp.length → isExcluded mt o.exclusions (pathStr base (mp.take k)) = false) (x : Str) :
    x ∈ (scanParsed mt base root mp entries o).allModules ↔
      x ∈ (scanParsed mt base root [] entries o).allModules ∧ isInternal x (internalPrefix root mp) = true := by
  simp only [treeWFFor, Bool.and_eq_true] at hwf hwf0
  have s := shape_of entries hwf.1
  have nm := names_of _ base mp entries hwf.2
  have nm0 := names_of _ base [] entries hwf0.2
  have h0 : mpOK entries [] = true := rfl
  rw [scanParsed_eq, scanParsed_eq, parseWalk_eq, parseWalk_eq]
  simp only []
  rw [walk_modules _ base s hmp root x, walk_modules _ base s h0 root x]
  have hnode : ∀ e ∈ rootEntry :: entries, IsNode entries e := by
    intro e he
    rcases List.mem_cons.1 he with rfl | h
    · exact Or.inr ⟨rfl, Or.inl rfl⟩
    · exact Or.inl h
  have hwfmp : nameWF (root :: mp) = true := by
    rw [← relName_start s nm hmp (Rel.self _ base mp) root]
    exact relName_wf s nm root hroot _ (start_isNode hmp) rfl (Rel.self _ base mp)
  have key : ∀ e ∈ rootEntry :: entries, Survives (isExcluded mt o.exclusions) base [] e →
      (isInternal (moduleName root e.rel) (internalPrefix root mp) = true ↔ mp <+: e.rel) := by
    intro e he hS
    have hk := survives_dirOrPy _ base hS
    rw [isInternal, internalPrefix_eq root, moduleName_eq,
      isModuleOrSub_render _ _ hwfmp (relName_wf s nm0 root hroot e (hnode e he) hk (Rel.of_survives hS)), desc_iff,
      prefix_relName_iff s nm0 hmp root e he hk (Rel.of_survives hS)]
  constructor
  · rintro ⟨e, he, hS, rfl⟩
    obtain ⟨h1, h2⟩ := (survives_subscan _ base hclear e).1 hS
    exact ⟨⟨e, he, h2, rfl⟩, (key e he h2).2 h1⟩
  · rintro ⟨⟨e, he, hS, rfl⟩, hint⟩
    exact ⟨e, he, (survives_subscan _ base hclear e).2 ⟨(key e he hS).1 hint, hS⟩, rfl⟩

end

end ScanSpec
end Pta
