/-
  PtaProofs.Lemmas.DiagramHist — DiagramRule builder histories (`DiagramRuleOp`, `runDiagramOps`): the builder state
  after any history holds the file supplied last and the base module supplied last, so the run is the one-shot
  `diagramAssert` on what the specification classifier `classifyDiagram` extracts from the history.
-/
import Bridge.Abs
import Bridge.BuilderCalls
namespace Pta.Hist
open PtaSpec

theorem getLast?_filterMap_cons {α β : Type} (f : α → Option β) (c : α) (cs : List α) :
    ((c :: cs).filterMap f).getLast? = ((cs.filterMap f).getLast?).or (f c) := by
  rw [List.filterMap_cons]
  cases hc : f c with
  | none => simp only; cases (cs.filterMap f).getLast? <;> rfl
  | some y =>
    simp only
    cases hl : cs.filterMap f with
    | nil => rfl
    | cons x xs => rw [List.getLast?_cons_cons]; cases h2 : (x :: xs).getLast? with
      | none => simp at h2
      | some z => rfl

theorem lastFile_cons (c : DCall) (cs : List DCall) : lastFile (c :: cs) = (lastFile cs).or c.file? :=
  getLast?_filterMap_cons DCall.file? c cs

theorem lastBase_cons (c : DCall) (cs : List DCall) : lastBase (c :: cs) = (lastBase cs).or c.base? :=
  getLast?_filterMap_cons DCall.base? c cs

theorem foldl_state (ops : List DiagramRuleOp) (s : DiagramRuleState) :
    (ops.foldl DiagramRuleState.step s).file = (lastFile (ops.map toDCall)).or s.file ∧
    (ops.foldl DiagramRuleState.step s).base = (lastBase (ops.map toDCall)).or s.base ∧
    (ops.foldl DiagramRuleState.step s).shouldOnly = s.shouldOnly := by
  induction ops generalizing s with
  | nil => exact ⟨rfl, rfl, rfl⟩
  | cons op rest ih =>
    obtain ⟨h1, h2, h3⟩ := ih (s.step op)
    rw [List.foldl_cons, List.map_cons, lastFile_cons, lastBase_cons, h1, h2, h3]
    cases op <;> simp only [DiagramRuleState.step, toDCall, DCall.file?, DCall.base?] <;>
      refine ⟨?_, ?_, trivial⟩ <;>
      first
        | rfl
        | (cases lastFile (rest.map toDCall) <;> rfl)
        | (cases lastBase (rest.map toDCall) <;> rfl)

/-- the state after a history -/
theorem state_after (only : Bool) (ops : List DiagramRuleOp) :
    (diagramRuleStateAfter only ops).file = lastFile (ops.map toDCall) ∧
    (diagramRuleStateAfter only ops).base = lastBase (ops.map toDCall) ∧
    (diagramRuleStateAfter only ops).shouldOnly = only := by
  obtain ⟨h1, h2, h3⟩ := foldl_state ops { shouldOnly := only }
  unfold diagramRuleStateAfter
  refine ⟨?_, ?_, h3⟩
  · rw [h1]; cases lastFile (ops.map toDCall) <;> rfl
  · rw [h2]; cases lastBase (ops.map toDCall) <;> rfl

theorem lastFile_none_iff (cs : List DCall) : lastFile cs = none ↔ ∀ c ∈ cs, c.file? = none := by
  unfold lastFile
  rw [List.getLast?_eq_none_iff, List.filterMap_eq_nil_iff]

/-- explicit form of "supplied last": the file of the last `fromFile` call -/
theorem lastFile_split (pre post : List DCall) (f : List Char) (h : ∀ c ∈ post, c.file? = none) :
    lastFile (pre ++ .fromFile f :: post) = some f := by
  unfold lastFile
  have : post.filterMap DCall.file? = [] := List.filterMap_eq_nil_iff.mpr h
  rw [List.filterMap_append, List.filterMap_cons]
  simp [DCall.file?, this]

theorem lastBase_none_iff (cs : List DCall) : lastBase cs = none ↔ ∀ c ∈ cs, c.base? = none := by
  unfold lastBase
  rw [List.getLast?_eq_none_iff, List.filterMap_eq_nil_iff]

theorem lastBase_split (pre post : List DCall) (p : List Char) (h : ∀ c ∈ post, c.base? = none) :
    lastBase (pre ++ .withBase p :: post) = some p := by
  unfold lastBase
  have : post.filterMap DCall.base? = [] := List.filterMap_eq_nil_iff.mpr h
  rw [List.filterMap_append, List.filterMap_cons]
  simp [DCall.base?, this]

theorem runDiagramOps_eq (only : Bool) (ops : List DiagramRuleOp) (mt : Str → Str → Bool) (g : PGraph Str) :
    runDiagramOps only ops mt g = diagramAssert mt (lastFile (ops.map toDCall)) (lastBase (ops.map toDCall)) only g := by
  obtain ⟨h1, h2, h3⟩ := state_after only ops
  unfold runDiagramOps DiagramRuleState.assertApplies
  rw [h1, h2, h3]

theorem diagram_history_raises_lemma (only : Bool) (ops : List DiagramRuleOp) (mt : Str → Str → Bool) (g : PGraph Str)
    (h : classifyDiagram (ops.map toDCall) = .incomplete) :
    runDiagramOps only ops mt g = .err .improperlyConfigured := by
  rw [runDiagramOps_eq]
  unfold classifyDiagram at h
  cases hf : lastFile (ops.map toDCall) with
  | none => rfl
  | some f => rw [hf] at h; cases h

theorem diagram_history_complete_lemma (only : Bool) (ops : List DiagramRuleOp) (mt : Str → Str → Bool) (g : PGraph Str)
    (f : Str) (b : Option Str) (h : classifyDiagram (ops.map toDCall) = .complete f b) :
    runDiagramOps only ops mt g = diagramAssert mt (some f) b only g := by
  rw [runDiagramOps_eq]
  unfold classifyDiagram at h
  cases hf : lastFile (ops.map toDCall) with
  | none => rw [hf] at h; cases h
  | some f' =>
    rw [hf] at h
    simp only [DClass.complete.injEq] at h
    rw [h.1, h.2]

theorem classify_incomplete_iff (ops : List DiagramRuleOp) :
    classifyDiagram (ops.map toDCall) = .incomplete ↔ ∀ c, DiagramRuleOp.fromFile c ∉ ops := by
  unfold classifyDiagram
  constructor
  · intro h c hc
    cases hf : lastFile (ops.map toDCall) with
    | some f => rw [hf] at h; cases h
    | none =>
      have := (lastFile_none_iff _).mp hf (toDCall (.fromFile c)) (List.mem_map_of_mem hc)
      simp [toDCall, DCall.file?] at this
  · intro h
    have : lastFile (ops.map toDCall) = none := by
      rw [lastFile_none_iff]
      intro c hc
      obtain ⟨op, hop, rfl⟩ := List.mem_map.mp hc
      cases op with
      | fromFile c => exact absurd hop (h c)
      | withBaseModule p => rfl
      | baseModuleIncluded => rfl
    rw [this]

end Pta.Hist
