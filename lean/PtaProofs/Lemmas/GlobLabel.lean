/-
  PtaProofs.Lemmas.GlobLabel — lemmas behind Props/C08.lean (glob conversion) and Props/C17.lean (plot labels).
-/
import Bridge.Abs
import PtaProofs.Lemmas.Render
namespace Pta
open PtaSpec

/-! ## Glob conversion -/

theorem reSpecial_backslash : reSpecial '\\' = true := by decide
theorem reSpecial_dot : reSpecial '.' = true := by decide

theorem unescape_special (c : Char) (cs : Str) (h : reSpecial c = true) :
    unescape ('\\' :: c :: cs) = (unescape cs).map (c :: ·) := by
  rw [unescape]; simp [h]

theorem unescape_plain (c : Char) (cs : Str) (h : reSpecial c = false) :
    unescape (c :: cs) = (unescape cs).map (c :: ·) := by
  have hc : c ≠ '\\' := by
    rintro rfl
    rw [reSpecial_backslash] at h
    cases h
  rw [unescape]
  · simp [h]
  · intro c' cs' heq _
    exact hc heq

theorem unescape_escape_lemma (s : Str) : unescape (reEscape s) = some s := by
  induction s with
  | nil => simp [reEscape, unescape]
  | cons c cs ih =>
    cases h : reSpecial c with
    | true => simp [reEscape, h, unescape_special c _ h, ih]
    | false => simp [reEscape, h, unescape_plain c _ h, ih]

/-- the tail reader of `parseEmitted`, once the optional leading `.*` has been consumed -/
def parseTail (anyStart : Bool) (rest : Str) : Option Emitted :=
  match rest.reverse with
  | '*' :: '.' :: body => (unescape body.reverse).map fun lit => ⟨anyStart, lit, true⟩
  | '$' :: body => (unescape body.reverse).map fun lit => ⟨anyStart, lit, false⟩
  | _ => none

theorem parseEmitted_dotstar (r : Str) : parseEmitted ('.' :: '*' :: r) = parseTail true r := rfl

theorem parseEmitted_plain (r : Str) (h : ∀ r', r ≠ '.' :: '*' :: r') :
    parseEmitted r = parseTail false r := by
  unfold parseEmitted
  split
  · rename_i p r' heq
    split at heq
    · rename_i r''
      exact absurd rfl (h r'')
    · cases heq
      rfl

theorem parseTail_dotstar (b : Bool) (e : Str) :
    parseTail b (e ++ ['.', '*']) = (unescape e).map fun lit => ⟨b, lit, true⟩ := by
  simp [parseTail]

theorem parseTail_dollar (b : Bool) (e : Str) :
    parseTail b (e ++ ['$']) = (unescape e).map fun lit => ⟨b, lit, false⟩ := by
  simp [parseTail]

/-- an escaped non-empty literal never starts with an unescaped dot -/
theorem reEscape_cons_head (c : Char) (cs : Str) :
    ∃ d r, reEscape (c :: cs) = d :: r ∧ d ≠ '.' := by
  cases h : reSpecial c with
  | true => exact ⟨'\\', c :: reEscape cs, by simp [reEscape, h], by decide⟩
  | false =>
    refine ⟨c, reEscape cs, by simp [reEscape, h], ?_⟩
    rintro rfl
    rw [reSpecial_dot] at h
    cases h

theorem reEscape_append_not_dotstar (s suffix : Str) (h : s ≠ [] ∨ suffix = ['$']) :
    ∀ r', reEscape s ++ suffix ≠ '.' :: '*' :: r' := by
  intro r' heq
  cases s with
  | nil =>
    rcases h with h | h
    · exact h rfl
    · subst h
      have heq' : ['$'] = '.' :: '*' :: r' := heq
      injection heq' with h1 _
      exact absurd h1 (by decide)
  | cons c cs =>
    obtain ⟨d, r, hd, hne⟩ := reEscape_cons_head c cs
    rw [hd] at heq
    simp only [List.cons_append] at heq
    injection heq with h1 _
    exact hne h1

theorem startsWith_star (p : Str) : startsWith ['*'] p = true ↔ ∃ q, p = '*' :: q := by
  cases p with
  | nil => simp [startsWith]
  | cons c q =>
    simp only [startsWith, Bool.and_true, beq_iff_eq]
    constructor
    · rintro rfl; exact ⟨q, rfl⟩
    · rintro ⟨q', h⟩; injection h with h1 _; exact h1.symm

theorem endsWith_star (p : Str) : endsWith ['*'] p = true ↔ ∃ q, p = q ++ ['*'] := by
  unfold endsWith
  rw [List.reverse_singleton, startsWith_star]
  constructor
  · rintro ⟨q, hq⟩
    exact ⟨q.reverse, by rw [← List.reverse_reverse p, hq]; simp⟩
  · rintro ⟨q, rfl⟩
    exact ⟨q.reverse, by simp⟩

theorem pySlice_zero_length (p : Str) : pySlice p 0 p.length = p := by
  simp [pySlice]

/-- without a leading star, a trailing star leaves a non-empty literal -/
theorem inner_ne_nil_of_end_only (p : Str) (h1 : startsWith ['*'] p = false) (h2 : endsWith ['*'] p = true) :
    pySlice p 0 (p.length - 1) ≠ [] := by
  obtain ⟨q, rfl⟩ := (endsWith_star p).1 h2
  cases q with
  | nil => simp [startsWith] at h1
  | cons c q => simp [pySlice]

theorem convert_shape_lemma (p : Str) :
    parseEmitted (convertPartialMatch p) =
      some ⟨startsWith ['*'] p,
            pySlice p (if startsWith ['*'] p then 1 else 0) (if endsWith ['*'] p then p.length - 1 else p.length),
            endsWith ['*'] p⟩ := by
  unfold convertPartialMatch
  cases h1 : startsWith ['*'] p <;> cases h2 : endsWith ['*'] p
  · -- no star at all
    simp only [Bool.false_eq_true, if_false]
    rw [parseEmitted_plain _ (reEscape_append_not_dotstar _ _ (Or.inr rfl)), parseTail_dollar,
      unescape_escape_lemma]
    rfl
  · -- trailing star only
    simp only [Bool.false_eq_true, if_false, if_true]
    rw [parseEmitted_plain _ (reEscape_append_not_dotstar _ _ (Or.inl (inner_ne_nil_of_end_only p h1 h2))),
      parseTail_dotstar, unescape_escape_lemma]
    rfl
  · -- leading star only
    simp only [Bool.false_eq_true, if_false, if_true]
    rw [List.cons_append, List.cons_append, parseEmitted_dotstar, parseTail_dollar, unescape_escape_lemma]
    rfl
  · simp only [if_true]
    rw [List.cons_append, List.cons_append, parseEmitted_dotstar, parseTail_dotstar, unescape_escape_lemma]
    rfl

theorem glob_spec_lemma (p s : Str) : matchEmitted (convertPartialMatch p) s = some (globSpec p s) := by
  unfold matchEmitted
  rw [convert_shape_lemma, Option.map_some]
  rfl

theorem literal_pattern_lemma (p s : Str) (h1 : startsWith ['*'] p = false) (h2 : endsWith ['*'] p = false) :
    matchEmitted (convertPartialMatch p) s = some (s == p) := by
  rw [glob_spec_lemma]
  unfold globSpec
  simp only [h1, h2, Bool.false_eq_true, if_false, pySlice_zero_length]

/-! ## Insertion sort facts -/

theorem mem_insertBy {α : Type} (le : α → α → Bool) (x z : α) (l : List α) :
    z ∈ insertBy le x l ↔ z = x ∨ z ∈ l := by
  induction l with
  | nil => simp [insertBy]
  | cons y ys ih =>
    unfold insertBy
    split
    · simp
    · simp only [List.mem_cons, ih]
      constructor
      · rintro (h | h | h)
        · exact Or.inr (Or.inl h)
        · exact Or.inl h
        · exact Or.inr (Or.inr h)
      · rintro (h | h | h)
        · exact Or.inr (Or.inl h)
        · exact Or.inl h
        · exact Or.inr (Or.inr h)

theorem mem_sortBy {α : Type} (le : α → α → Bool) (z : α) (l : List α) : z ∈ sortBy le l ↔ z ∈ l := by
  induction l with
  | nil => simp [sortBy]
  | cons x xs ih => simp [sortBy, mem_insertBy, ih]

theorem pairwise_insertBy {α : Type} (le : α → α → Bool)
    (htot : ∀ a b, le a b = false → le b a = true)
    (htrans : ∀ a b c, le a b = true → le b c = true → le a c = true)
    (x : α) (l : List α) (h : l.Pairwise fun a b => le a b = true) :
    (insertBy le x l).Pairwise fun a b => le a b = true := by
  induction l with
  | nil => simp [insertBy]
  | cons y ys ih =>
    rw [List.pairwise_cons] at h
    unfold insertBy
    split
    · rename_i hxy
      rw [List.pairwise_cons]
      refine ⟨?_, List.pairwise_cons.2 h⟩
      intro z hz
      rcases List.mem_cons.1 hz with rfl | hz
      · exact hxy
      · exact htrans _ _ _ hxy (h.1 z hz)
    · rename_i hxy
      rw [List.pairwise_cons]
      refine ⟨?_, ih h.2⟩
      intro z hz
      rcases (mem_insertBy le x z ys).1 hz with rfl | hz
      · exact htot _ _ (by simpa using hxy)
      · exact h.1 z hz

theorem pairwise_sortBy {α : Type} (le : α → α → Bool)
    (htot : ∀ a b, le a b = false → le b a = true)
    (htrans : ∀ a b c, le a b = true → le b c = true → le a c = true)
    (l : List α) : (sortBy le l).Pairwise fun a b => le a b = true := by
  induction l with
  | nil => simp [sortBy]
  | cons x xs ih => exact pairwise_insertBy le htot htrans x _ ih

theorem mem_sortByLenDesc (z : Str) (l : List Str) : z ∈ sortByLenDesc l ↔ z ∈ l :=
  mem_sortBy _ z l

theorem pairwise_sortByLenDesc (l : List Str) :
    (sortByLenDesc l).Pairwise fun a b => a.length ≥ b.length := by
  have := pairwise_sortBy (fun a b : Str => decide (a.length ≥ b.length))
    (by intro a b h; simp at h ⊢; omega)
    (by intro a b c h1 h2; simp at h1 h2 ⊢; omega) l
  simpa [sortByLenDesc] using this

/-- in a list sorted by decreasing length, `find?` returns the strictly longest element with the property -/
theorem find?_sorted_max (P : Str → Bool) (x : Str) (l : List Str)
    (hs : l.Pairwise fun a b => a.length ≥ b.length) (hx : x ∈ l) (hP : P x = true)
    (hmax : ∀ y ∈ l, P y = true → y = x ∨ y.length < x.length) :
    l.find? P = some x := by
  induction l with
  | nil => cases hx
  | cons a l ih =>
    rw [List.pairwise_cons] at hs
    cases hPa : P a with
    | true =>
      simp only [List.find?_cons, hPa]
      rcases hmax a (by simp) hPa with h | h
      · rw [h]
      · rcases List.mem_cons.1 hx with rfl | hx'
        · omega
        · have := hs.1 x hx'
          omega
    | false =>
      simp only [List.find?_cons, hPa]
      rcases List.mem_cons.1 hx with rfl | hx'
      · rw [hP] at hPa; cases hPa
      · exact ih hs.2 hx' (fun y hy => hmax y (List.mem_cons_of_mem _ hy))

/-! ## Plot labels -/

/-- the step function of `nearestAliased` -/
def nearestStep (best : Option (Name × List Char)) (a : Name × List Char) : Option (Name × List Char) :=
  match best with
  | none => some a
  | some b => if a.1.length > b.1.length then some a else some b

theorem nearestAliased_eq (al : Aliases) (n : Name) :
    nearestAliased al n = (al.filter fun a => desc a.1 n).foldl nearestStep none := rfl

theorem nearest_fold_some (F : List (Name × List Char)) (b0 : Name × List Char) :
    ∃ b, F.foldl nearestStep (some b0) = some b ∧ (b = b0 ∨ b ∈ F) ∧
      (∀ a ∈ F, a.1.length ≤ b.1.length) ∧ b0.1.length ≤ b.1.length := by
  induction F generalizing b0 with
  | nil => exact ⟨b0, rfl, Or.inl rfl, by simp, Nat.le_refl _⟩
  | cons a F ih =>
    simp only [List.foldl_cons, nearestStep]
    split
    · rename_i hgt
      obtain ⟨b, hb, hmem, hall, hle⟩ := ih a
      refine ⟨b, hb, ?_, ?_, by omega⟩
      · rcases hmem with rfl | h
        · exact Or.inr (by simp)
        · exact Or.inr (List.mem_cons_of_mem _ h)
      · intro a' ha'
        rcases List.mem_cons.1 ha' with rfl | h
        · exact hle
        · exact hall a' h
    · rename_i hgt
      obtain ⟨b, hb, hmem, hall, hle⟩ := ih b0
      refine ⟨b, hb, ?_, ?_, hle⟩
      · rcases hmem with rfl | h
        · exact Or.inl rfl
        · exact Or.inr (List.mem_cons_of_mem _ h)
      · intro a' ha'
        rcases List.mem_cons.1 ha' with rfl | h
        · omega
        · exact hall a' h

/-- characterisation of `nearestAliased` -/
theorem nearestAliased_spec (al : Aliases) (n : Name) :
    (nearestAliased al n = none ∧ ∀ a ∈ al, desc a.1 n = false) ∨
    (∃ b, nearestAliased al n = some b ∧ b ∈ al ∧ desc b.1 n = true ∧
      ∀ a ∈ al, desc a.1 n = true → a.1.length ≤ b.1.length) := by
  rw [nearestAliased_eq]
  cases hF : al.filter (fun a => desc a.1 n) with
  | nil =>
    left
    refine ⟨rfl, ?_⟩
    intro a ha
    have := List.filter_eq_nil_iff.1 hF a ha
    simpa using this
  | cons a F =>
    right
    obtain ⟨b, hb, hmem, hall, hle⟩ := nearest_fold_some F a
    have hbF : b ∈ al.filter (fun a => desc a.1 n) := by
      rw [hF]
      rcases hmem with rfl | h
      · simp
      · exact List.mem_cons_of_mem _ h
    rw [List.mem_filter] at hbF
    refine ⟨b, by simpa [nearestStep] using hb, hbF.1, hbF.2, ?_⟩
    intro a' ha' hd
    have : a' ∈ a :: F := by rw [← hF, List.mem_filter]; exact ⟨ha', hd⟩
    rcases List.mem_cons.1 this with rfl | h
    · exact hle
    · exact hall a' h

/-- looking up the rendered key in the rendered alias list finds the alias text -/
theorem find_alias_render (al : Aliases) (m : Name) (alias : List Char)
    (hwf : ∀ a ∈ al, nameWF a.1 = true) (hk : (al.map (·.1)).Nodup) (hm : (m, alias) ∈ al) :
    (al.map fun a => (render a.1, a.2)).find? (·.1 == render m) = some (render m, alias) := by
  induction al with
  | nil => cases hm
  | cons a al ih =>
    have hmwf : nameWF m = true := hwf (m, alias) hm
    rw [List.map_cons, List.nodup_cons] at hk
    rw [List.map_cons]
    by_cases hr : render a.1 = render m
    · have ham : a.1 = m := render_injective _ _ (hwf a (by simp)) hmwf hr
      have hb : ((render a.1, a.2).1 == render m) = true := by simpa using hr
      simp only [List.find?_cons, hb]
      rcases List.mem_cons.1 hm with h | h
      · rw [← h]
      · exfalso
        apply hk.1
        rw [ham]
        exact List.mem_map.2 ⟨(m, alias), h, rfl⟩
    · have hb : ((render a.1, a.2).1 == render m) = false := by simpa using hr
      simp only [List.find?_cons, hb]
      rcases List.mem_cons.1 hm with h | h
      · exfalso; apply hr; rw [← h]
      · exact ih (fun a' ha' => hwf a' (List.mem_cons_of_mem _ ha')) hk.2 h

/-- one label: the code's `_create_label` on rendered data is the documented label -/
theorem createLabel_render (al : Aliases) (n : Name)
    (hwf : ∀ a ∈ al, nameWF a.1 = true) (hk : (al.map (·.1)).Nodup) (hn : nameWF n = true) :
    createLabel (sortByLenDesc ((al.map fun a => (render a.1, a.2)).map (·.1)))
      (al.map fun a => (render a.1, a.2)) (render n) = PtaSpec.label al n := by
  have hkeys : (al.map fun a => (render a.1, a.2)).map (·.1) = al.map fun a => render a.1 := by
    simp [List.map_map, Function.comp_def]
  rw [hkeys]
  have hmemS : ∀ y, y ∈ sortByLenDesc (al.map fun a => render a.1) ↔ ∃ a ∈ al, render a.1 = y := by
    intro y
    rw [mem_sortByLenDesc, List.mem_map]
  unfold createLabel PtaSpec.label
  rcases nearestAliased_spec al n with ⟨hnone, hall⟩ | ⟨⟨m, alias⟩, hsome, hmem, hdesc, hmax⟩
  · -- no aliased ancestor
    have hfind : (sortByLenDesc (al.map fun a => render a.1)).find? (fun m => isModuleOrSub m (render n)) = none := by
      rw [List.find?_eq_none]
      intro y hy
      obtain ⟨a, ha, rfl⟩ := (hmemS y).1 hy
      rw [isModuleOrSub_render _ _ (hwf a ha) hn, hall a ha]
      simp
    rw [hfind, hnone]
    exact (joinDotsS_eq n).symm
  · -- nearest aliased ancestor `m`
    have hmwf : nameWF m = true := hwf _ hmem
    have hdesc' : m <+: n := List.isPrefixOf_iff_prefix.1 hdesc
    have hfind : (sortByLenDesc (al.map fun a => render a.1)).find? (fun m => isModuleOrSub m (render n))
        = some (render m) := by
      apply find?_sorted_max _ _ _ (pairwise_sortByLenDesc _)
      · exact (hmemS _).2 ⟨(m, alias), hmem, rfl⟩
      · rw [isModuleOrSub_render _ _ hmwf hn]; exact hdesc
      · intro y hy hPy
        obtain ⟨a, ha, rfl⟩ := (hmemS y).1 hy
        rw [isModuleOrSub_render _ _ (hwf a ha) hn] at hPy
        have hle := hmax a ha hPy
        have hpre : a.1 <+: m :=
          List.prefix_of_prefix_length_le (List.isPrefixOf_iff_prefix.1 hPy) hdesc' hle
        obtain ⟨t, ht⟩ := hpre
        cases t with
        | nil => left; rw [← ht]; simp
        | cons c t =>
          right
          rw [← ht]
          exact render_length_lt a.1 (c :: t) (nameWF_ne_nil (hwf a ha)) (by simp)
    rw [hfind, hsome]
    simp only [find_alias_render al m alias hwf hk hmem]
    obtain ⟨rest, hrest⟩ := hdesc'
    have hdrop : n.drop m.length = rest := by rw [← hrest, List.drop_left]
    rw [hdrop]
    cases rest with
    | nil =>
      have : n = m := by rw [← hrest]; simp
      subst this
      simp
    | cons c t =>
      rw [← hrest, drop_render_prefix m (c :: t) (nameWF_ne_nil hmwf) (by simp), joinDotsS_eq]
      simp [render]

theorem labels_spec_lemma (nodes : List Name) (al : Aliases)
    (hn : ∀ n ∈ nodes, nameWF n = true) (hk : (al.map (·.1)).Nodup) (hex : ∀ a ∈ al, a.1 ∈ nodes) :
    plotLabels (nodes.map render) (al.map fun a => (render a.1, a.2)) =
      .ok (nodes.map fun n => (render n, PtaSpec.label al n)) := by
  have hwf : ∀ a ∈ al, nameWF a.1 = true := fun a ha => hn _ (hex a ha)
  have hfind : (al.map fun a => (render a.1, a.2)).find? (fun a => !(nodes.map render).contains a.1) = none := by
    rw [List.find?_eq_none]
    intro y hy
    obtain ⟨a, ha, rfl⟩ := List.mem_map.1 hy
    have : (nodes.map render).contains (render a.1) = true :=
      List.contains_iff_mem.2 (List.mem_map.2 ⟨a.1, hex a ha, rfl⟩)
    show ¬ ((!(nodes.map render).contains (render a.1)) = true)
    rw [this]
    decide
  unfold plotLabels
  rw [hfind]
  have hmm : ∀ f : Str → Str × Str, (nodes.map render).map f = nodes.map (f ∘ render) :=
    fun f => List.map_map
  simp only [hmm]
  congr 1
  apply List.map_congr_left
  intro n hnn
  simp only [Function.comp_def]
  rw [createLabel_render al n hwf hk (hn n hnn)]

theorem labels_cover_lemma (nodes : List Str) (aliases : List (Str × Str)) (ls : List (Str × Str))
    (h : plotLabels nodes aliases = .ok ls) : ls.map (·.1) = nodes := by
  unfold plotLabels at h
  split at h
  · cases h
  · injection h with h
    rw [← h]
    simp [List.map_map, Function.comp_def]

theorem unknown_alias_lemma (nodes : List Str) (aliases : List (Str × Str)) (h : ∃ a ∈ aliases, a.1 ∉ nodes) :
    ∃ who, plotLabels nodes aliases = .error (.lookupError, who) ∧ who ∉ nodes ∧ who ∈ aliases.map (·.1) := by
  unfold plotLabels
  cases hf : aliases.find? (fun a => !nodes.contains a.1) with
  | none =>
    exfalso
    obtain ⟨a, ha, hna⟩ := h
    have := List.find?_eq_none.1 hf a ha
    simp at this
    exact hna this
  | some a =>
    refine ⟨a.1, rfl, ?_, List.mem_map.2 ⟨a, List.mem_of_find?_eq_some hf, rfl⟩⟩
    have := List.find?_some hf
    simpa using this

theorem kwargs_passthrough_lemma (kw : List KwArg) (k v : Str) :
    (KwArg.other k v ∈ drawKwargs kw ↔ KwArg.other k v ∈ kw) ∧ KwArg.spacing ∉ drawKwargs kw ∧ KwArg.aliases ∉ drawKwargs kw ∧
    (KwArg.spacing ∈ kw → KwArg.pos ∈ drawKwargs kw) ∧ (KwArg.aliases ∈ kw → KwArg.labels ∈ drawKwargs kw) := by
  unfold drawKwargs
  by_cases h1 : KwArg.spacing ∈ kw <;> by_cases h2 : KwArg.aliases ∈ kw <;>
    simp [h1, h2, List.mem_filter]

end Pta
