/-
  PtaProofs.Lemmas.DroppedAbsent — the repair of F-C13b: `_convert_aliases` remembers the subjects it removes
  (`droppedSubjects`, field `dropped`) and `_assert_modules_removed_by_alias_conversion_exist` (`droppedAbsent`) looks
  them up. Characterisations and the cases in which the check is vacuous.
-/
import PtaModel
namespace Pta

/-- a subject is dropped by the de-duplication iff it is a dotted sub module of another subject that is not a
    'sub modules of' filter (repair of F-C12a) -/
theorem contains_dedupSubjects (ss : List Filter) (f : Filter) (hf : f ∈ ss) :
    (dedupSubjects ss).contains f = !(ss.any fun o => !o.isParent && isStrictSub o.id f.id) := by
  rw [Bool.eq_iff_iff]
  simp only [List.contains_iff_mem, dedupSubjects, List.mem_filter, hf, true_and]

theorem mem_dedupSubjects (ss : List Filter) (f : Filter) :
    f ∈ dedupSubjects ss ↔ f ∈ ss ∧ ∀ o ∈ ss, (!o.isParent && isStrictSub o.id f.id) = false := by
  simp only [dedupSubjects, List.mem_filter, Bool.not_eq_true', List.any_eq_false, Bool.not_eq_true]

theorem any_congr_mem {α : Type} (l : List α) (p q : α → Bool) (h : ∀ x ∈ l, p x = q x) : l.any p = l.any q := by
  induction l with
  | nil => rfl
  | cons a l ih =>
    simp only [List.any_cons, h a (List.mem_cons_self ..), ih fun x hx => h x (List.mem_cons_of_mem _ hx)]

theorem mem_droppedSubjects (ss : List Filter) (f : Filter) :
    f ∈ droppedSubjects ss ↔ f ∈ ss ∧ f ∉ dedupSubjects ss := by
  simp only [droppedSubjects, List.mem_filter, Bool.not_eq_true', List.contains_eq_mem, decide_eq_false_iff_not]

theorem mem_droppedSubjects' (ss : List Filter) (f : Filter) :
    f ∈ droppedSubjects ss ↔ f ∈ ss ∧ ∃ o ∈ ss, (!o.isParent && isStrictSub o.id f.id) = true := by
  rw [mem_droppedSubjects, mem_dedupSubjects]
  constructor
  · rintro ⟨hf, hn⟩
    refine ⟨hf, ?_⟩
    apply Classical.byContradiction
    intro hne
    apply hn
    refine ⟨hf, fun o ho => ?_⟩
    cases h : (!o.isParent && isStrictSub o.id f.id)
    · rfl
    · exact absurd ⟨o, ho, h⟩ hne
  · rintro ⟨hf, o, ho, h⟩
    refine ⟨hf, fun hm => ?_⟩
    have := hm.2 o ho
    rw [h] at this; cases this

/-- the dropped subjects as a filter on the identifiers -/
theorem droppedSubjects_eq (ss : List Filter) :
    droppedSubjects ss = ss.filter fun f => ss.any fun o => !o.isParent && isStrictSub o.id f.id := by
  unfold droppedSubjects
  apply List.filter_congr
  intro f hf
  rw [contains_dedupSubjects ss f hf, Bool.not_not]

/-- nothing is dropped -/
theorem droppedSubjects_of_dedup_eq (ss : List Filter) (h : dedupSubjects ss = ss) : droppedSubjects ss = [] := by
  rw [List.eq_nil_iff_forall_not_mem]
  intro f hf
  rw [mem_droppedSubjects, h] at hf
  exact hf.2 hf.1

/-! ### `convertAliases` and the `dropped` field -/

theorem convertAliases_not_anything (c : RuleConfig) (ha : c.anything = false) : convertAliases c = c := by
  unfold convertAliases; simp [ha]

theorem convertAliases_anything (c : RuleConfig) : (convertAliases c).anything = false := by
  unfold convertAliases
  cases h : c.anything <;> simp [h]

theorem convertAliases_idem (c : RuleConfig) : convertAliases (convertAliases c) = convertAliases c :=
  convertAliases_not_anything _ (convertAliases_anything c)

theorem convertAliases_dropped (c : RuleConfig) (ss : List Filter) (ha : c.anything = true) (hs : c.subjects = some ss) :
    (convertAliases c).dropped = droppedSubjects ss := by
  unfold convertAliases; simp [ha, hs]

/-! ### the check -/

/-- the check on the subjects dropped from a subject list -/
def droppedAbsentIn (g : PGraph Str) (ss : List Filter) : Bool :=
  (droppedSubjects ss).any fun f => !f.isRegex && !g.hasNode f.id

theorem droppedAbsent_convert (g : PGraph Str) (c : RuleConfig) (ss : List Filter) (ha : c.anything = true)
    (hs : c.subjects = some ss) : droppedAbsent g (convertAliases c) = droppedAbsentIn g ss := by
  unfold droppedAbsent droppedAbsentIn
  rw [convertAliases_dropped c ss ha hs]

theorem droppedAbsent_nil (g : PGraph Str) (c : RuleConfig) (h : c.dropped = []) : droppedAbsent g c = false := by
  unfold droppedAbsent; rw [h]; rfl

theorem droppedAbsentIn_iff (g : PGraph Str) (ss : List Filter) :
    droppedAbsentIn g ss = true ↔
      ∃ f ∈ ss, f ∉ dedupSubjects ss ∧ f.isRegex = false ∧ g.hasNode f.id = false := by
  simp only [droppedAbsentIn, List.any_eq_true, mem_droppedSubjects, Bool.and_eq_true, Bool.not_eq_true', and_assoc]

theorem droppedAbsentIn_false_iff (g : PGraph Str) (ss : List Filter) :
    droppedAbsentIn g ss = false ↔
      ∀ f ∈ ss, f ∉ dedupSubjects ss → f.isRegex = false → g.hasNode f.id = true := by
  rw [← Bool.not_eq_true, droppedAbsentIn_iff]
  constructor
  · intro h f hf hn hr
    cases hg : g.hasNode f.id
    · exact absurd ⟨f, hf, hn, hr, hg⟩ h
    · rfl
  · rintro h ⟨f, hf, hn, hr, hg⟩
    rw [h f hf hn hr] at hg; cases hg

/-- nothing is dropped: the check is vacuous -/
theorem droppedAbsentIn_of_dedup_eq (g : PGraph Str) (ss : List Filter) (h : dedupSubjects ss = ss) :
    droppedAbsentIn g ss = false := by
  unfold droppedAbsentIn; rw [droppedSubjects_of_dedup_eq ss h]; rfl

/-- every non-regex subject is a node: the check passes -/
theorem droppedAbsentIn_of_nodes (g : PGraph Str) (ss : List Filter)
    (h : ∀ f ∈ ss, f.isRegex = false → g.hasNode f.id = true) : droppedAbsentIn g ss = false := by
  rw [droppedAbsentIn_false_iff]
  intro f hf _ hr
  exact h f hf hr

/-- the check only looks at the node SET -/
theorem droppedAbsent_congr (g g' : PGraph Str) (c : RuleConfig) (h : ∀ s, g.hasNode s = g'.hasNode s) :
    droppedAbsent g c = droppedAbsent g' c := by
  unfold droppedAbsent
  simp only [h]

end Pta
