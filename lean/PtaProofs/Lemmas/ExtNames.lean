/-
  PtaProofs.Lemmas.ExtNames — raw-string facts for ARBITRARY module strings (no well-formedness): the components
  `splitDots s` determine `s`; `parentModules` lists the strings obtained from the non-empty proper component
  prefixes; the chain `parentModules m ++ [m]`, its consecutive pairs (immediate-parent pairs `hierPair`), and how
  `flattenNode` acts on chains.  Used by the general characterisation of `buildGraph` (Lemmas/ExtBuild.lean).
-/
import Bridge.Abs
import PtaProofs.Lemmas.Render
import PtaProofs.Lemmas.BuildNames
namespace Pta
namespace ExtNames
open PtaSpec BuildNames

/-! ### components -/

theorem splitDots_mem_nodot (s : Str) : ∀ c ∈ splitDots s, '.' ∉ c := by
  induction s with
  | nil => intro c hc; simp [splitDots] at hc; subst hc; simp
  | cons a s ih =>
    intro c hc
    unfold splitDots at hc
    cases h : splitDots s with
    | nil => exact absurd h (splitDots_ne_nil s)
    | cons x t =>
      rw [h] at hc ih
      simp only at hc
      split at hc
      · rcases List.mem_cons.1 hc with rfl | hc
        · simp
        · exact ih c hc
      · rename_i hne
        rcases List.mem_cons.1 hc with rfl | hc
        · intro hm
          rcases List.mem_cons.1 hm with e | hm
          · exact hne e.symm
          · exact ih x (by simp) hm
        · exact ih c (by simp [hc])

theorem joinDots_cons_head (c : Char) (h : Str) (t : List Str) : joinDots ((c :: h) :: t) = c :: joinDots (h :: t) := by
  cases t <;> rfl

theorem joinDots_splitDots (s : Str) : joinDots (splitDots s) = s := by
  induction s with
  | nil => rfl
  | cons a s ih =>
    unfold splitDots
    cases h : splitDots s with
    | nil => exact absurd h (splitDots_ne_nil s)
    | cons x t =>
      rw [h] at ih
      simp only
      split
      · rename_i ha
        subst ha
        rw [joinDots_cons_cons, ih]; rfl
      · rw [joinDots_cons_head, ih]

theorem splitDots_injective {a b : Str} (h : splitDots a = splitDots b) : a = b := by
  rw [← joinDots_splitDots a, ← joinDots_splitDots b, h]

theorem splitDots_join (cs : List Str) (h : ∀ c ∈ cs, '.' ∉ c) (hne : cs ≠ []) : splitDots (joinDots cs) = cs :=
  splitDots_joinDots cs h hne

/-! ### `parentModules` in components (no well-formedness) -/

theorem parentModulesAux_join (acc : Str) (n : List Str) (hne : n ≠ []) (h : ∀ c ∈ n, '.' ∉ c) :
    parentModulesAux acc (joinDots n) = (properPrefixes n).map fun p => acc.reverse ++ joinDots p := by
  induction n generalizing acc with
  | nil => exact absurd rfl hne
  | cons x r ih =>
    have hx : '.' ∉ x := h x (by simp)
    cases r with
    | nil => simp [joinDots, properPrefixes_singleton, parentModulesAux_nodot acc x hx]
    | cons y r' =>
      have hr : ∀ c ∈ y :: r', '.' ∉ c := fun c hc => h c (List.mem_cons_of_mem _ hc)
      rw [joinDots_cons_cons, parentModulesAux_nodot_dot acc x _ hx, ih _ (by simp) hr, properPrefixes_cons_cons]
      simp only [List.map_cons, List.map_map]
      congr 1
      simp only [List.map_inj_left, Function.comp_def]
      intro p hp
      have hpne := mem_properPrefixes_ne_nil hp
      simp [joinDots_cons x p hpne]

theorem parentModules_eq (m : Str) : parentModules m = (properPrefixes (splitDots m)).map joinDots := by
  have := parentModulesAux_join [] (splitDots m) (splitDots_ne_nil m) (splitDots_mem_nodot m)
  rw [joinDots_splitDots] at this
  simpa [parentModules] using this

/-- the chain of a module: its dotted parents, shortest first, then the module itself -/
def chain (m : Str) : List Str := parentModules m ++ [m]

theorem chain_eq (m : Str) : chain m = (properPrefixes (splitDots m) ++ [splitDots m]).map joinDots := by
  unfold chain
  rw [parentModules_eq, List.map_append]
  simp [joinDots_splitDots]

theorem take_nodot (m : Str) (k : Nat) : ∀ c ∈ (splitDots m).take k, '.' ∉ c :=
  fun c hc => splitDots_mem_nodot m c (List.mem_of_mem_take hc)

theorem splitDots_join_take (m : Str) (k : Nat) (hk : 0 < k) :
    splitDots (joinDots ((splitDots m).take k)) = (splitDots m).take k := by
  apply splitDots_join _ (take_nodot m k)
  have := splitDots_ne_nil m
  cases h : splitDots m with
  | nil => exact absurd h this
  | cons x t =>
    cases k with
    | zero => omega
    | succ k => simp

/-- membership in the chain = component prefix -/
theorem mem_chain (e m : Str) : e ∈ chain m ↔ splitDots e <+: splitDots m := by
  rw [chain_eq]
  simp only [List.mem_map, List.mem_append, List.mem_singleton, mem_properPrefixes]
  constructor
  · rintro ⟨n, (⟨k, h0, hk, rfl⟩ | rfl), rfl⟩
    · rw [splitDots_join_take m k h0]; exact List.take_prefix _ _
    · rw [joinDots_splitDots]; exact List.prefix_refl _
  · rintro ⟨r, hr⟩
    have hne := splitDots_ne_nil e
    by_cases hr0 : r = []
    · subst hr0
      rw [List.append_nil] at hr
      exact ⟨splitDots m, Or.inr rfl, by rw [← hr, joinDots_splitDots]⟩
    · refine ⟨splitDots e, Or.inl ⟨(splitDots e).length, ?_, ?_, ?_⟩, joinDots_splitDots e⟩
      · exact List.length_pos_iff.2 hne
      · rw [← hr, List.length_append]
        have := List.length_pos_iff.2 hr0
        omega
      · rw [← hr, List.take_left]

theorem mem_parentModules (p m : Str) : p ∈ parentModules m ↔ p ∈ chain m ∧ p ≠ m := by
  unfold chain
  rw [List.mem_append, List.mem_singleton]
  constructor
  · intro h
    refine ⟨Or.inl h, ?_⟩
    rintro rfl
    rw [parentModules_eq] at h
    obtain ⟨n, hn, he⟩ := List.mem_map.1 h
    obtain ⟨k, h0, hk, rfl⟩ := (mem_properPrefixes _ _).1 hn
    have := congrArg splitDots he
    rw [splitDots_join_take p k h0] at this
    have := congrArg List.length this
    rw [List.length_take] at this
    omega
  · rintro ⟨h | h, hne⟩
    · exact h
    · exact absurd h hne

theorem self_mem_chain (m : Str) : m ∈ chain m := by simp [chain]

theorem chain_trans {a b c : Str} (h1 : a ∈ chain b) (h2 : b ∈ chain c) : a ∈ chain c := by
  rw [mem_chain] at *
  exact List.IsPrefix.trans h1 h2

theorem parent_mem_chain {p m : Str} (h : p ∈ parentModules m) : p ∈ chain m := ((mem_parentModules p m).1 h).1

/-! ### immediate-parent pairs -/

/-- `s` is the immediate dotted parent of `e` -/
def hierPair (s e : Str) : Prop := ∃ t, '.' ∉ t ∧ e = s ++ '.' :: t

theorem hierPair_iff (s e : Str) : hierPair s e ↔ ∃ t, splitDots e = splitDots s ++ [t] := by
  constructor
  · rintro ⟨t, ht, rfl⟩
    exact ⟨t, by rw [splitDots_append, splitDots_nodot t ht]⟩
  · rintro ⟨t, ht⟩
    have htn : '.' ∉ t := splitDots_mem_nodot e t (by rw [ht]; simp)
    refine ⟨t, htn, ?_⟩
    rw [← joinDots_splitDots e, ht, joinDots_append _ _ (splitDots_ne_nil s) (by simp), joinDots_splitDots]
    rfl

theorem hierPair_ne {s e : Str} (h : hierPair s e) : s ≠ e := by
  obtain ⟨t, -, rfl⟩ := h
  intro he
  have := congrArg List.length he
  simp at this

theorem hierPair_parent {s e : Str} (h : hierPair s e) : s ∈ parentModules e := by
  rw [mem_parentModules]
  refine ⟨?_, hierPair_ne h⟩
  rw [mem_chain]
  obtain ⟨t, ht⟩ := (hierPair_iff s e).1 h
  exact ⟨[t], ht.symm⟩

theorem hierPair_chain {s e m : Str} (h : hierPair s e) (he : e ∈ chain m) : s ∈ chain m :=
  chain_trans (parent_mem_chain (hierPair_parent h)) he

/-- consecutive pairs of a chain are exactly the immediate-parent pairs inside it -/
theorem mem_consecutive_chain_iff (m s e : Str) :
    (s, e) ∈ consecutive (chain m) ↔ hierPair s e ∧ e ∈ chain m := by
  rw [chain_eq, consecutive_map, List.mem_map]
  constructor
  · rintro ⟨p, hp, he⟩
    obtain ⟨k, h0, hk, rfl⟩ := (mem_consecutive_prefixes _ (splitDots_ne_nil m) p).1 hp
    simp only [Prod.mk.injEq] at he
    obtain ⟨rfl, rfl⟩ := he
    constructor
    · rw [hierPair_iff, splitDots_join_take m k h0, splitDots_join_take m (k + 1) (by omega)]
      refine ⟨(splitDots m)[k], ?_⟩
      rw [List.take_succ_eq_append_getElem hk]
    · rw [← chain_eq, mem_chain, splitDots_join_take m (k + 1) (by omega)]
      exact List.take_prefix _ _
  · rintro ⟨hp, he⟩
    obtain ⟨t, ht⟩ := (hierPair_iff s e).1 hp
    rw [← chain_eq, mem_chain] at he
    obtain ⟨r, hr⟩ := he
    have hs := List.length_pos_iff.2 (splitDots_ne_nil s)
    have hlen : (splitDots s).length + 1 + r.length = (splitDots m).length := by
      rw [← hr, ht]; simp; omega
    refine ⟨((splitDots m).take (splitDots s).length, (splitDots m).take ((splitDots s).length + 1)), ?_, ?_⟩
    · exact (mem_consecutive_prefixes _ (splitDots_ne_nil m) _).2 ⟨_, hs, by omega, rfl⟩
    · simp only [Prod.mk.injEq]
      constructor
      · rw [← hr, ht, List.append_assoc, List.take_left, joinDots_splitDots]
      · have : (splitDots s).length + 1 = (splitDots e).length := by rw [ht]; simp
        rw [this, ← hr, List.take_left, joinDots_splitDots]

/-! ### internal names -/

/-- the boundary-aware test is the component-prefix relation -/
theorem isModuleOrSub_iff (p n : Str) : isModuleOrSub p n = true ↔ splitDots p <+: splitDots n := by
  unfold isModuleOrSub
  simp only [Bool.or_eq_true, beq_iff_eq, startsWith_iff_prefix]
  constructor
  · rintro (rfl | ⟨r, hr⟩)
    · exact List.prefix_refl _
    · rw [← hr, List.append_assoc, List.singleton_append, splitDots_append]
      exact List.prefix_append _ _
  · rintro ⟨r, hr⟩
    by_cases hr0 : r = []
    · subst hr0
      rw [List.append_nil] at hr
      exact Or.inl (splitDots_injective hr.symm)
    · right
      refine ⟨joinDots r, ?_⟩
      rw [← joinDots_splitDots n, ← hr, joinDots_append _ _ (splitDots_ne_nil p) hr0, joinDots_splitDots]
      simp

theorem isModuleOrSub_chain {p s x : Str} (h : isModuleOrSub p s = true) (hs : s ∈ chain x) :
    isModuleOrSub p x = true := by
  rw [isModuleOrSub_iff] at *
  rw [mem_chain] at hs
  exact List.IsPrefix.trans h hs

/-! ### flattening -/

theorem splitDots_flatten (k : Nat) (m : Str) :
    splitDots (flattenNode (some k) m) = (splitDots m).take (k + 1) :=
  splitDots_join_take m (k + 1) (by omega)

theorem flatten_mem_chain (lim : Option Nat) (m : Str) : flattenNode lim m ∈ chain m := by
  cases lim with
  | none => exact self_mem_chain m
  | some k => rw [mem_chain, splitDots_flatten]; exact List.take_prefix _ _

theorem flatten_short (lim : Option Nat) (s m : Str) (h : s ∈ chain (flattenNode lim m)) : flattenNode lim s = s := by
  cases lim with
  | none => rfl
  | some k =>
    rw [mem_chain, splitDots_flatten] at h
    apply splitDots_injective
    rw [splitDots_flatten]
    apply List.take_of_length_le
    have := h.length_le
    rw [List.length_take] at this
    omega

theorem flatten_chain_mono (lim : Option Nat) {s m : Str} (h : s ∈ chain m) :
    flattenNode lim s ∈ chain (flattenNode lim m) := by
  cases lim with
  | none => exact h
  | some k =>
    rw [mem_chain] at *
    rw [splitDots_flatten, splitDots_flatten]
    obtain ⟨r, hr⟩ := h
    rw [← hr, List.take_append]
    exact List.prefix_append _ _

/-- the nodes created for `m` (flattened `m` and flattened parents) are exactly the chain of the flattened `m` -/
theorem flatten_nodes_iff (lim : Option Nat) (m s : Str) :
    (s = flattenNode lim m ∨ ∃ p ∈ parentModules m, s = flattenNode lim p) ↔ s ∈ chain (flattenNode lim m) := by
  constructor
  · rintro (rfl | ⟨p, hp, rfl⟩)
    · exact self_mem_chain _
    · exact flatten_chain_mono lim (parent_mem_chain hp)
  · intro h
    by_cases he : s = flattenNode lim m
    · exact Or.inl he
    · right
      have hs := flatten_short lim s m h
      refine ⟨s, ?_, hs.symm⟩
      rw [mem_parentModules]
      refine ⟨chain_trans h (flatten_mem_chain lim m), ?_⟩
      rintro rfl
      exact he hs.symm

/-- the edges written for the chain of `m` are exactly the immediate-parent pairs inside the flattened chain -/
theorem flatten_pairs_iff (lim : Option Nat) (m a b : Str) :
    (∃ pc ∈ consecutive (chain m), flattenNode lim pc.1 = a ∧ flattenNode lim pc.2 = b ∧ a ≠ b) ↔
      hierPair a b ∧ b ∈ chain (flattenNode lim m) := by
  constructor
  · rintro ⟨⟨s, e⟩, hpc, rfl, rfl, hne⟩
    obtain ⟨hp, he⟩ := (mem_consecutive_chain_iff m s e).1 hpc
    simp only at hne ⊢
    have hmono := flatten_chain_mono lim he
    cases lim with
    | none => exact ⟨hp, he⟩
    | some k =>
      obtain ⟨t, ht⟩ := (hierPair_iff s e).1 hp
      by_cases hl : (splitDots e).length ≤ k + 1
      · have h1 : flattenNode (some k) e = e := by
          apply splitDots_injective; rw [splitDots_flatten]; exact List.take_of_length_le hl
        have h2 : flattenNode (some k) s = s := by
          apply splitDots_injective; rw [splitDots_flatten]; apply List.take_of_length_le
          rw [ht] at hl; simp at hl; omega
        rw [h1, h2]
        rw [h1] at hmono
        exact ⟨hp, hmono⟩
      · exfalso
        apply hne
        apply splitDots_injective
        rw [splitDots_flatten, splitDots_flatten, ht, List.take_append_of_le_length]
        rw [ht] at hl; simp at hl; omega
  · rintro ⟨hp, hb⟩
    have h2 := flatten_short lim b m hb
    have h1 := flatten_short lim a m (hierPair_chain hp hb)
    refine ⟨(a, b), ?_, h1, h2, hierPair_ne hp⟩
    rw [mem_consecutive_chain_iff]
    exact ⟨hp, chain_trans hb (flatten_mem_chain lim m)⟩

end ExtNames
end Pta
