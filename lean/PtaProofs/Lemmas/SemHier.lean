/-
  PtaProofs.Lemmas.SemHier — layer 1/2 of the C01 proof: on a graph representing a well-formed architecture,
  hierarchy reachability is the dotted-prefix relation, and the three searches on compiled filters return
  exactly the rendered `edges` / `others` of the specification.
-/
import Bridge.Abs
import PtaProofs.Lemmas.Render
import PtaProofs.Lemmas.SearchChar
namespace Pta
open PtaSpec

/-! ### well-formedness, unpacked -/

structure ArchWF (a : Arch) : Prop where
  nwf : ∀ n ∈ a.nodes, nameWF n = true
  pref : ∀ n ∈ a.nodes, ∀ p, p ≠ [] → p <+: n → p ∈ a.nodes
  impL : ∀ e ∈ a.imports, e.1 ∈ a.nodes
  impR : ∀ e ∈ a.imports, e.2 ∈ a.nodes
  noAnc : ∀ e ∈ a.imports, sdesc e.1 e.2 = false

theorem mem_properPrefixes_of_prefix {p n : Name} (hp : p ≠ []) (hpre : p <+: n) (hne : p ≠ n) :
    p ∈ properPrefixes n := by
  unfold properPrefixes
  rw [List.mem_filterMap]
  refine ⟨p.length, ?_, ?_⟩
  · rw [List.mem_range]
    have h1 := hpre.length_le
    rcases Nat.lt_or_ge p.length n.length with h | h
    · exact h
    · exact absurd (hpre.eq_of_length (by omega)) hne
  · have : 0 < p.length := by cases p with
      | nil => exact absurd rfl hp
      | cons _ _ => simp
    simp only [this, if_true]
    rw [← List.prefix_iff_eq_take.1 hpre]

theorem archWF_of_wf (a : Arch) (h : a.wf = true) : ArchWF a := by
  unfold Arch.wf at h
  simp only [Bool.and_eq_true, List.all_eq_true, List.contains_iff_mem, bne_iff_ne, ne_eq,
    Bool.not_eq_true'] at h
  obtain ⟨⟨⟨_, h2⟩, h3⟩, h4⟩ := h
  refine ⟨h2, ?_, fun e he => (h4 e he).1.1.1, fun e he => (h4 e he).1.1.2, fun e he => (h4 e he).2⟩
  intro n hn p hp hpre
  by_cases hne : p = n
  · exact hne ▸ hn
  · exact h3 n hn p (mem_properPrefixes_of_prefix hp hpre hne)

theorem desc_iff (x n : Name) : desc x n = true ↔ x <+: n := by
  simp [desc, List.isPrefixOf_iff_prefix]

theorem sdesc_iff (x n : Name) : sdesc x n = true ↔ x <+: n ∧ x ≠ n := by
  simp [sdesc, List.isPrefixOf_iff_prefix]

/-! ### reachability = prefix -/

theorem reach_sound {a : Arch} {g : PGraph Str} (hw : ArchWF a) (hg : GraphOf a g) (x : Name) (hx : x ∈ a.nodes)
    (r s : Str) (hr : r = render x) (h : Reach g r s) : ∃ n ∈ a.nodes, s = render n ∧ x <+: n := by
  induction h with
  | refl => exact ⟨x, hx, hr, List.prefix_refl _⟩
  | step _ hc0 ih =>
    obtain ⟨n, hn, rfl, hpre⟩ := ih
    obtain ⟨c, hc, hlen, hs, rfl⟩ := (hg.hier _ _).1 hc0
    have hdl : c.dropLast ≠ [] := by
      intro h0
      have := congrArg List.length h0
      simp [List.length_dropLast] at this
      omega
    have : n = c.dropLast := render_injective n c.dropLast (hw.nwf n hn)
      (nameWF_of_prefix (hw.nwf c hc) hdl (List.dropLast_prefix c)) hs
    exact ⟨c, hc, rfl, hpre.trans (this ▸ List.dropLast_prefix c)⟩

theorem reach_complete {a : Arch} {g : PGraph Str} (hw : ArchWF a) (hg : GraphOf a g) (x : Name) (hx : x ∈ a.nodes)
    (k : Nat) : ∀ n ∈ a.nodes, x <+: n → n.length = x.length + k → Reach g (render x) (render n) := by
  have hxne : x ≠ [] := nameWF_ne_nil (hw.nwf x hx)
  induction k with
  | zero =>
    intro n _ hpre hlen
    rw [hpre.eq_of_length (by omega)]
    exact .refl _
  | succ k ih =>
    intro n hn hpre hlen
    obtain ⟨t, rfl⟩ := hpre
    have ht : t ≠ [] := by
      intro h0; subst h0; simp at hlen
    have hdl : (x ++ t).dropLast = x ++ t.dropLast := List.dropLast_append_of_ne_nil ht
    have hmem : (x ++ t).dropLast ∈ a.nodes :=
      hw.pref _ hn _ (by rw [hdl]; simp [hxne]) (List.dropLast_prefix _)
    have hr := ih _ hmem (by rw [hdl]; exact List.prefix_append _ _) (by
      rw [List.length_dropLast]; omega)
    refine .step hr ((hg.hier _ _).2 ⟨x ++ t, hn, ?_, rfl, rfl⟩)
    have : 0 < x.length := List.length_pos_iff.2 hxne
    omega

theorem reach_iff {a : Arch} {g : PGraph Str} (hw : ArchWF a) (hg : GraphOf a g) (x : Name) (hx : x ∈ a.nodes)
    (s : Str) : Reach g (render x) s ↔ ∃ n ∈ a.nodes, s = render n ∧ x <+: n := by
  constructor
  · exact reach_sound hw hg x hx _ s rfl
  · rintro ⟨n, hn, rfl, hpre⟩
    exact reach_complete hw hg x hx (n.length - x.length) n hn hpre (by have := hpre.length_le; omega)

theorem reach_render {a : Arch} {g : PGraph Str} (hw : ArchWF a) (hg : GraphOf a g) (x n : Name) (hx : x ∈ a.nodes)
    (hn : n ∈ a.nodes) : Reach g (render x) (render n) ↔ desc x n = true := by
  rw [reach_iff hw hg x hx, desc_iff]
  constructor
  · rintro ⟨m, hm, he, hpre⟩
    rw [render_injective n m (hw.nwf n hn) (hw.nwf m hm) he]; exact hpre
  · intro h; exact ⟨n, hn, rfl, h⟩

theorem hasNode_render {a : Arch} {g : PGraph Str} (hg : GraphOf a g) (n : Name) (hn : n ∈ a.nodes) :
    g.hasNode (render n) = true := (hg.nodes _).2 ⟨n, hn, rfl⟩

theorem hasNode_render_false {a : Arch} {g : PGraph Str} (hw : ArchWF a) (hg : GraphOf a g) (n : Name)
    (hwf : nameWF n = true) (hn : n ∉ a.nodes) : g.hasNode (render n) = false := by
  cases h : g.hasNode (render n)
  · rfl
  · obtain ⟨m, hm, he⟩ := (hg.nodes _).1 h
    exact absurd (render_injective n m hwf (hw.nwf m hm) he ▸ hm) hn

/-! ### compiled filters -/

@[simp] theorem compileFilter_id (f : SFilter) : (compileFilter f).id = render f.id := by cases f <;> rfl
@[simp] theorem compileFilter_isParent (f : SFilter) : (compileFilter f).isParent = f.isSub := by cases f <;> rfl
@[simp] theorem compileFilter_isRegex (f : SFilter) : (compileFilter f).isRegex = false := by cases f <;> rfl
@[simp] theorem compileFilter_toMod (f : SFilter) : (compileFilter f).toMod = sfilterMod f := by cases f <;> rfl

theorem compileFilter_inj (f f' : SFilter) (hf : nameWF f.id = true) (hf' : nameWF f'.id = true)
    (h : compileFilter f = compileFilter f') : f = f' := by
  cases f <;> cases f' <;> simp [compileFilter] at h <;>
    simp only [SFilter.id] at hf hf' <;> rw [render_injective _ _ hf hf' h]

theorem mem_parentIds_map (fs : List SFilter) (x : Str) :
    x ∈ parentIds (fs.map compileFilter) ↔ ∃ f ∈ fs, f.isSub = true ∧ x = render f.id := by
  unfold parentIds
  simp only [List.mem_map, List.mem_filter]
  constructor
  · rintro ⟨F, ⟨⟨f, hf, rfl⟩, hp⟩, rfl⟩
    exact ⟨f, hf, by simpa using hp, by simp⟩
  · rintro ⟨f, hf, hs, rfl⟩
    exact ⟨compileFilter f, ⟨⟨f, hf, rfl⟩, by simpa using hs⟩, by simp⟩

theorem mem_parentIds_of_mem (L : List Filter) (os : List SFilter) (hL : ∀ F, F ∈ L ↔ ∃ o ∈ os, F = compileFilter o)
    (x : Str) : x ∈ parentIds L ↔ ∃ f ∈ os, f.isSub = true ∧ x = render f.id := by
  rw [← mem_parentIds_map]
  unfold parentIds
  simp only [List.mem_map, List.mem_filter]
  constructor
  · rintro ⟨F, ⟨hF, hp⟩, rfl⟩
    obtain ⟨o, ho, rfl⟩ := (hL F).1 hF
    exact ⟨_, ⟨⟨o, ho, rfl⟩, hp⟩, rfl⟩
  · rintro ⟨F, ⟨⟨o, ho, rfl⟩, hp⟩, rfl⟩
    exact ⟨_, ⟨(hL _).2 ⟨o, ho, rfl⟩, hp⟩, rfl⟩

/-- compatible filters: the same filter, or unrelated identifiers -/
def Compat (f o : SFilter) : Prop := f = o ∨ related f.id o.id = false

theorem mem_desc (f : SFilter) (n : Name) (h : f.mem n = true) : desc f.id n = true := by
  cases f <;> simp_all [SFilter.mem, SFilter.id, sdesc, desc]

theorem mem_iff (f : SFilter) (n : Name) : f.mem n = true ↔ desc f.id n = true ∧ (f.isSub = true → n ≠ f.id) := by
  cases f with
  | named x => simp [SFilter.mem, SFilter.id, SFilter.isSub]
  | subOf x =>
    simp only [SFilter.mem, SFilter.id, SFilter.isSub, sdesc, desc, Bool.and_eq_true, bne_iff_ne, ne_eq,
      true_imp_iff]
    exact and_congr_right fun _ => ⟨fun h e => h e.symm, fun h e => h e.symm⟩

theorem not_parent_of_mem {f o : SFilter} {n : Name} (h : f.mem n = true) (hc : Compat f o) (ho : o.isSub = true) :
    n ≠ o.id := by
  rcases hc with rfl | hc
  · exact ((mem_iff f n).1 h).2 ho
  · intro hn; subst hn
    have := mem_desc f _ h
    unfold related at hc
    rw [this] at hc
    cases hc

/-- lists of search results that represent a list of architecture imports -/
def Rep (l : List (Str × Str)) (es : List (Name × Name)) : Prop :=
  ∀ u v, (u, v) ∈ l ↔ ∃ e ∈ es, u = render e.1 ∧ v = render e.2

theorem Rep.isEmpty {l : List (Str × Str)} {es : List (Name × Name)} (h : Rep l es) : l.isEmpty = es.isEmpty := by
  rw [Bool.eq_iff_iff, List.isEmpty_iff, List.isEmpty_iff]
  constructor
  · intro hl
    cases es with
    | nil => rfl
    | cons e es =>
      have := (h (render e.1) (render e.2)).2 ⟨e, by simp, rfl, rfl⟩
      simp [hl] at this
  · intro hes
    cases l with
    | nil => rfl
    | cons p l =>
      obtain ⟨e, he, _⟩ := (h p.1 p.2).1 (by simp)
      simp [hes] at he

section searches
variable {a : Arch} {g : PGraph Str} (hw : ArchWF a) (hg : GraphOf a g)
include hw hg

/-- `get_dependency_between_modules` on compiled filters = the specification's `edges` (import direction) -/
theorem depBetween_rep (f o : SFilter) (hf : f.id ∈ a.nodes) (ho : o.id ∈ a.nodes)
    (hfo : Compat f o) (hof : Compat o f) :
    ∃ l, depBetween g (compileFilter f) (compileFilter o) = .ok l ∧ Rep l (edges a true f o) := by
  obtain ⟨l, hl, hm⟩ := depBetween_ok g (compileFilter f) (compileFilter o)
    (by simpa using hasNode_render hg _ hf) (by simpa using hasNode_render hg _ ho)
  refine ⟨l, hl, ?_⟩
  intro u v
  rw [hm]
  have hpi : ∀ x, x ∈ parentIds [compileFilter f, compileFilter o] ↔
      ∃ f' ∈ [f, o], f'.isSub = true ∧ x = render f'.id := fun x => mem_parentIds_map [f, o] x
  simp only [compileFilter_id, hpi, edges, if_true, List.mem_filter, Bool.and_eq_true]
  constructor
  · rintro ⟨h1, h2, h3, h4, h5⟩
    obtain ⟨e, he, rfl, rfl⟩ := (hg.succs _ _).1 h2
    refine ⟨e, ⟨he, ?_, ?_⟩, rfl, rfl⟩
    · rw [mem_iff]
      refine ⟨(reach_render hw hg _ _ hf (hw.impL e he)).1 h1, ?_⟩
      intro hs hn
      exact h4 ⟨f, by simp, hs, by rw [hn]⟩
    · rw [mem_iff]
      refine ⟨(reach_render hw hg _ _ ho (hw.impR e he)).1 h3, ?_⟩
      intro hs hn
      exact h5 ⟨o, by simp, hs, by rw [hn]⟩
  · rintro ⟨e, ⟨he, h1, h2⟩, rfl, rfl⟩
    have hi1 := hw.nwf _ (hw.impL e he)
    have hi2 := hw.nwf _ (hw.impR e he)
    refine ⟨(reach_render hw hg _ _ hf (hw.impL e he)).2 (mem_desc _ _ h1), (hg.succs _ _).2 ⟨e, he, rfl, rfl⟩,
      (reach_render hw hg _ _ ho (hw.impR e he)).2 (mem_desc _ _ h2), ?_, ?_⟩
    · rintro ⟨f', hf', hs, hr⟩
      simp only [List.mem_cons, List.not_mem_nil, or_false] at hf'
      rcases hf' with rfl | rfl
      · exact not_parent_of_mem h1 (.inl rfl) hs (render_injective _ _ hi1 (hw.nwf _ hf) hr)
      · exact not_parent_of_mem h1 hfo hs (render_injective _ _ hi1 (hw.nwf _ ho) hr)
    · rintro ⟨f', hf', hs, hr⟩
      simp only [List.mem_cons, List.not_mem_nil, or_false] at hf'
      rcases hf' with rfl | rfl
      · exact not_parent_of_mem h2 hof hs (render_injective _ _ hi2 (hw.nwf _ hf) hr)
      · exact not_parent_of_mem h2 (.inl rfl) hs (render_injective _ _ hi2 (hw.nwf _ ho) hr)

/-- the exclusion set of the two "something else" searches, on a node `far` outside the subject's sub tree -/
theorem far_excl (s : SFilter) (os : List SFilter) (L : List Filter)
    (hL : ∀ F, F ∈ L ↔ ∃ o ∈ os, F = compileFilter o)
    (hs : s.id ∈ a.nodes) (hos : ∀ o ∈ os, o.id ∈ a.nodes)
    (hso : ∀ o ∈ os, Compat s o) (hoo : ∀ o ∈ os, ∀ p ∈ os, Compat o p)
    (far : Name) (hfar : far ∈ a.nodes) (hnd : desc s.id far = false) :
    (¬ ((∃ O ∈ L, O ≠ compileFilter s ∧ Reach g O.id (render far)) ∧ render far ∉ parentIds L)) ↔
      (os.all fun o => !o.mem far) = true := by
  simp only [List.all_eq_true, Bool.not_eq_true']
  rw [mem_parentIds_of_mem L os hL]
  constructor
  · intro h o ho
    cases hm : o.mem far
    · rfl
    · exfalso
      apply h
      refine ⟨⟨compileFilter o, (hL _).2 ⟨o, ho, rfl⟩, ?_, ?_⟩, ?_⟩
      · intro heq
        have := compileFilter_inj o s (hw.nwf _ (hos o ho)) (hw.nwf _ hs) heq
        subst this
        rw [mem_desc _ _ hm] at hnd; cases hnd
      · simpa using (reach_render hw hg _ _ (hos o ho) hfar).2 (mem_desc _ _ hm)
      · rintro ⟨p, hp, hps, hr⟩
        exact not_parent_of_mem hm (hoo o ho p hp) hps
          (render_injective _ _ (hw.nwf _ hfar) (hw.nwf _ (hos p hp)) hr)
  · rintro h ⟨⟨O, hO, _, hr⟩, hnp⟩
    obtain ⟨o, ho, rfl⟩ := (hL O).1 hO
    have hd := (reach_render hw hg _ _ (hos o ho) hfar).1 (by simpa using hr)
    have hm := h o ho
    have : ¬ (o.isSub = true → far ≠ o.id) := by
      intro hh
      rw [(mem_iff o far).2 ⟨hd, hh⟩] at hm; cases hm
    apply hnp
    refine ⟨o, ho, ?_, ?_⟩
    · cases hsub : o.isSub
      · exact absurd (fun h' => by rw [hsub] at h'; cases h') this
      · rfl
    · congr 1
      by_cases hfo : far = o.id
      · exact hfo
      · exact absurd (fun _ => hfo) this

/-- `any_dependency_to_module_other_than` on compiled filters = `others` (import direction) -/
theorem otherFrom_rep (s : SFilter) (os : List SFilter) (L : List Filter)
    (hL : ∀ F, F ∈ L ↔ ∃ o ∈ os, F = compileFilter o)
    (hs : s.id ∈ a.nodes) (hos : ∀ o ∈ os, o.id ∈ a.nodes)
    (hso : ∀ o ∈ os, Compat s o) (hoo : ∀ o ∈ os, ∀ p ∈ os, Compat o p) :
    ∃ l, otherFrom g (compileFilter s) L = .ok l ∧ Rep l (others a true s os) := by
  obtain ⟨l, hl, hm⟩ := otherFrom_ok g (compileFilter s) L (by simpa using hasNode_render hg _ hs) (by
    intro F hF
    obtain ⟨o, ho, rfl⟩ := (hL F).1 hF
    simpa using hasNode_render hg _ (hos o ho))
  refine ⟨l, hl, ?_⟩
  intro u v
  rw [hm]
  simp only [compileFilter_id, compileFilter_isParent, others, if_true, List.mem_filter, Bool.and_eq_true,
    Bool.not_eq_true']
  constructor
  · rintro ⟨h1, h2, h3, h4, h5⟩
    obtain ⟨e, he, rfl, rfl⟩ := (hg.succs _ _).1 h3
    have hi1 := hw.nwf _ (hw.impL e he)
    have hnd : desc s.id e.2 = false := by
      cases hd : desc s.id e.2
      · rfl
      · exact absurd ((reach_render hw hg _ _ hs (hw.impR e he)).2 hd) h4
    refine ⟨e, ⟨he, ⟨?_, hnd⟩, ?_⟩, rfl, rfl⟩
    · rw [mem_iff]
      refine ⟨(reach_render hw hg _ _ hs (hw.impL e he)).1 h1, ?_⟩
      intro hsub hn
      exact h2 hsub (by rw [hn])
    · exact (far_excl hw hg s os L hL hs hos hso hoo e.2 (hw.impR e he) hnd).1 (by simpa using h5)
  · rintro ⟨e, ⟨he, ⟨h1, h2⟩, h3⟩, rfl, rfl⟩
    have hi1 := hw.nwf _ (hw.impL e he)
    refine ⟨(reach_render hw hg _ _ hs (hw.impL e he)).2 (mem_desc _ _ h1), ?_,
      (hg.succs _ _).2 ⟨e, he, rfl, rfl⟩, ?_, ?_⟩
    · intro hsub hr
      exact ((mem_iff s e.1).1 h1).2 hsub (render_injective _ _ hi1 (hw.nwf _ hs) hr)
    · intro hr
      rw [(reach_render hw hg _ _ hs (hw.impR e he)).1 hr] at h2; cases h2
    · simpa using (far_excl hw hg s os L hL hs hos hso hoo e.2 (hw.impR e he) h2).2 h3

/-- `any_other_dependency_to_module_than` on compiled filters = `others` (be-imported-by direction) -/
theorem otherTo_rep (s : SFilter) (os : List SFilter) (L : List Filter)
    (hL : ∀ F, F ∈ L ↔ ∃ o ∈ os, F = compileFilter o)
    (hs : s.id ∈ a.nodes) (hos : ∀ o ∈ os, o.id ∈ a.nodes)
    (hso : ∀ o ∈ os, Compat s o) (hoo : ∀ o ∈ os, ∀ p ∈ os, Compat o p) :
    ∃ l, otherTo g L (compileFilter s) = .ok l ∧ Rep l (others a false s os) := by
  obtain ⟨l, hl, hm⟩ := otherTo_ok g L (compileFilter s) (by simpa using hasNode_render hg _ hs) (by
    intro F hF
    obtain ⟨o, ho, rfl⟩ := (hL F).1 hF
    simpa using hasNode_render hg _ (hos o ho))
  refine ⟨l, hl, ?_⟩
  intro u v
  rw [hm]
  simp only [compileFilter_id, compileFilter_isParent, others, Bool.false_eq_true, if_false, List.mem_filter,
    Bool.and_eq_true, Bool.not_eq_true']
  constructor
  · rintro ⟨h1, h2, h3, h4, h5⟩
    obtain ⟨e, he, rfl, rfl⟩ := (hg.preds _ _).1 h3
    have hi1 := hw.nwf _ (hw.impL e he)
    have hi2 := hw.nwf _ (hw.impR e he)
    have hmem : s.mem e.2 = true := by
      rw [mem_iff]
      refine ⟨(reach_render hw hg _ _ hs (hw.impR e he)).1 h1, ?_⟩
      intro hsub hn
      exact h2 hsub (by rw [hn])
    have hnd : desc s.id e.1 = false := by
      cases hd : desc s.id e.1
      · rfl
      · exfalso
        apply h4
        refine ⟨(reach_render hw hg _ _ hs (hw.impL e he)).2 hd, ?_⟩
        intro hsub hr
        have h1e := render_injective _ _ hi1 (hw.nwf _ hs) hr
        -- the parent itself importing one of its strict descendants is excluded by well-formedness
        have hna := hw.noAnc e he
        have hsd : sdesc e.1 e.2 = true := by
          rw [sdesc_iff, h1e]
          exact ⟨(desc_iff _ _).1 (mem_desc _ _ hmem), fun h => ((mem_iff s e.2).1 hmem).2 hsub h.symm⟩
        rw [hsd] at hna; cases hna
    refine ⟨e, ⟨he, ⟨hmem, hnd⟩, ?_⟩, rfl, rfl⟩
    exact (far_excl hw hg s os L hL hs hos hso hoo e.1 (hw.impL e he) hnd).1 (by simpa using h5)
  · rintro ⟨e, ⟨he, ⟨h1, h2⟩, h3⟩, rfl, rfl⟩
    have hi2 := hw.nwf _ (hw.impR e he)
    refine ⟨(reach_render hw hg _ _ hs (hw.impR e he)).2 (mem_desc _ _ h1), ?_,
      (hg.preds _ _).2 ⟨e, he, rfl, rfl⟩, ?_, ?_⟩
    · intro hsub hr
      exact ((mem_iff s e.2).1 h1).2 hsub (render_injective _ _ hi2 (hw.nwf _ hs) hr)
    · rintro ⟨hr, _⟩
      rw [(reach_render hw hg _ _ hs (hw.impL e he)).1 hr] at h2; cases h2
    · simpa using (far_excl hw hg s os L hL hs hos hso hoo e.1 (hw.impL e he) h2).2 h3

end searches

end Pta
