/-
  PtaProofs.Lemmas.AstWalk — the AST walk of `ImportConverter.convert` (`walkLoop` / `collectImports`) on a flat,
  prefix-closed node list with unique paths reaches every import node exactly once: the collected statements are a
  permutation of the statements of all import nodes, and `nodes.length + 1` iterations suffice.

  Invariant of the loop: the paths on the stack are pairwise incomparable (no one is a prefix of another), so the
  sub-trees below the stack elements partition the nodes still to visit; one iteration either emits a leaf or
  replaces a node by its children (whose sub-trees partition the node's strict descendants, by prefix-closure).
-/
import PtaModel.Scan
import Bridge.ScanAst
import Bridge.ScanTree
namespace Pta.AstWalk
open Pta

/-! ### lists -/

theorem filter_or_perm {α : Type} (p q : α → Bool) (l : List α) (h : ∀ x ∈ l, ¬(p x = true ∧ q x = true)) :
    (l.filter fun x => p x || q x).Perm (l.filter p ++ l.filter q) := by
  induction l with
  | nil => simp
  | cons x xs ih =>
    have ih := ih fun y hy => h y (List.mem_cons_of_mem _ hy)
    have hx := h x (by simp)
    cases hp : p x <;> cases hq : q x
    · simpa [List.filter_cons, hp, hq] using ih
    · simp only [List.filter_cons, hp, hq, Bool.or_true, if_true, Bool.false_eq_true, if_false]
      exact (List.Perm.cons x ih).trans List.perm_middle.symm
    · simp only [List.filter_cons, hp, hq, Bool.or_false, if_true, Bool.false_eq_true, if_false, List.cons_append]
      exact List.Perm.cons x ih
    · exact absurd ⟨hp, hq⟩ hx

/-- in a duplicate-free list, a filter that lets exactly `a` pass yields `[a]` -/
theorem filter_eq_singleton {α : Type} (p : α → Bool) (l : List α) (a : α) (hn : l.Nodup) (ha : a ∈ l)
    (hp : ∀ x ∈ l, p x = true ↔ x = a) : l.filter p = [a] := by
  induction l with
  | nil => cases ha
  | cons x xs ih =>
    rw [List.nodup_cons] at hn
    by_cases hxa : x = a
    · subst hxa
      have : xs.filter p = [] := by
        rw [List.filter_eq_nil_iff]
        intro y hy hpy
        have := (hp y (List.mem_cons_of_mem _ hy)).mp hpy
        subst this
        exact hn.1 hy
      rw [List.filter_cons, if_pos ((hp x (by simp)).mpr rfl), this]
    · have hpx : p x = false := by
        cases h : p x
        · rfl
        · exact absurd ((hp x (by simp)).mp h) hxa
      rw [List.filter_cons, hpx]
      simp only [Bool.false_eq_true, if_false]
      refine ih hn.2 ?_ fun y hy => hp y (List.mem_cons_of_mem _ hy)
      rcases List.mem_cons.mp ha with h | h
      · exact absurd h.symm hxa
      · exact h

theorem pairwise_inj {α β : Type} {f : α → β} {l : List α} (h : l.Pairwise fun a b => f a ≠ f b) :
    ∀ a ∈ l, ∀ b ∈ l, f a = f b → a = b := by
  induction l with
  | nil => intro a ha; cases ha
  | cons x xs ih =>
    rw [List.pairwise_cons] at h
    intro a ha b hb hab
    rcases List.mem_cons.mp ha with ha' | ha' <;> rcases List.mem_cons.mp hb with hb' | hb'
    · rw [ha', hb']
    · rw [ha'] at hab; exact absurd hab (h.1 b hb')
    · rw [hb'] at hab; exact absurd hab.symm (h.1 a ha')
    · exact ih h.2 a ha' b hb' hab

/-! ### trees -/

/-- a tree: paths are unique, every node but the root has its parent in the list, and no import node lies below an
    import node (in the real AST the children of `Import` / `ImportFrom` are `alias` nodes) -/
structure AstWF (nodes : List AstNode) : Prop where
  uniq : (nodes.map (·.path)).Nodup
  parent : ∀ m ∈ nodes, m.path ≠ [] → ∃ p ∈ nodes, p.path = m.path.dropLast
  leaf : ∀ n ∈ nodes, n.stmt?.isSome = true → ∀ m ∈ nodes, n.path <+: m.path → m.path ≠ n.path → m.stmt? = none

theorem AstWF.pairwise {nodes : List AstNode} (h : AstWF nodes) : nodes.Pairwise fun a b => a.path ≠ b.path := by
  have := h.uniq
  rwa [List.Nodup, List.pairwise_map] at this

theorem AstWF.nodup {nodes : List AstNode} (h : AstWF nodes) : nodes.Nodup :=
  h.pairwise.imp fun hab heq => hab (by rw [heq])

theorem AstWF.path_inj {nodes : List AstNode} (h : AstWF nodes) {a b : AstNode} (ha : a ∈ nodes) (hb : b ∈ nodes)
    (hab : a.path = b.path) : a = b := by
  exact pairwise_inj h.pairwise a ha b hb hab

/-- prefix-closure: every prefix of a node's path is the path of a node -/
theorem AstWF.closed {nodes : List AstNode} (h : AstWF nodes) :
    ∀ (k : Nat) (m : AstNode), m ∈ nodes → m.path.length = k → ∀ p, p <+: m.path → ∃ n ∈ nodes, n.path = p := by
  intro k
  induction k with
  | zero =>
    intro m hm hk p hp
    have : m.path = [] := List.length_eq_zero_iff.mp hk
    rw [this] at hp
    exact ⟨m, hm, by rw [this, List.prefix_nil.mp hp]⟩
  | succ k ih =>
    intro m hm hk p hp
    by_cases hpe : p = m.path
    · exact ⟨m, hm, hpe.symm⟩
    · have hne : m.path ≠ [] := by intro h0; rw [h0] at hk; simp at hk
      obtain ⟨q, hq, hqp⟩ := h.parent m hm hne
      refine ih q hq (by rw [hqp, List.length_dropLast, hk]; rfl) p ?_
      rw [hqp]
      obtain ⟨t, ht⟩ := hp
      have htne : t ≠ [] := by intro h0; rw [h0, List.append_nil] at ht; exact hpe ht
      rw [← ht, List.dropLast_append_of_ne_nil htne]
      exact List.prefix_append _ _

/-! ### the region below a stack -/

/-- `m` lies in the sub-tree of some stack element -/
def under (S : List AstNode) (m : AstNode) : Bool := S.any fun s => s.path.isPrefixOf m.path

/-- `m` lies strictly below the node at `p` -/
def strictlyUnder (p : List Nat) (m : AstNode) : Bool := p.isPrefixOf m.path && m.path != p

/-- the paths of the stack elements are pairwise incomparable -/
def Incomp (S : List AstNode) : Prop := S.Pairwise fun a b => ¬ a.path <+: b.path ∧ ¬ b.path <+: a.path

theorem under_iff {S : List AstNode} {m : AstNode} : under S m = true ↔ ∃ s ∈ S, s.path <+: m.path := by
  simp [under, List.any_eq_true, List.isPrefixOf_iff_prefix]

theorem under_append (A B : List AstNode) (m : AstNode) : under (A ++ B) m = (under A m || under B m) := by
  simp [under, List.any_append]

theorem under_reverse (A : List AstNode) (m : AstNode) : under A.reverse m = under A m := by
  simp [under]

theorem under_nil (m : AstNode) : under [] m = false := rfl

/-- regions of two parts of an incomparable stack are disjoint -/
theorem under_disjoint {A B : List AstNode} (h : Incomp (A ++ B)) (m : AstNode) :
    ¬(under A m = true ∧ under B m = true) := by
  rintro ⟨ha, hb⟩
  obtain ⟨a, haA, hpa⟩ := under_iff.mp ha
  obtain ⟨b, hbB, hpb⟩ := under_iff.mp hb
  have := (List.pairwise_append.mp h).2.2 a haA b hbB
  rcases List.prefix_or_prefix_of_prefix hpa hpb with h1 | h1
  · exact this.1 h1
  · exact this.2 h1

theorem under_split {A B : List AstNode} (h : Incomp (A ++ B)) (nodes : List AstNode) :
    (nodes.filter (under (A ++ B))).Perm (nodes.filter (under A) ++ nodes.filter (under B)) := by
  have : nodes.filter (under (A ++ B)) = nodes.filter (fun m => under A m || under B m) :=
    List.filter_congr fun m _ => under_append A B m
  rw [this]
  exact filter_or_perm _ _ _ fun m _ => under_disjoint h m

/-- the region of a single node: the node and what lies strictly below it -/
theorem under_single {nodes : List AstNode} (h : AstWF nodes) {n : AstNode} (hn : n ∈ nodes) :
    (nodes.filter (under [n])).Perm (n :: nodes.filter (strictlyUnder n.path)) := by
  have h1 : nodes.filter (under [n]) = nodes.filter (fun m => (m.path == n.path) || strictlyUnder n.path m) := by
    apply List.filter_congr
    intro m _
    rw [Bool.eq_iff_iff]
    simp only [under, List.any_cons, List.any_nil, Bool.or_false, strictlyUnder, Bool.or_eq_true, Bool.and_eq_true,
      beq_iff_eq, bne_iff_ne, ne_eq, List.isPrefixOf_iff_prefix]
    constructor
    · intro hp
      by_cases hm : m.path = n.path
      · exact .inl hm
      · exact .inr ⟨hp, hm⟩
    · rintro (hm | hm)
      · rw [hm]; exact List.prefix_refl _
      · exact hm.1
  rw [h1]
  refine (filter_or_perm _ _ _ ?_).trans ?_
  · intro m _ ⟨ha, hb⟩
    simp only [strictlyUnder, Bool.and_eq_true, bne_iff_ne, ne_eq, beq_iff_eq] at ha hb
    exact hb.2 ha
  · rw [filter_eq_singleton (fun m => m.path == n.path) nodes n h.nodup hn]
    · rfl
    · intro x hx
      simp only [beq_iff_eq]
      exact ⟨fun hp => h.path_inj hx hn hp, fun hp => by rw [hp]⟩

/-- below an import node there is no import node -/
theorem strict_leaf {nodes : List AstNode} (h : AstWF nodes) {n : AstNode} (hn : n ∈ nodes)
    (hs : n.stmt?.isSome = true) : (nodes.filter (strictlyUnder n.path)).filterMap AstNode.stmt? = [] := by
  rw [List.filterMap_eq_nil_iff]
  intro m hm
  rw [List.mem_filter] at hm
  obtain ⟨hm, hsu⟩ := hm
  simp only [strictlyUnder, Bool.and_eq_true, bne_iff_ne, ne_eq, List.isPrefixOf_iff_prefix] at hsu
  exact h.leaf n hn hs m hm hsu.1 hsu.2

theorem mem_astChildren {nodes : List AstNode} {p : List Nat} {c : AstNode} :
    c ∈ astChildren nodes p ↔ c ∈ nodes ∧ c.path.length = p.length + 1 ∧ p <+: c.path := by
  simp [astChildren, List.mem_filter, List.isPrefixOf_iff_prefix]

/-- what lies strictly below a node is what lies in the sub-trees of its children -/
theorem strict_eq_children {nodes : List AstNode} (h : AstWF nodes) (p : List Nat) :
    nodes.filter (strictlyUnder p) = nodes.filter (under (astChildren nodes p)) := by
  apply List.filter_congr
  intro m hm
  rw [Bool.eq_iff_iff, under_iff]
  simp only [strictlyUnder, Bool.and_eq_true, bne_iff_ne, ne_eq, List.isPrefixOf_iff_prefix]
  constructor
  · rintro ⟨hpre, hne⟩
    obtain ⟨t, ht⟩ := hpre
    cases t with
    | nil => rw [List.append_nil] at ht; exact absurd ht.symm hne
    | cons i t =>
      have hpi : p ++ [i] <+: m.path := ⟨t, by rw [← ht]; simp⟩
      obtain ⟨c, hc, hcp⟩ := h.closed _ m hm rfl (p ++ [i]) hpi
      refine ⟨c, mem_astChildren.mpr ⟨hc, ?_, ?_⟩, ?_⟩
      · rw [hcp]; simp
      · rw [hcp]; exact List.prefix_append _ _
      · rw [hcp]; exact hpi
  · rintro ⟨c, hc, hcm⟩
    obtain ⟨_, hlen, hpc⟩ := mem_astChildren.mp hc
    refine ⟨hpc.trans hcm, ?_⟩
    intro heq
    have := hcm.length_le
    rw [heq] at this
    omega

theorem incomp_children {nodes : List AstNode} (h : AstWF nodes) (p : List Nat) :
    Incomp (astChildren nodes p) := by
  have hpw := h.pairwise
  have hc : (astChildren nodes p).Pairwise fun a b => a.path ≠ b.path := hpw.sublist List.filter_sublist
  refine hc.imp_of_mem ?_
  intro a b ha hb hab
  have hla := (mem_astChildren.mp ha).2.1
  have hlb := (mem_astChildren.mp hb).2.1
  exact ⟨fun hp => hab (hp.eq_of_length (by omega)), fun hp => hab (hp.eq_of_length (by omega)).symm⟩

theorem incomp_reverse {S : List AstNode} (h : Incomp S) : Incomp S.reverse := by
  unfold Incomp at *
  rw [List.pairwise_reverse]
  exact h.imp fun hab => ⟨hab.2, hab.1⟩

/-- replacing the top of the stack by its children keeps the stack incomparable -/
theorem incomp_push {nodes : List AstNode} (h : AstWF nodes) {n : AstNode} {rest : List AstNode}
    (hS : Incomp (n :: rest)) : Incomp ((astChildren nodes n.path).reverse ++ rest) := by
  unfold Incomp at hS ⊢
  rw [List.pairwise_cons] at hS
  rw [List.pairwise_append]
  refine ⟨incomp_reverse (incomp_children h n.path), hS.2, ?_⟩
  intro c hc r hr
  rw [List.mem_reverse] at hc
  obtain ⟨_, hlen, hpc⟩ := mem_astChildren.mp hc
  have hnr := hS.1 r hr
  constructor
  · intro hcr
    exact hnr.1 (hpc.trans hcr)
  · intro hrc
    -- r.path <+: c.path = n.path ++ [i]: either r.path <+: n.path or r.path = c.path
    rcases Nat.lt_or_ge r.path.length c.path.length with hl | hl
    · apply hnr.2
      have : r.path.length ≤ n.path.length := by omega
      exact List.prefix_of_prefix_length_le hrc hpc this
    · have : r.path = c.path := hrc.eq_of_length (Nat.le_antisymm hrc.length_le hl)
      exact hnr.1 (this ▸ hpc)

/-! ### the loop -/

theorem filter_true' {α : Type} (l : List α) : l.filter (fun _ => true) = l := by simp

/-- the region below a stack: its top, what lies strictly below the top, the region below the rest -/
theorem region_cons {nodes : List AstNode} (h : AstWF nodes) {n : AstNode} {rest : List AstNode} (hn : n ∈ nodes)
    (hinc : Incomp (n :: rest)) :
    (nodes.filter (under (n :: rest))).Perm
      (n :: nodes.filter (strictlyUnder n.path) ++ nodes.filter (under rest)) :=
  (under_split (A := [n]) (B := rest) hinc nodes).trans ((under_single h hn).append_right _)

/-- the region below the stack after the top has been replaced by its children: the top itself is gone -/
theorem region_push {nodes : List AstNode} (h : AstWF nodes) {n : AstNode} {rest : List AstNode}
    (hinc : Incomp (n :: rest)) :
    (nodes.filter (under ((astChildren nodes n.path).reverse ++ rest))).Perm
      (nodes.filter (strictlyUnder n.path) ++ nodes.filter (under rest)) := by
  have hsplit' := under_split (incomp_push h hinc) nodes
  have hrev : nodes.filter (under (astChildren nodes n.path).reverse) = nodes.filter (strictlyUnder n.path) := by
    rw [strict_eq_children h]
    exact List.filter_congr fun m _ => under_reverse _ m
  rwa [hrev] at hsplit'

theorem mem_push {nodes : List AstNode} {n : AstNode} {rest : List AstNode} (hrest : ∀ s ∈ rest, s ∈ nodes) :
    ∀ s ∈ (astChildren nodes n.path).reverse ++ rest, s ∈ nodes := by
  intro s hs
  rcases List.mem_append.mp hs with hs | hs
  · exact (mem_astChildren.mp (List.mem_reverse.mp hs)).1
  · exact hrest s hs

/-- the loop emits, up to order, the statements of the import nodes in the region below the stack — each once —
    provided the fuel exceeds the size of that region -/
theorem walkLoop_perm {nodes : List AstNode} (h : AstWF nodes) :
    ∀ (fuel : Nat) (S : List AstNode) (acc : List ImportStmt), (∀ s ∈ S, s ∈ nodes) → Incomp S →
      (nodes.filter (under S)).length < fuel →
      (walkLoop (fun _ => true) nodes fuel S acc).Perm (acc ++ (nodes.filter (under S)).filterMap AstNode.stmt?) := by
  intro fuel
  induction fuel with
  | zero => intro S acc _ _ hf; omega
  | succ fuel ih =>
    intro S acc hmem hinc hf
    cases S with
    | nil =>
      have : nodes.filter (under []) = [] := List.filter_eq_nil_iff.mpr fun m _ => by simp [under_nil]
      simp [walkLoop, this]
    | cons n rest =>
      have hn : n ∈ nodes := hmem n (by simp)
      have hrest : ∀ s ∈ rest, s ∈ nodes := fun s hs => hmem s (List.mem_cons_of_mem _ hs)
      have hsplit := region_cons h hn hinc
      have hlen := hsplit.length_eq
      simp only [List.cons_append, List.length_cons, List.length_append] at hlen
      have h2 := hsplit.filterMap AstNode.stmt?
      cases hst : n.stmt? with
      | some st =>
        have hleaf := strict_leaf h hn (by rw [hst]; rfl)
        have := ih rest (acc ++ [st]) hrest (List.pairwise_cons.mp hinc).2 (by omega)
        simp only [walkLoop, hst]
        refine this.trans ?_
        simp only [List.cons_append, List.filterMap_cons, hst, List.filterMap_append, hleaf, List.nil_append] at h2
        rw [List.append_assoc]
        exact (List.Perm.append_left acc h2.symm)
      | none =>
        have hsplit' := region_push h hinc
        have hlen' := hsplit'.length_eq
        simp only [List.length_append] at hlen'
        have := ih _ acc (mem_push hrest) (incomp_push h hinc) (by omega)
        simp only [walkLoop, hst, filter_true']
        refine this.trans (List.Perm.append_left acc ?_)
        simp only [List.cons_append, List.filterMap_cons, hst] at h2
        exact (hsplit'.filterMap AstNode.stmt?).trans h2.symm

/-- fuel beyond the size of the region below the stack is never used -/
theorem walkLoop_fuel {nodes : List AstNode} (h : AstWF nodes) :
    ∀ (fuel : Nat) (S : List AstNode) (acc : List ImportStmt), (∀ s ∈ S, s ∈ nodes) → Incomp S →
      (nodes.filter (under S)).length < fuel → ∀ k,
      walkLoop (fun _ => true) nodes (fuel + k) S acc = walkLoop (fun _ => true) nodes fuel S acc := by
  intro fuel
  induction fuel with
  | zero => intro S acc _ _ hf; omega
  | succ fuel ih =>
    intro S acc hmem hinc hf k
    rw [show fuel + 1 + k = (fuel + k) + 1 by omega]
    cases S with
    | nil => simp [walkLoop]
    | cons n rest =>
      have hn : n ∈ nodes := hmem n (by simp)
      have hrest : ∀ s ∈ rest, s ∈ nodes := fun s hs => hmem s (List.mem_cons_of_mem _ hs)
      have hlen := (region_cons h hn hinc).length_eq
      simp only [List.cons_append, List.length_cons, List.length_append] at hlen
      cases hst : n.stmt? with
      | some st =>
        simp only [walkLoop, hst]
        exact ih rest _ hrest (List.pairwise_cons.mp hinc).2 (by omega) k
      | none =>
        have hlen' := (region_push h hinc).length_eq
        simp only [List.length_append] at hlen'
        simp only [walkLoop, hst, filter_true']
        exact ih _ acc (mem_push hrest) (incomp_push h hinc) (by omega) k

/-- every node lies below the root -/
theorem under_roots {nodes : List AstNode} (h : AstWF nodes) : nodes.filter (under (astRoots nodes)) = nodes := by
  rw [List.filter_eq_self]
  intro m hm
  obtain ⟨r, hr, hrp⟩ := h.closed _ m hm rfl [] (List.nil_prefix)
  exact under_iff.mpr ⟨r, by simp [astRoots, List.mem_filter, hr, hrp], by rw [hrp]; exact List.nil_prefix⟩

theorem incomp_roots {nodes : List AstNode} (h : AstWF nodes) : Incomp (astRoots nodes) := by
  have hpw := h.pairwise
  have hc : (astRoots nodes).Pairwise fun a b => a.path ≠ b.path := hpw.sublist List.filter_sublist
  refine hc.imp_of_mem ?_
  intro a b ha hb hab
  simp only [astRoots, List.mem_filter, List.isEmpty_iff] at ha hb
  exact absurd (ha.2.trans hb.2.symm) hab

/-- `collectImports` = all import nodes of the tree, each once, up to order -/
theorem collectImports_perm {nodes : List AstNode} (h : AstWF nodes) :
    (collectImports nodes).Perm (nodes.filterMap AstNode.stmt?) := by
  have := walkLoop_perm h (nodes.length + 1) (astRoots nodes) []
    (fun s hs => (List.mem_filter.mp hs).1) (incomp_roots h) (by rw [under_roots h]; omega)
  rw [under_roots h] at this
  simpa [collectImports] using this

/-- the fuel `collectImports` fixes suffices: the `while` loop has terminated, more iterations change nothing -/
theorem collectImports_fuel {nodes : List AstNode} (h : AstWF nodes) (k : Nat) :
    walkLoop (fun _ => true) nodes (nodes.length + 1 + k) (astRoots nodes) [] = collectImports nodes :=
  walkLoop_fuel h (nodes.length + 1) (astRoots nodes) []
    (fun s hs => (List.mem_filter.mp hs).1) (incomp_roots h) (by rw [under_roots h]; omega) k

/-! ### against the specification -/

open PtaSpec

theorem nodup_of_nodupP : ∀ (l : List (List Nat)), nodupP l = true → l.Nodup
  | [], _ => List.nodup_nil
  | x :: xs, h => by
    simp only [nodupP, Bool.and_eq_true, Bool.not_eq_true', List.contains_eq_mem, decide_eq_false_iff_not] at h
    exact List.nodup_cons.mpr ⟨h.1, nodup_of_nodupP xs h.2⟩

theorem toSNode_stmt (n : AstNode) : (toSNode n).stmt? = n.stmt?.map toSStmt := by
  cases n with
  | mk path kind field => cases kind <;> rfl

/-- the specification's tree predicate, read on the model's node list -/
theorem astWF_of_astOK {nodes : List AstNode} (h : astOK nodes = true) : AstWF nodes := by
  simp only [astOK, treeOK, Bool.and_eq_true] at h
  obtain ⟨⟨h1, h2⟩, h3⟩ := h
  refine ⟨?_, ?_, ?_⟩
  · have := nodup_of_nodupP _ h1
    rwa [List.map_map] at this
  · intro m hm hne
    rw [List.all_eq_true] at h2
    have := h2 (toSNode m) (List.mem_map_of_mem hm)
    simp only [toSNode, Bool.or_eq_true, List.isEmpty_iff, hne, false_or, List.any_eq_true, List.mem_map,
      beq_iff_eq] at this
    obtain ⟨_, ⟨p, hp, rfl⟩, hpp⟩ := this
    exact ⟨p, hp, hpp⟩
  · intro n hn hs m hm hpre hne
    rw [List.all_eq_true] at h3
    have := h3 (toSNode n) (List.mem_map_of_mem hn)
    rw [toSNode_stmt] at this
    cases hst : n.stmt? with
    | none => rw [hst] at hs; cases hs
    | some st =>
      rw [hst] at this
      simp only [Option.map_some, Option.isNone_some, Bool.false_or, List.all_eq_true, List.mem_map,
        forall_exists_index, and_imp, forall_apply_eq_imp_iff₂] at this
      have := this m hm
      rw [toSNode_stmt] at this
      have hpre' : (toSNode n).path.isPrefixOf (toSNode m).path = true := List.isPrefixOf_iff_prefix.mpr hpre
      have hne' : ((toSNode m).path != (toSNode n).path) = true := bne_iff_ne.mpr hne
      rw [hpre', hne'] at this
      cases hm' : m.stmt? with
      | none => rfl
      | some st' => rw [hm'] at this; simp at this

theorem allImports_map (nodes : List AstNode) :
    allImports (nodes.map toSNode) = (nodes.filterMap AstNode.stmt?).map toSStmt := by
  unfold allImports
  rw [List.filterMap_map, List.map_filterMap]
  congr 1
  funext n
  simp [toSNode_stmt]

/-- C02, the walk: what `ImportConverter.convert` collects from a file's tree is, up to order and with the same
    multiplicities, every import statement of the tree -/
theorem collect_all_imports_lemma {nodes : List AstNode} (h : astOK nodes = true) :
    ((collectImports nodes).map toSStmt).Perm (allImports (nodes.map toSNode)) := by
  rw [allImports_map]
  exact (collectImports_perm (astWF_of_astOK h)).map _

/-! ### the directory-tree predicates do not look at statements -/

theorem lastName_withCollected (e : Entry) : lastName e.withCollected = lastName e := rfl

theorem relsNodup_withCollected : ∀ (es : List Entry), relsNodup (es.map Entry.withCollected) = relsNodup es
  | [] => rfl
  | e :: es => by
    simp only [List.map_cons, relsNodup, relsNodup_withCollected es, List.any_map]
    rfl

theorem treeWFFor_withCollected (excl : Str → Bool) (base : Str) (mp : List Str) (es : List Entry) :
    treeWFFor excl base mp (es.map Entry.withCollected) = treeWFFor excl base mp es := by
  simp only [treeWFFor, treeShape, treeNamesFor, relsNodup_withCollected, List.all_map, List.any_map]
  rfl

theorem mpOK_withCollected (es : List Entry) (mp : List Str) :
    mpOK (es.map Entry.withCollected) mp = mpOK es mp := by
  simp only [mpOK, List.any_map]
  rfl

end Pta.AstWalk
