/-
  PtaProofs.Lemmas.DiagramRepair — the repair of F-C13c (`DiagramRule.assert_applies` checks that every component of the
  diagram, base module prefixed, is a module of the architecture before the generated rules are applied):

  * `diagramMissing` characterised (`diagramMissing_true_iff`, `diagramMissing_false_iff`), it depends on the module SET
    only (`diagramMissing_congr`);
  * `diagramAssert` / `diagramAssertText` on a file that parses: a lookup error when a component is missing, otherwise
    the batch of generated rules as before the repair (`diagramAssert_ok`, `diagramAssert_of_missing`,
    `diagramAssert_of_noMissing`, `diagramAssert_eq_beforeRepair`, and the `Text` variants);
  * "in the domain the new check is a no-op": every component of a specification diagram whose components are nodes of
    the architecture is a node of every graph representing it (`noMissing_parsedOf`, `noMissing_of_modules`).
-/
import PtaModel.DiagramText
import Bridge.Abs
import Bridge.Diagram
namespace Pta.Repair
open Pta PtaSpec

theorem diagramMissing_true_iff (p : Parsed') (g : PGraph Str) :
    diagramMissing p g = true ↔ ∃ m ∈ p.modules, g.hasNode m = false := by
  unfold diagramMissing
  simp only [List.any_eq_true, Bool.not_eq_true']

theorem diagramMissing_false_iff (p : Parsed') (g : PGraph Str) :
    diagramMissing p g = false ↔ ∀ m ∈ p.modules, g.hasNode m = true := by
  unfold diagramMissing
  simp only [List.any_eq_false, Bool.not_eq_true', Bool.not_eq_false]

/-- the check sees the module SET only -/
theorem diagramMissing_congr (p q : Parsed') (g : PGraph Str) (h : ∀ x, x ∈ p.modules ↔ x ∈ q.modules) :
    diagramMissing p g = diagramMissing q g := by
  cases hq : diagramMissing q g with
  | false =>
    rw [diagramMissing_false_iff] at hq ⊢
    exact fun m hm => hq m ((h m).1 hm)
  | true =>
    rw [diagramMissing_true_iff] at hq ⊢
    obtain ⟨m, hm, hn⟩ := hq
    exact ⟨m, (h m).2 hm, hn⟩

/-! ### `diagramAssert` on a file that parses -/

theorem diagramAssert_ok (mt : Str → Str → Bool) (g : PGraph Str) (so : Bool) (c : Str) (base : Option Str)
    (p : Parsed') (hp : pumlParse c = .ok p) :
    diagramAssert mt (some c) base so g =
      if diagramMissing (prefixParsed p base) g then .err .lookupError
      else applyAll mt g (diagramRules so (prefixParsed p base)) := by
  unfold diagramAssert
  simp only [hp]

theorem diagramAssert_of_missing (mt : Str → Str → Bool) (g : PGraph Str) (so : Bool) (c : Str) (base : Option Str)
    (p : Parsed') (hp : pumlParse c = .ok p) (h : diagramMissing (prefixParsed p base) g = true) :
    diagramAssert mt (some c) base so g = .err .lookupError := by
  rw [diagramAssert_ok mt g so c base p hp, h]; rfl

theorem diagramAssert_of_noMissing (mt : Str → Str → Bool) (g : PGraph Str) (so : Bool) (c : Str) (base : Option Str)
    (p : Parsed') (hp : pumlParse c = .ok p) (h : diagramMissing (prefixParsed p base) g = false) :
    diagramAssert mt (some c) base so g = applyAll mt g (diagramRules so (prefixParsed p base)) := by
  rw [diagramAssert_ok mt g so c base p hp, h]; rfl

/-- a check that does not raise found no missing component -/
theorem noMissing_of_noErr (mt : Str → Str → Bool) (g : PGraph Str) (so : Bool) (c : Str) (base : Option Str)
    (p : Parsed') (hp : pumlParse c = .ok p) (hne : ∀ k, diagramAssert mt (some c) base so g ≠ .err k) :
    diagramMissing (prefixParsed p base) g = false := by
  cases h : diagramMissing (prefixParsed p base) g with
  | false => rfl
  | true => exact absurd (diagramAssert_of_missing mt g so c base p hp h) (hne _)

/-- before the repair: the batch of generated rules, whatever the components are -/
theorem diagramAssertBeforeRepair_ok (mt : Str → Str → Bool) (g : PGraph Str) (so : Bool) (c : Str) (base : Option Str)
    (p : Parsed') (hp : pumlParse c = .ok p) :
    diagramAssertBeforeRepair mt (some c) base so g = applyAll mt g (diagramRules so (prefixParsed p base)) := by
  unfold diagramAssertBeforeRepair
  simp only [hp]

/-- the repaired check and the check before the repair differ only on files that parse and draw a component that is not
    a module of the architecture -/
theorem diagramAssert_eq_beforeRepair (mt : Str → Str → Bool) (g : PGraph Str) (so : Bool) (content : Option Str)
    (base : Option Str)
    (h : ∀ c p, content = some c → pumlParse c = .ok p → diagramMissing (prefixParsed p base) g = false) :
    diagramAssert mt content base so g = diagramAssertBeforeRepair mt content base so g := by
  cases content with
  | none => rfl
  | some c =>
    cases hp : pumlParse c with
    | error k => unfold diagramAssert diagramAssertBeforeRepair; simp only [hp]
    | ok p =>
      rw [diagramAssert_of_noMissing mt g so c base p hp (h c p rfl hp), diagramAssertBeforeRepair_ok mt g so c base p hp]

/-! ### the text variant -/

theorem diagramAssertText_ok (mt : Str → Str → Bool) (g : PGraph Str) (so : Bool) (c : Str) (base : Option Str)
    (p : Parsed') (hp : pumlParse c = .ok p) :
    diagramAssertText mt (some c) base so g =
      if diagramMissing (prefixParsed p base) g then .err .lookupError
      else applyAllText mt g (diagramRules so (prefixParsed p base)) := by
  unfold diagramAssertText
  simp only [hp]

theorem diagramAssertText_of_missing (mt : Str → Str → Bool) (g : PGraph Str) (so : Bool) (c : Str) (base : Option Str)
    (p : Parsed') (hp : pumlParse c = .ok p) (h : diagramMissing (prefixParsed p base) g = true) :
    diagramAssertText mt (some c) base so g = .err .lookupError := by
  rw [diagramAssertText_ok mt g so c base p hp, h]; rfl

theorem diagramAssertText_of_noMissing (mt : Str → Str → Bool) (g : PGraph Str) (so : Bool) (c : Str) (base : Option Str)
    (p : Parsed') (hp : pumlParse c = .ok p) (h : diagramMissing (prefixParsed p base) g = false) :
    diagramAssertText mt (some c) base so g = applyAllText mt g (diagramRules so (prefixParsed p base)) := by
  rw [diagramAssertText_ok mt g so c base p hp, h]; rfl

/-! ### in the domain the new check is a no-op -/

/-- every component of the diagram is a node of the architecture: nothing is missing in a graph representing it -/
theorem noMissing_parsedOf (a : Arch) (g : PGraph Str) (hg : GraphOf a g) (D : Diagram)
    (hn : ∀ c ∈ D.components, c ∈ a.nodes) : diagramMissing (parsedOf D) g = false := by
  rw [diagramMissing_false_iff]
  intro m hm
  obtain ⟨c, hc, rfl⟩ := List.mem_map.1 (show m ∈ D.components.map render from hm)
  exact (hg.nodes _).2 ⟨c, hn c hc, rfl⟩

theorem components_of_domain (a : Arch) (D : Diagram) (h : diagramDomain a D = true) :
    ∀ c ∈ D.components, c ∈ a.nodes := by
  unfold diagramDomain at h
  simp only [Bool.and_eq_true, List.all_eq_true, List.contains_iff_mem] at h
  exact h.1.2

/-- a parse result with the module set of a diagram in the domain of `a`: nothing is missing -/
theorem noMissing_of_modules (a : Arch) (g : PGraph Str) (hg : GraphOf a g) (D : Diagram)
    (hdom : diagramDomain a D = true) (p : Parsed') (h : ∀ x, x ∈ p.modules ↔ x ∈ (parsedOf D).modules) :
    diagramMissing p g = false := by
  rw [diagramMissing_congr p (parsedOf D) g h]
  exact noMissing_parsedOf a g hg D (components_of_domain a D hdom)

theorem noMissing_of_domain (a : Arch) (g : PGraph Str) (hg : GraphOf a g) (D : Diagram)
    (hdom : diagramDomain a D = true) : diagramMissing (parsedOf D) g = false :=
  noMissing_parsedOf a g hg D (components_of_domain a D hdom)

end Pta.Repair
