/-
  PtaProofs.Lemmas.PumlBody — text-level lemmas behind Props/C06.lean (layers L2 and L4): `isInfix`,
  `splitAtLast`, `pyStrip`, `pumlBody`, `splitLines`.
-/
import Bridge.PumlRender
import PtaProofs.Lemmas.Render
namespace Pta

/-! ## `isInfix` is `List.IsInfix` -/

theorem isInfix_iff (p s : Str) : isInfix p s = true ↔ p <:+: s := by
  induction s with
  | nil =>
    simp only [isInfix, List.isEmpty_iff, List.infix_nil]
  | cons c s ih =>
    simp only [isInfix, Bool.or_eq_true, ih, startsWith_iff_prefix, List.infix_cons_iff]

theorem isInfix_false_of_infix {p s t : Str} (h : isInfix p s = false) (ht : t <:+: s) : isInfix p t = false := by
  cases h' : isInfix p t with
  | false => rfl
  | true =>
    have : isInfix p s = true := (isInfix_iff p s).2 (((isInfix_iff p t).1 h').trans ht)
    rw [h] at this; cases this

theorem startsWith_false_of_isInfix {p s : Str} (h : isInfix p s = false) : startsWith p s = false := by
  cases h' : startsWith p s with
  | false => rfl
  | true =>
    have : isInfix p s = true := (isInfix_iff p s).2 (((startsWith_iff_prefix p s).1 h').isInfix)
    rw [h] at this; cases this

theorem isInfix_cons_not_mem (c : Char) (p s : Str) (h : c ∉ s) : isInfix (c :: p) s = false := by
  cases h' : isInfix (c :: p) s with
  | false => rfl
  | true =>
    obtain ⟨a, b, hab⟩ := (isInfix_iff _ _).1 h'
    exact absurd (by rw [← hab]; simp) h

/-! ## `splitAtLast` -/

theorem splitAtLast_go_none (pat : Str) (_hp : pat ≠ []) (pre rest : Str) (best : Option (Str × Str)) (fuel : Nat)
    (hf : rest.length < fuel) (h : isInfix pat rest = false) : splitAtLast.go pat pre rest best fuel = best := by
  induction rest generalizing pre fuel with
  | nil =>
    cases fuel with
    | zero => omega
    | succ f =>
      have : startsWith pat [] = false := startsWith_false_of_isInfix h
      simp [splitAtLast.go, this]
  | cons c cs ih =>
    cases fuel with
    | zero => omega
    | succ f =>
      have h1 : startsWith pat (c :: cs) = false := startsWith_false_of_isInfix h
      have h2 : isInfix pat cs = false := isInfix_false_of_infix h (List.suffix_cons c cs).isInfix
      simp only [splitAtLast.go, h1, Bool.false_eq_true, if_false]
      exact ih (c :: pre) f (by simp at hf; omega) h2

/-- the last occurrence is found: nothing matches behind it -/
theorem splitAtLast_go_last (pat : Str) (hp : pat ≠ []) (b : Str) (hlast : isInfix pat (pat ++ b).tail = false)
    (pre x : Str) (best : Option (Str × Str)) (fuel : Nat) (hf : (x ++ (pat ++ b)).length < fuel) :
    splitAtLast.go pat pre (x ++ (pat ++ b)) best fuel = some (pre.reverse ++ x, b) := by
  induction x generalizing pre best fuel with
  | nil =>
    cases fuel with
    | zero => omega
    | succ f =>
      have h1 : startsWith pat (pat ++ b) = true := startsWith_append_self pat b
      have hd : (pat ++ b).drop pat.length = b := by simp
      cases hpb : pat ++ b with
      | nil => simp at hpb; exact absurd hpb.1 hp
      | cons c r =>
        rw [hpb] at h1 hd hlast
        simp only [List.nil_append, splitAtLast.go, h1, if_true, hd, List.append_nil]
        simp only [List.tail_cons] at hlast
        refine splitAtLast_go_none pat hp (c :: pre) r _ f ?_ hlast
        have hl : (c :: r).length < f + 1 := by simpa [hpb] using hf
        simp only [List.length_cons] at hl
        omega
  | cons c x ih =>
    cases fuel with
    | zero => omega
    | succ f =>
      simp only [List.cons_append, splitAtLast.go]
      rw [ih (c :: pre) _ f (by simp at hf ⊢; omega)]
      simp

theorem splitAtLast_last (pat : Str) (hp : pat ≠ []) (x b : Str) (hlast : isInfix pat (pat ++ b).tail = false) :
    splitAtLast pat (x ++ (pat ++ b)) = some (x, b) := by
  have := splitAtLast_go_last pat hp b hlast [] x none ((x ++ (pat ++ b)).length + 1) (Nat.lt_succ_self _)
  simpa [splitAtLast] using this

theorem splitAtLast_none (pat : Str) (hp : pat ≠ []) (s : Str) (h : isInfix pat s = false) :
    splitAtLast pat s = none :=
  splitAtLast_go_none pat hp [] s none _ (Nat.lt_succ_self _) h

/-- whatever `splitAtLast` returns is a real split of the text -/
theorem splitAtLast_go_sound (pat pre rest : Str) (best : Option (Str × Str)) (fuel : Nat) (s : Str)
    (hs : s = pre.reverse ++ rest) (hbest : ∀ a b, best = some (a, b) → s = a ++ pat ++ b)
    (a b : Str) (h : splitAtLast.go pat pre rest best fuel = some (a, b)) : s = a ++ pat ++ b := by
  induction fuel generalizing pre rest best with
  | zero => exact hbest a b (by simpa [splitAtLast.go] using h)
  | succ f ih =>
    have hbest' : ∀ a b, (if startsWith pat rest = true then some (pre.reverse, rest.drop pat.length) else best)
        = some (a, b) → s = a ++ pat ++ b := by
      intro a b hab
      split at hab
      · rename_i hsw
        obtain ⟨t, ht⟩ := (startsWith_iff_prefix _ _).1 hsw
        cases hab
        rw [hs, ← ht]; simp
      · exact hbest a b hab
    cases rest with
    | nil =>
      simp only [splitAtLast.go] at h
      exact hbest' a b h
    | cons c cs =>
      simp only [splitAtLast.go] at h
      exact ih (c :: pre) cs _ (by rw [hs]; simp) hbest' h

theorem splitAtLast_sound (pat s a b : Str) (h : splitAtLast pat s = some (a, b)) : s = a ++ pat ++ b :=
  splitAtLast_go_sound pat [] s none _ s rfl (by intro a b h; cases h) a b h

/-! ## `pyStrip` -/

def pyWs (c : Char) : Bool := isSpaceChar c || c == '\n'

theorem pyStrip_eq (s : Str) : pyStrip s = ((s.dropWhile pyWs).reverse.dropWhile pyWs).reverse := rfl

theorem dropWhile_append_stop {p : Char → Bool} (x : Str) (c : Char) (y : Str) (hc : p c = false) :
    (x ++ c :: y).dropWhile p = x.dropWhile p ++ c :: y := by
  induction x with
  | nil => simp [hc]
  | cons a x ih =>
    cases ha : p a with
    | true => simp [ha, ih]
    | false => simp [ha]

/-- stripping only touches the noise around a block that starts and ends with non-blank characters -/
theorem pyStrip_block (n1 : Str) (a : Char) (m : Str) (z : Char) (n2 : Str) (ha : pyWs a = false)
    (hz : pyWs z = false) :
    pyStrip (n1 ++ a :: (m ++ z :: n2)) =
      n1.dropWhile pyWs ++ a :: (m ++ z :: (n2.reverse.dropWhile pyWs).reverse) := by
  rw [pyStrip_eq, dropWhile_append_stop n1 a _ ha]
  have h : (n1.dropWhile pyWs ++ a :: (m ++ z :: n2)).reverse =
      n2.reverse ++ z :: (m.reverse ++ a :: (n1.dropWhile pyWs).reverse) := by simp
  rw [h, dropWhile_append_stop _ z _ hz]
  simp

theorem rstrip_prefix (n2 : Str) : (n2.reverse.dropWhile pyWs).reverse <+: n2 := by
  have h := List.dropWhile_suffix (l := n2.reverse) pyWs
  have := List.reverse_prefix.2 h
  simpa using this

theorem pyStrip_infix (s : Str) : pyStrip s <:+: s := by
  rw [pyStrip_eq]
  have h1 : (s.dropWhile pyWs).reverse.dropWhile pyWs <:+ (s.dropWhile pyWs).reverse := List.dropWhile_suffix _
  have h2 : ((s.dropWhile pyWs).reverse.dropWhile pyWs).reverse <+: s.dropWhile pyWs := by
    have := List.reverse_prefix.2 h1
    simpa using this
  exact h2.isInfix.trans (List.dropWhile_suffix (l := s) pyWs).isInfix

/-! ## `pumlBody` -/

theorem tagEnd_last (n2 : Str) (h : isInfix tagEnd n2 = false) : isInfix tagEnd (tagEnd ++ n2).tail = false := by
  simp only [tagEnd] at h
  simp [tagEnd, isInfix, startsWith, h]

theorem tagStart_last (r : Str) (h : '@' ∉ r) : isInfix tagStart (tagStart ++ r).tail = false := by
  apply isInfix_cons_not_mem
  simp only [tagStart, List.cons_append, List.tail_cons, List.nil_append, List.mem_cons, not_or]
  refine ⟨by decide, by decide, by decide, by decide, by decide, by decide, by decide, by decide, h⟩

/-- L2, general form: the body starts behind the last `@startuml` that precedes the last `@enduml` -/
theorem pumlBody_block_gen (x body n2 : Str) (hb : isInfix tagStart (tagStart ++ body).tail = false)
    (hn : isInfix tagEnd n2 = false) (hne : body ≠ []) :
    pumlBody (x ++ (tagStart ++ (body ++ (tagEnd ++ n2)))) = .ok body := by
  have h1 : splitAtLast "@enduml".toList (x ++ (tagStart ++ (body ++ (tagEnd ++ n2)))) =
      some (x ++ (tagStart ++ body), n2) := by
    rw [tag_end_eq_aux]
    have := splitAtLast_last tagEnd (by decide) (x ++ (tagStart ++ body)) n2 (tagEnd_last n2 hn)
    simpa only [List.append_assoc] using this
  have h2 : splitAtLast "@startuml".toList (x ++ (tagStart ++ body)) = some (x, body) := by
    rw [tag_start_eq_aux]
    exact splitAtLast_last tagStart (by decide) x body hb
  have h3 : body.isEmpty = false := by simpa using hne
  simp only [pumlBody, h1, h2, h3, Bool.false_eq_true, if_false]
where
  tag_end_eq_aux : "@enduml".toList = tagEnd := by decide
  tag_start_eq_aux : "@startuml".toList = tagStart := by decide

/-- L2: only the text between the tags survives -/
theorem pumlBody_block (x body n2 : Str) (hb : '@' ∉ body) (hn : isInfix tagEnd n2 = false) (hne : body ≠ []) :
    pumlBody (x ++ (tagStart ++ (body ++ (tagEnd ++ n2)))) = .ok body :=
  pumlBody_block_gen x body n2 (tagStart_last body hb) hn hne

/-- L4, on the stripped text -/
theorem pumlBody_no_end (s : Str) (h : isInfix "@enduml".toList s = false) : pumlBody s = .error .pumlParsingError := by
  have h1 := splitAtLast_none _ (by decide) s h
  simp only [pumlBody, h1]

theorem pumlBody_no_start (s : Str) (h : isInfix "@startuml".toList s = false) :
    pumlBody s = .error .pumlParsingError := by
  unfold pumlBody
  cases h1 : splitAtLast "@enduml".toList s with
  | none => rfl
  | some ab =>
    obtain ⟨a, b⟩ := ab
    have hs := splitAtLast_sound _ _ _ _ h1
    have h2 : isInfix "@startuml".toList a = false :=
      isInfix_false_of_infix h (by rw [hs, List.append_assoc]; exact (List.prefix_append a _).isInfix)
    simp only [splitAtLast_none _ (by decide) a h2]

/-! ## `splitLines` -/

theorem splitLines_go_line (cur l rest : Str) (hl : '\n' ∉ l) :
    splitLines.go cur (l ++ '\n' :: rest) = (cur.reverse ++ l) :: splitLines.go [] rest := by
  induction l generalizing cur with
  | nil => simp [splitLines.go]
  | cons c l ih =>
    have hc : (c == '\n') = false := by
      simp only [beq_eq_false_iff_ne]; intro h; exact hl (by simp [h])
    simp only [List.cons_append, splitLines.go, hc, Bool.false_eq_true, if_false]
    rw [ih (c :: cur) (fun h => hl (by simp [h]))]
    simp

theorem splitLines_go_last (cur l : Str) (hl : '\n' ∉ l) : splitLines.go cur l = [cur.reverse ++ l] := by
  induction l generalizing cur with
  | nil => simp [splitLines.go]
  | cons c l ih =>
    have hc : (c == '\n') = false := by
      simp only [beq_eq_false_iff_ne]; intro h; exact hl (by simp [h])
    simp only [splitLines.go, hc, Bool.false_eq_true, if_false]
    rw [ih (c :: cur) (fun h => hl (by simp [h]))]
    simp

theorem splitLines_line (l rest : Str) (hl : '\n' ∉ l) :
    splitLines (l ++ '\n' :: rest) = l :: splitLines rest := by
  have := splitLines_go_line [] l rest hl
  simpa [splitLines] using this

theorem splitLines_last (l : Str) (hl : '\n' ∉ l) : splitLines l = [l] := by
  have := splitLines_go_last [] l hl
  simpa [splitLines] using this

/-- the lines of a newline-joined text (plus one trailing empty line) -/
theorem splitLines_join (ls : List Str) (hls : ∀ l ∈ ls, '\n' ∉ l) :
    splitLines (joinWith ['\n'] ls ++ ['\n']) = (if ls = [] then [[]] else ls) ++ [[]] := by
  induction ls with
  | nil => decide
  | cons l ls ih =>
    cases ls with
    | nil =>
      have := splitLines_line l [] (hls l (by simp))
      simpa [joinWith, splitLines_last [] (by simp)] using this
    | cons l2 ls =>
      have h1 : joinWith ['\n'] (l :: l2 :: ls) ++ ['\n'] = l ++ '\n' :: (joinWith ['\n'] (l2 :: ls) ++ ['\n']) := by
        simp [joinWith]
      rw [h1, splitLines_line l _ (hls l (by simp)), ih (fun l hl => hls l (by simp [hl]))]
      simp

end Pta
