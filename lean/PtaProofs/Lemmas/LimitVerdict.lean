/-
  PtaProofs.Lemmas.LimitVerdict — property C09, second sentence: rules whose identifiers lie at or above the level
  limit have the same verdict on the flattened and on the full graph.
  Route: the flattened graph is the graph of the quotient architecture `truncArch (some k) a`, which is well-formed;
  C01 applies to both graphs; on the specification side truncation neither creates nor destroys a witness of
  `edges` / `others` for such rules.
-/
import Bridge.Abs
import Bridge.Quotient
import PtaProofs.Lemmas.Build
import PtaProofs.Lemmas.Semantics
namespace Pta
open PtaSpec

/-! ### removing repetitions -/

theorem mem_dedupNames (l : List Name) (x : Name) : x ∈ dedupNames l ↔ x ∈ l := by
  induction l with
  | nil => simp [dedupNames]
  | cons y ys ih =>
    unfold dedupNames
    split
    · rename_i h
      have hy : y ∈ ys := by simpa using h
      rw [ih, List.mem_cons]
      constructor
      · exact .inr
      · rintro (rfl | h) <;> assumption
    · rw [List.mem_cons, List.mem_cons, ih]

theorem nodupB_dedupNames (l : List Name) : nodupB (dedupNames l) = true := by
  induction l with
  | nil => rfl
  | cons y ys ih =>
    unfold dedupNames
    split
    · exact ih
    · rename_i h
      have hy : y ∉ ys := by simpa using h
      simp only [nodupB, Bool.and_eq_true, Bool.not_eq_true', ih, and_true]
      rw [← Bool.not_eq_true, List.contains_iff_mem, mem_dedupNames]
      exact hy

theorem mem_dedupPairs (l : List (Name × Name)) (x : Name × Name) : x ∈ dedupPairs l ↔ x ∈ l := by
  induction l with
  | nil => simp [dedupPairs]
  | cons y ys ih =>
    unfold dedupPairs
    split
    · rename_i h
      have hy : y ∈ ys := by simpa using h
      rw [ih, List.mem_cons]
      constructor
      · exact .inr
      · rintro (rfl | h) <;> assumption
    · rw [List.mem_cons, List.mem_cons, ih]

/-! ### membership in the quotient architecture -/

theorem mem_truncArch_nodes (lim : Option Nat) (a : Arch) (n : Name) :
    n ∈ (truncArch lim a).nodes ↔ ∃ m ∈ a.nodes, n = trunc lim m := by
  unfold truncArch
  simp only [mem_dedupNames, List.mem_map]
  constructor
  · rintro ⟨m, hm, rfl⟩; exact ⟨m, hm, rfl⟩
  · rintro ⟨m, hm, rfl⟩; exact ⟨m, hm, rfl⟩

theorem mem_truncArch_imports (lim : Option Nat) (a : Arch) (p : Name × Name) :
    p ∈ (truncArch lim a).imports ↔
      ∃ e ∈ a.imports, trunc lim e.1 ≠ trunc lim e.2 ∧ p = (trunc lim e.1, trunc lim e.2) := by
  unfold truncArch
  simp only [mem_dedupPairs, List.mem_filter, List.mem_map, bne_iff_ne, ne_eq]
  constructor
  · rintro ⟨⟨e, he, rfl⟩, hne⟩; exact ⟨e, he, hne, rfl⟩
  · rintro ⟨e, he, hne, rfl⟩; exact ⟨⟨e, he, rfl⟩, hne⟩

/-! ### (i) the quotient graph is the graph of the quotient architecture -/

theorem graphOf_truncArch (a : Arch) (lim : Option Nat) (g : PGraph Str) (h : QuotientOf a lim g) :
    GraphOf (truncArch lim a) g := by
  constructor
  · intro s
    rw [h.nodes]
    constructor
    · rintro ⟨n, hn, rfl⟩
      exact ⟨trunc lim n, (mem_truncArch_nodes lim a _).2 ⟨n, hn, rfl⟩, rfl⟩
    · rintro ⟨c, hc, rfl⟩
      obtain ⟨n, hn, rfl⟩ := (mem_truncArch_nodes lim a _).1 hc
      exact ⟨n, hn, rfl⟩
  · intro s x
    rw [h.hier]
    constructor
    · rintro ⟨c, hc, hl, rfl, rfl⟩
      exact ⟨trunc lim c, (mem_truncArch_nodes lim a _).2 ⟨c, hc, rfl⟩, hl, rfl, rfl⟩
    · rintro ⟨c, hc, hl, rfl, rfl⟩
      obtain ⟨n, hn, rfl⟩ := (mem_truncArch_nodes lim a _).1 hc
      exact ⟨n, hn, hl, rfl, rfl⟩
  · intro s x
    rw [h.succs]
    constructor
    · rintro ⟨e, he, hne, rfl, rfl⟩
      exact ⟨_, (mem_truncArch_imports lim a _).2 ⟨e, he, hne, rfl⟩, rfl, rfl⟩
    · rintro ⟨p, hp, rfl, rfl⟩
      obtain ⟨e, he, hne, rfl⟩ := (mem_truncArch_imports lim a _).1 hp
      exact ⟨e, he, hne, rfl, rfl⟩
  · intro s x
    rw [h.preds]
    constructor
    · rintro ⟨e, he, hne, rfl, rfl⟩
      exact ⟨_, (mem_truncArch_imports lim a _).2 ⟨e, he, hne, rfl⟩, rfl, rfl⟩
    · rintro ⟨p, hp, rfl, rfl⟩
      obtain ⟨e, he, hne, rfl⟩ := (mem_truncArch_imports lim a _).1 hp
      exact ⟨e, he, hne, rfl, rfl⟩

/-! ### truncation and the prefix order -/

theorem trunc_prefix (lim : Option Nat) (n : Name) : trunc lim n <+: n := by
  cases lim with
  | none => exact List.prefix_refl _
  | some k => exact List.take_prefix _ _

theorem trunc_fix_of_prefix (lim : Option Nat) (p n : Name) (h : p <+: trunc lim n) : trunc lim p = p := by
  cases lim with
  | none => rfl
  | some k =>
    have h1 := h.length_le
    simp only [trunc, List.length_take] at h1 ⊢
    exact List.take_of_length_le (by omega)

/-- truncation never turns a non-ancestor into a strict ancestor -/
theorem sdesc_of_sdesc_trunc (lim : Option Nat) (u v : Name) (h : sdesc (trunc lim u) (trunc lim v) = true) :
    sdesc u v = true := by
  cases lim with
  | none => exact h
  | some k =>
    rw [sdesc_iff] at h ⊢
    obtain ⟨hpre, hne⟩ := h
    simp only [trunc] at hpre hne
    have hlt : (u.take (k + 1)).length < (v.take (k + 1)).length := by
      rcases Nat.lt_or_ge (u.take (k + 1)).length (v.take (k + 1)).length with h | h
      · exact h
      · exact absurd (hpre.eq_of_length (Nat.le_antisymm hpre.length_le h)) hne
    simp only [List.length_take] at hlt
    have hu : u.take (k + 1) = u := List.take_of_length_le (by omega)
    rw [hu] at hpre hne
    refine ⟨hpre.trans (List.take_prefix _ _), ?_⟩
    rintro rfl
    exact hne hu.symm

theorem desc_take (k : Nat) (x n : Name) (hx : x.length ≤ k + 1) : desc x (n.take (k + 1)) = desc x n := by
  rw [Bool.eq_iff_iff, desc_iff, desc_iff]
  constructor
  · exact fun h => h.trans (List.take_prefix _ _)
  · intro h
    rw [List.prefix_iff_eq_take.1 h]
    exact List.take_prefix_take_left hx

theorem sdesc_take (k : Nat) (x n : Name) (hx : x.length ≤ k) : sdesc x (n.take (k + 1)) = sdesc x n := by
  rw [Bool.eq_iff_iff, sdesc_iff, sdesc_iff]
  constructor
  · rintro ⟨hpre, hne⟩
    refine ⟨hpre.trans (List.take_prefix _ _), ?_⟩
    rintro rfl
    exact hne (List.take_of_length_le (by omega)).symm
  · rintro ⟨hpre, hne⟩
    have hlt : x.length < n.length := by
      rcases Nat.lt_or_ge x.length n.length with h | h
      · exact h
      · exact absurd (hpre.eq_of_length (Nat.le_antisymm hpre.length_le h)) hne
    refine ⟨?_, ?_⟩
    · rw [List.prefix_iff_eq_take.1 hpre]
      exact List.take_prefix_take_left (by omega)
    · intro h
      have := congrArg List.length h
      simp only [List.length_take] at this
      omega

/-! ### filters at or above the limit do not see the truncation -/

theorem above_id_length (k : Nat) (f : SFilter) (h : filterAbove k f = true) : f.id.length ≤ k + 1 := by
  cases f with
  | named x => simpa [filterAbove, SFilter.id] using h
  | subOf x =>
    have : x.length ≤ k := by simpa [filterAbove] using h
    simp only [SFilter.id]; omega

theorem mem_trunc (k : Nat) (f : SFilter) (h : filterAbove k f = true) (n : Name) :
    f.mem (trunc (some k) n) = f.mem n := by
  cases f with
  | named x => exact desc_take k x n (by simpa [filterAbove] using h)
  | subOf x => exact sdesc_take k x n (by simpa [filterAbove] using h)

theorem desc_id_trunc (k : Nat) (f : SFilter) (h : filterAbove k f = true) (n : Name) :
    desc f.id (trunc (some k) n) = desc f.id n :=
  desc_take k f.id n (above_id_length k f h)

theorem desc_id_of_mem (f : SFilter) (n : Name) (h : f.mem n = true) : desc f.id n = true := by
  cases f with
  | named x => exact h
  | subOf x =>
    simp only [SFilter.mem, sdesc, Bool.and_eq_true] at h
    exact h.1

/-- two modules that collapse under truncation lie in the same sub trees above the limit -/
theorem desc_id_of_collapse (k : Nat) (f : SFilter) (h : filterAbove k f = true) (u v : Name)
    (hu : f.mem u = true) (hc : trunc (some k) u = trunc (some k) v) : desc f.id v = true := by
  rw [← mem_trunc k f h, hc, mem_trunc k f h] at hu
  exact desc_id_of_mem f v hu

theorem related_of_common (x y n : Name) (hx : desc x n = true) (hy : desc y n = true) : related x y = true := by
  rw [desc_iff] at hx hy
  unfold related
  rw [Bool.or_eq_true, desc_iff, desc_iff]
  exact List.prefix_or_prefix_of_prefix hx hy

/-! ### (iii) `edges` and `others` of the quotient architecture -/

theorem isEmpty_congr {α β : Type} (l₁ : List α) (l₂ : List β) (h : (∃ x, x ∈ l₁) ↔ (∃ y, y ∈ l₂)) :
    l₁.isEmpty = l₂.isEmpty := by
  cases l₁ with
  | nil =>
    cases l₂ with
    | nil => rfl
    | cons y ys => exact absurd (h.2 ⟨y, List.mem_cons_self⟩) (by simp)
  | cons x xs =>
    cases l₂ with
    | nil => exact absurd (h.1 ⟨x, List.mem_cons_self⟩) (by simp)
    | cons y ys => rfl

theorem edges_trunc (k : Nat) (a : Arch) (dir : Bool) (s o : SFilter) (hs : filterAbove k s = true)
    (ho : filterAbove k o = true) (hso : related s.id o.id = false) :
    (edges (truncArch (some k) a) dir s o).isEmpty = (edges a dir s o).isEmpty := by
  apply isEmpty_congr
  unfold edges
  simp only [List.mem_filter, mem_truncArch_imports]
  constructor
  · rintro ⟨p, ⟨e, he, _, rfl⟩, hp⟩
    refine ⟨e, he, ?_⟩
    simpa only [mem_trunc k s hs, mem_trunc k o ho] using hp
  · rintro ⟨e, he, hp⟩
    refine ⟨_, ⟨e, he, ?_, rfl⟩, ?_⟩
    · intro hc
      cases dir with
      | true =>
        simp only [if_true, Bool.and_eq_true] at hp
        have h1 := desc_id_of_collapse k s hs e.1 e.2 hp.1 hc
        have h2 := desc_id_of_mem o e.2 hp.2
        rw [related_of_common _ _ _ h1 h2] at hso
        cases hso
      | false =>
        simp only [Bool.false_eq_true, if_false, Bool.and_eq_true] at hp
        have h1 := desc_id_of_collapse k o ho e.1 e.2 hp.1 hc
        have h2 := desc_id_of_mem s e.2 hp.2
        rw [related_of_common _ _ _ h2 h1] at hso
        cases hso
    · simpa only [mem_trunc k s hs, mem_trunc k o ho] using hp

theorem all_congr_mem {α : Type} (l : List α) (p q : α → Bool) (h : ∀ x ∈ l, p x = q x) : l.all p = l.all q := by
  induction l with
  | nil => rfl
  | cons x xs ih =>
    simp only [List.all_cons, h x List.mem_cons_self, ih (fun y hy => h y (List.mem_cons_of_mem _ hy))]

theorem others_trunc (k : Nat) (a : Arch) (dir : Bool) (s : SFilter) (os : List SFilter) (hs : filterAbove k s = true)
    (hos : ∀ o ∈ os, filterAbove k o = true) :
    (others (truncArch (some k) a) dir s os).isEmpty = (others a dir s os).isEmpty := by
  apply isEmpty_congr
  unfold others
  simp only [List.mem_filter, mem_truncArch_imports]
  have hall : ∀ n, (os.all fun o => !o.mem (trunc (some k) n)) = os.all fun o => !o.mem n :=
    fun n => all_congr_mem os _ _ (fun o ho => by rw [mem_trunc k o (hos o ho)])
  constructor
  · rintro ⟨p, ⟨e, he, _, rfl⟩, hp⟩
    refine ⟨e, he, ?_⟩
    cases dir <;> simpa only [mem_trunc k s hs, desc_id_trunc k s hs, hall, if_true, if_false, Bool.false_eq_true] using hp
  · rintro ⟨e, he, hp⟩
    refine ⟨_, ⟨e, he, ?_, rfl⟩, ?_⟩
    · intro hc
      cases dir with
      | true =>
        simp only [if_true, Bool.and_eq_true, Bool.not_eq_true'] at hp
        have h1 := desc_id_of_collapse k s hs e.1 e.2 hp.1.1 hc
        rw [hp.1.2] at h1
        cases h1
      | false =>
        simp only [Bool.false_eq_true, if_false, Bool.and_eq_true, Bool.not_eq_true'] at hp
        have h1 := desc_id_of_collapse k s hs e.2 e.1 hp.1.1 hc.symm
        rw [hp.1.2] at h1
        cases h1
    · cases dir <;> simpa only [mem_trunc k s hs, desc_id_trunc k s hs, hall, if_true, if_false, Bool.false_eq_true] using hp

/-! ### (ii) the quotient architecture is well-formed -/

theorem truncArch_wf (lim : Option Nat) (a : Arch) (hwf : a.wf = true) : (truncArch lim a).wf = true := by
  have hw := archWF_of_wf a hwf
  unfold Arch.wf
  simp only [Bool.and_eq_true, List.all_eq_true, List.contains_iff_mem, bne_iff_ne, ne_eq, Bool.not_eq_true']
  refine ⟨⟨⟨nodupB_dedupNames _, ?_⟩, ?_⟩, ?_⟩
  · intro n hn
    obtain ⟨m, hm, rfl⟩ := (mem_truncArch_nodes lim a n).1 hn
    exact BuildNames.nameWF_trunc lim m (hw.nwf m hm)
  · intro n hn p hp
    obtain ⟨m, hm, rfl⟩ := (mem_truncArch_nodes lim a n).1 hn
    obtain ⟨j, h0, hj, rfl⟩ := (BuildNames.mem_properPrefixes _ _).1 hp
    have hpre : (trunc lim m).take j <+: trunc lim m := List.take_prefix _ _
    have hne : (trunc lim m).take j ≠ [] := by
      intro h
      have := congrArg List.length h
      simp only [List.length_take, List.length_nil] at this
      omega
    exact (mem_truncArch_nodes lim a _).2
      ⟨_, hw.pref m hm _ hne (hpre.trans (trunc_prefix lim m)), (trunc_fix_of_prefix lim _ m hpre).symm⟩
  · intro p hp
    obtain ⟨e, he, hne, rfl⟩ := (mem_truncArch_imports lim a p).1 hp
    refine ⟨⟨⟨?_, ?_⟩, hne⟩, ?_⟩
    · exact (mem_truncArch_nodes lim a _).2 ⟨e.1, hw.impL e he, rfl⟩
    · exact (mem_truncArch_nodes lim a _).2 ⟨e.2, hw.impR e he, rfl⟩
    · cases h : sdesc (trunc lim e.1) (trunc lim e.2) with
      | false => rfl
      | true =>
        have := sdesc_of_sdesc_trunc lim e.1 e.2 h
        rw [hw.noAnc e he] at this
        cases this

/-! ### strictness: a subject and an object are unrelated -/

theorem pw_append_unrelated (l₁ l₂ : List Name) (h : pairwiseUnrelated (l₁ ++ l₂) = true) :
    ∀ x ∈ l₁, ∀ y ∈ l₂, related x y = false := by
  induction l₁ with
  | nil => simp
  | cons z zs ih =>
    simp only [List.cons_append, pairwiseUnrelated, Bool.and_eq_true, List.all_eq_true, Bool.not_eq_true'] at h
    intro x hx y hy
    rcases List.mem_cons.mp hx with rfl | hx
    · exact h.1 y (List.mem_append_right _ hy)
    · exact ih h.2 x hx y hy

theorem strict_subject_object (r : RuleSpec) (hstrict : r.strict = true) (hany : r.anything = false) :
    ∀ s ∈ r.subjects, ∀ o ∈ r.effObjects, related s.id o.id = false := by
  unfold RuleSpec.strict at hstrict
  unfold RuleSpec.effObjects
  rw [hany] at hstrict ⊢
  simp only [Bool.false_eq_true, if_false] at hstrict ⊢
  intro s hs o ho
  exact pw_append_unrelated _ _ hstrict s.id (List.mem_map_of_mem hs) o.id (List.mem_map_of_mem ho)

/-! ### the specification verdict does not see the truncation -/

theorem verdict_trunc (k : Nat) (a : Arch) (r : RuleSpec) (hstrict : r.strict = true) (habove : ruleAbove k r = true)
    (hany : r.anything = true → r.verb = .shouldNot) :
    verdict (truncArch (some k) a) r = verdict a r := by
  unfold ruleAbove at habove
  simp only [List.all_eq_true, List.mem_append] at habove
  have hO : ∀ s ∈ r.subjects,
      (others (truncArch (some k) a) r.importDir s r.effObjects).isEmpty = (others a r.importDir s r.effObjects).isEmpty :=
    fun s hs => others_trunc k a r.importDir s r.effObjects (habove s (.inl hs)) (fun o ho => habove o (.inr ho))
  have hON : (r.subjects.all fun s => (others (truncArch (some k) a) r.importDir s r.effObjects).isEmpty) =
      r.subjects.all fun s => (others a r.importDir s r.effObjects).isEmpty :=
    all_congr_mem _ _ _ hO
  have hOA : (r.subjects.all fun s => !(others (truncArch (some k) a) r.importDir s r.effObjects).isEmpty) =
      r.subjects.all fun s => !(others a r.importDir s r.effObjects).isEmpty :=
    all_congr_mem _ _ _ (fun s hs => by rw [hO s hs])
  cases hA : r.anything with
  | true =>
    have hv := hany hA
    unfold verdict
    simp only [RuleSpec.effExc, hA, hv, Bool.true_or]
    exact hON
  | false =>
    have hE : ∀ s ∈ r.subjects, ∀ o ∈ r.effObjects,
        (edges (truncArch (some k) a) r.importDir s o).isEmpty = (edges a r.importDir s o).isEmpty :=
      fun s hs o ho => edges_trunc k a r.importDir s o (habove s (.inl hs)) (habove o (.inr ho))
        (strict_subject_object r hstrict hA s hs o ho)
    have hEN : (r.subjects.all fun s => r.effObjects.all fun o => (edges (truncArch (some k) a) r.importDir s o).isEmpty) =
        r.subjects.all fun s => r.effObjects.all fun o => (edges a r.importDir s o).isEmpty :=
      all_congr_mem _ _ _ (fun s hs => all_congr_mem _ _ _ (fun o ho => hE s hs o ho))
    have hEA : (r.subjects.all fun s => r.effObjects.all fun o => !(edges (truncArch (some k) a) r.importDir s o).isEmpty) =
        r.subjects.all fun s => r.effObjects.all fun o => !(edges a r.importDir s o).isEmpty :=
      all_congr_mem _ _ _ (fun s hs => all_congr_mem _ _ _ (fun o ho => by rw [hE s hs o ho]))
    unfold verdict
    simp only [hON, hOA, hEN, hEA]

/-- names at or above the limit survive the truncation -/
theorem namesIn_trunc (k : Nat) (a : Arch) (r : RuleSpec) (hnames : r.namesIn a = true) (habove : ruleAbove k r = true) :
    r.namesIn (truncArch (some k) a) = true := by
  unfold RuleSpec.namesIn at hnames ⊢
  unfold ruleAbove at habove
  simp only [List.all_eq_true, List.contains_iff_mem] at hnames habove ⊢
  intro f hf
  refine (mem_truncArch_nodes _ a _).2 ⟨f.id, hnames f hf, ?_⟩
  exact (List.take_of_length_le (above_id_length k f (habove f hf))).symm

/-! ### C09, second sentence -/

theorem verdict_preserved_lemma (mt : Str → Str → Bool) (a : Arch) (hwf : a.wf = true) (k : Nat)
    (r : RuleSpec) (hstrict : r.strict = true) (hnames : r.namesIn a = true)
    (hs : r.subjects ≠ []) (ho : r.anything = true ∨ r.objects ≠ [])
    (hany : r.anything = true → r.verb = .shouldNot)
    (habove : ruleAbove k r = true) :
    verdictOf mt (archGraphLim a (some k)) (compile r) = verdictOf mt (archGraph a) (compile r) := by
  rw [verdict_spec_of_graph_lemma mt (truncArch (some k) a) (archGraphLim a (some k))
        (graphOf_truncArch a (some k) _ (buildGraph_quotient a hwf (some k))) (truncArch_wf (some k) a hwf)
        r hstrict (namesIn_trunc k a r hnames habove) hs ho hany,
      verdict_spec_of_graph_lemma mt a (archGraph a) (archGraph_graphOf a hwf) hwf r hstrict hnames hs ho hany,
      verdict_trunc k a r hstrict habove hany]

/-- the flattened verdict is the documented semantics on the full architecture -/
theorem verdict_lim_spec_lemma (mt : Str → Str → Bool) (a : Arch) (hwf : a.wf = true) (k : Nat)
    (r : RuleSpec) (hstrict : r.strict = true) (hnames : r.namesIn a = true)
    (hs : r.subjects ≠ []) (ho : r.anything = true ∨ r.objects ≠ [])
    (hany : r.anything = true → r.verb = .shouldNot)
    (habove : ruleAbove k r = true) :
    verdictOf mt (archGraphLim a (some k)) (compile r) = VClass.ofBool (verdict a r) := by
  rw [verdict_preserved_lemma mt a hwf k r hstrict hnames hs ho hany habove]
  exact verdict_spec_of_graph_lemma mt a (archGraph a) (archGraph_graphOf a hwf) hwf r hstrict hnames hs ho hany

end Pta
