/-
  PtaProofs.Lemmas.RenameNames — every module name occurring in a report is a well-formed dotted name (so that
  `renStr ρ` acts on reports as the plain component-wise renaming). Proved by "parametricity": the model commutes
  with the injective map that fixes exactly the well-formed dotted names.
-/
import Bridge.Abs
import Bridge.Rename
import PtaProofs.Lemmas.RenameModel
import PtaProofs.Lemmas.RenameBuild
namespace Pta.RM
open Pta PtaSpec

/-- fixes exactly the well-formed dotted names -/
def fixW (s : Str) : Str := if nameWF (splitDots s) then s else '.' :: s

theorem splitDots_dot_cons (s : Str) : nameWF (splitDots ('.' :: s)) = false := by
  have hne := splitDots_ne_nil s
  cases h : splitDots s with
  | nil => exact absurd h hne
  | cons x t => simp [splitDots, h, nameWF, compWF]

theorem fixW_eq_iff (s : Str) : fixW s = s ↔ nameWF (splitDots s) = true := by
  unfold fixW
  cases h : nameWF (splitDots s)
  · simp only [Bool.false_eq_true, if_false, iff_false]
    intro e
    have := congrArg List.length e
    simp at this
  · simp

theorem fixW_inj : ∀ x y, fixW x = fixW y → x = y := by
  intro x y h
  unfold fixW at h
  cases hx : nameWF (splitDots x) <;> cases hy : nameWF (splitDots y) <;>
    simp only [hx, hy, if_true, if_false, Bool.false_eq_true] at h
  · exact (List.cons.inj h).2
  · rw [← h, splitDots_dot_cons] at hy; cases hy
  · rw [h, splitDots_dot_cons] at hx; cases hx
  · exact h

theorem fixW_render (n : Name) (hn : nameWF n = true) : fixW (render n) = render n :=
  (fixW_eq_iff _).2 (by rw [splitDots_render n hn]; exact hn)

theorem map_fix {α : Type} (f : α → α) (l : List α) (h : ∀ x ∈ l, f x = x) : l.map f = l := by
  induction l with
  | nil => rfl
  | cons x xs ih => rw [List.map_cons, h x (by simp), ih (fun y hy => h y (by simp [hy]))]

theorem fix_of_map {α : Type} (f : α → α) (l : List α) (h : l.map f = l) : ∀ x ∈ l, f x = x := by
  induction l with
  | nil => intro x hx; cases hx
  | cons y ys ih =>
    simp only [List.map_cons, List.cons.injEq] at h
    intro x hx
    rcases List.mem_cons.1 hx with rfl | hx
    · exact h.1
    · exact ih h.2 x hx

theorem fixW_parents (n : Name) (hn : nameWF n = true) : (parentModules (render n)).map fixW = parentModules (render n) := by
  apply map_fix
  intro s hs
  rw [parentModules_render n hn] at hs
  obtain ⟨p, hp, rfl⟩ := List.mem_map.1 hs
  exact fixW_render p (nameWF_properPrefix hn hp)

theorem archGraph_fix (a : Arch) (hwf : a.wf = true) : mapGraph fixW (archGraph a) = archGraph a := by
  unfold archGraph
  rw [← buildGraph_map fixW fixW_inj]
  · congr 1
    · apply map_fix
      intro s hs
      obtain ⟨n, hn, rfl⟩ := List.mem_map.1 hs
      exact fixW_render n (BuildNames.wf_nodes a hwf n hn)
    · apply map_fix
      intro i hi
      obtain ⟨e, he, rfl⟩ := List.mem_map.1 hi
      obtain ⟨h1, h2, _⟩ := BuildNames.wf_import a hwf e he
      have w1 := BuildNames.wf_nodes a hwf _ h1
      have w2 := BuildNames.wf_nodes a hwf _ h2
      simp only [mapImp, absImport, fixW_render _ w1, fixW_render _ w2, fixW_parents _ w2]
  · intro m hm
    obtain ⟨n, hn, rfl⟩ := List.mem_map.1 hm
    have w := BuildNames.wf_nodes a hwf n hn
    rw [fixW_render n w, fixW_parents n w]
  · intro i hi
    obtain ⟨e, he, rfl⟩ := List.mem_map.1 hi
    obtain ⟨h1, _⟩ := BuildNames.wf_import a hwf e he
    have w1 := BuildNames.wf_nodes a hwf _ h1
    show parentModules (fixW (render e.1)) = (parentModules (render e.1)).map fixW
    rw [fixW_render _ w1, fixW_parents _ w1]

theorem compile_fix (r : RuleSpec) (hr : ruleWF r = true) : (compile r).mapId fixW = compile r := by
  obtain ⟨hs, ho⟩ := (ruleWF_iff r).1 hr
  have hf : ∀ fs : List SFilter, (∀ f ∈ fs, nameWF f.id = true) →
      (fs.map compileFilter).map (Filter.mapId fixW) = fs.map compileFilter := by
    intro fs h
    apply map_fix
    intro F hF
    obtain ⟨f, hf, rfl⟩ := List.mem_map.1 hF
    cases f with
    | named x => show Filter.name _ = Filter.name _; rw [fixW_render x (h _ hf)]
    | subOf x => show Filter.parent _ = Filter.parent _; rw [fixW_render x (h _ hf)]
  obtain ⟨verb, dir, exc, subjects, objects, anything⟩ := r
  simp only at hs ho
  cases anything
  · simp only [compile, RuleState.mapId, RuleConfig.mapId, Option.map_some, hf _ hs, Bool.false_eq_true, if_false,
      hf _ (ho rfl), List.map_nil]
  · simp only [compile, RuleState.mapId, RuleConfig.mapId, Option.map_some, hf _ hs, if_true, Option.map_none, List.map_nil]

theorem compile_subOK_fix (r : RuleSpec) (hr : ruleWF r = true) : cfgSubOK fixW (compile r).cfg := by
  obtain ⟨hs, _⟩ := (ruleWF_iff r).1 hr
  intro ss hss f hf f' hf'
  simp only [compile, Option.some.injEq] at hss
  subst hss
  obtain ⟨f0, h0, rfl⟩ := List.mem_map.1 hf
  obtain ⟨f1, h1, rfl⟩ := List.mem_map.1 hf'
  have e0 : (compileFilter f0).id = render f0.id := by cases f0 <;> rfl
  have e1 : (compileFilter f1).id = render f1.id := by cases f1 <;> rfl
  rw [e0, e1, fixW_render _ (hs f0 h0), fixW_render _ (hs f1 h1)]

/-! ### names of a verdict -/

theorem item_fix (φ : Str → Str) (i : Item) (h : i.mapId φ = i) : ∀ s ∈ i.names, φ s = s := by
  cases i with
  | imp u v b =>
    simp only [Item.mapId, Item.imp.injEq, and_true] at h
    intro s hs
    simp only [Item.names, List.mem_cons, List.not_mem_nil, or_false] at hs
    rcases hs with rfl | rfl
    · exact h.1
    · exact h.2
  | miss any m os b =>
    simp only [Item.mapId, Item.miss.injEq, true_and, and_true] at h
    intro s hs
    simp only [Item.names, List.mem_cons, List.mem_map] at hs
    rcases hs with rfl | ⟨o, ho, rfl⟩
    · exact congrArg Mod.id h.1
    · exact congrArg Mod.id (fix_of_map _ _ h.2 o ho)

theorem verdict_fix (φ : Str → Str) (v : Verdict) (h : v.mapId φ = v) : ∀ s ∈ v.names, φ s = s := by
  cases v with
  | pass => intro s hs; cases hs
  | err k => intro s hs; cases hs
  | fail items =>
    simp only [Verdict.mapId, Verdict.fail.injEq] at h
    intro s hs
    obtain ⟨i, hi, hsi⟩ := List.mem_flatMap.1 hs
    exact item_fix φ i (fix_of_map _ _ h i hi) s hsi

theorem item_congr (φ ψ : Str → Str) (i : Item) (h : ∀ s ∈ i.names, φ s = ψ s) : i.mapId φ = i.mapId ψ := by
  cases i with
  | imp u v b =>
    simp only [Item.names, List.mem_cons, List.not_mem_nil, or_false] at h
    simp only [Item.mapId, h u (Or.inl rfl), h v (Or.inr rfl)]
  | miss any m os b =>
    simp only [Item.names, List.mem_cons, List.mem_map] at h
    simp only [Item.mapId, Mod.mapId, h m.id (Or.inl rfl), Item.miss.injEq, true_and, and_true]
    apply List.map_congr_left
    intro o ho
    simp only [Mod.mapId, h o.id (Or.inr ⟨o, ho, rfl⟩)]

theorem verdict_congr (φ ψ : Str → Str) (v : Verdict) (h : ∀ s ∈ v.names, φ s = ψ s) : v.mapId φ = v.mapId ψ := by
  cases v with
  | pass => rfl
  | err k => rfl
  | fail items =>
    simp only [Verdict.mapId, Verdict.fail.injEq]
    apply List.map_congr_left
    intro i hi
    exact item_congr φ ψ i (fun s hs => h s (List.mem_flatMap.2 ⟨i, hi, hs⟩))

/-- every module name in a report is a well-formed dotted name -/
theorem report_names_wf_lemma (mt : Str → Str → Bool) (a : Arch) (hwf : a.wf = true) (r : RuleSpec) (hr : ruleWF r = true) :
    ∀ s ∈ (assertApplies mt (compile r) (archGraph a)).2.names, nameWF (splitDots s) = true := by
  have h := assertApplies_map fixW fixW_inj mt (archGraph a) (compile r) (compile_noRegex r) (compile_subOK_fix r hr)
  rw [compile_fix r hr, archGraph_fix a hwf] at h
  have h2 := congrArg Prod.snd h
  simp only at h2
  intro s hs
  exact (fixW_eq_iff s).1 (verdict_fix fixW _ h2.symm s hs)

/-- Target A with the plain component-wise renaming `render ∘ renName ρ ∘ splitDots` of report items -/
theorem model_report_ren_plain_lemma (mt : Str → Str → Bool) (ρ : Comp → Comp) (hρ : GoodRen ρ) (a : Arch) (hwf : a.wf = true)
    (r : RuleSpec) (hr : ruleWF r = true) :
    (assertApplies mt (compile (renRule ρ r)) (archGraph (renArch ρ a))).2 =
      (assertApplies mt (compile r) (archGraph a)).2.mapId (renDotted ρ) := by
  rw [model_report_ren_lemma mt ρ hρ a hwf r hr]
  apply verdict_congr
  intro s hs
  simp only [renStr, renDotted, report_names_wf_lemma mt a hwf r hr s hs, if_true]

theorem atoms_mapId (φ : Str → Str) (i : Item) : (i.mapId φ).atoms = i.atoms.map (Atom.mapId φ) := by
  cases i with
  | imp u v b => rfl
  | miss any m os b => simp only [Item.mapId, Item.atoms, List.map_map, Function.comp_def, Atom.mapId]

/-- the reported atoms of the renamed run are the renamed atoms of the original run -/
theorem model_atoms_ren_lemma (mt : Str → Str → Bool) (ρ : Comp → Comp) (hρ : GoodRen ρ) (a : Arch) (hwf : a.wf = true)
    (r : RuleSpec) (hr : ruleWF r = true) (items : List Item)
    (h : (assertApplies mt (compile r) (archGraph a)).2 = .fail items) :
    ∃ items', (assertApplies mt (compile (renRule ρ r)) (archGraph (renArch ρ a))).2 = .fail items' ∧
      items'.flatMap Item.atoms = (items.flatMap Item.atoms).map (Atom.mapId (renDotted ρ)) := by
  refine ⟨items.map (Item.mapId (renDotted ρ)), ?_, ?_⟩
  · rw [model_report_ren_plain_lemma mt ρ hρ a hwf r hr, h]; rfl
  · simp only [List.flatMap_map, List.map_flatMap, atoms_mapId]

end Pta.RM
