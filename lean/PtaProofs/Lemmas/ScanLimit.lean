/-
  PtaProofs.Lemmas.ScanLimit — property C09 at the scan entry point: `generateGraph` with `level_limit = k` against
  `generateGraph` without a limit.  The two runs hand the SAME module list and the SAME import records to the graph
  constructor (only the limit differs), so everything follows from the exact characterisation of `buildGraph`
  for arbitrary strings (`ExtBuild.buildGraph_char`).

  * nodes and hierarchy edges of the limited graph are exactly the flattened nodes / hierarchy edges of the full graph;
  * import edges: every flattened import edge of the full graph (ends distinct, not landing on a parent→child pair)
    is an import edge of the limited graph, AND CONVERSELY: since the repair of `_initialise` (`skipImportEdge`: with
    a limit the import edge is only attempted between KNOWN modules, `knownModules` = the nodes of the full graph) a
    dangling import (importee not a node of the full graph) no longer reappears after truncation;
  * a flattened import edge lands on a parent→child pair exactly when the importer has as many components as the
    shifted limit and the importee lies at least two levels below it in the importer's own subtree.
-/
import Bridge.Abs
import Bridge.ExtAbs
import Bridge.ScanLimit
import PtaProofs.Lemmas.ExtNames
import PtaProofs.Lemmas.ExtBuild
import PtaProofs.Lemmas.ExtScan
namespace Pta
namespace ScanLimit
open ExtNames ExtBuild ExtScan PtaSpec

/-! ### raw-string facts -/

theorem isStrictSub_iff (p n : Str) : isStrictSub p n = true ↔ splitDots p <+: splitDots n ∧ p ≠ n := by
  constructor
  · intro h
    unfold isStrictSub at h
    rw [startsWith_iff_prefix] at h
    obtain ⟨r, hr⟩ := h
    constructor
    · rw [← hr, List.append_assoc, List.singleton_append, splitDots_append]
      exact List.prefix_append _ _
    · intro he
      have := congrArg List.length hr
      rw [he] at this
      simp at this
  · rintro ⟨h, hne⟩
    have := (isModuleOrSub_iff p n).2 h
    unfold isModuleOrSub at this
    simp only [Bool.or_eq_true, beq_iff_eq] at this
    rcases this with h1 | h1
    · exact absurd h1.symm hne
    · exact h1

theorem isStrictSub_iff_chain (p n : Str) : isStrictSub p n = true ↔ p ∈ chain n ∧ p ≠ n := by
  rw [isStrictSub_iff, mem_chain]

theorem isHierPair_iff (s e : Str) : isHierPair s e = true ↔ hierPair s e := by
  unfold isHierPair
  simp only [Bool.and_eq_true, beq_iff_eq]
  constructor
  · rintro ⟨h1, h2⟩
    unfold isStrictSub at h1
    rw [startsWith_iff_prefix] at h1
    obtain ⟨r, hr⟩ := h1
    rw [hierPair_iff]
    have hs : splitDots e = splitDots s ++ splitDots r := by
      rw [← hr, List.append_assoc, List.singleton_append, splitDots_append]
    rw [hs, List.length_append] at h2
    have h1 : (splitDots r).length = 1 := by omega
    obtain ⟨t, ht⟩ := List.length_eq_one_iff.1 h1
    exact ⟨t, by rw [hs, ht]⟩
  · intro h
    obtain ⟨t, ht⟩ := (hierPair_iff s e).1 h
    refine ⟨?_, by rw [ht]; simp⟩
    obtain ⟨t', -, rfl⟩ := h
    unfold isStrictSub
    rw [startsWith_iff_prefix]
    exact ⟨t', by simp⟩

/-- a flattened pair lands on a parent→child pair exactly when the first name has `j` components (so it sits one
    level above the cut, untouched) and the second lies strictly below it (then at least two levels below, as the
    pair itself is not a parent→child pair) -/
theorem collision_iff (j : Nat) (u v : Str) (hnp : ¬ hierPair u v) :
    hierPair (flattenNode (some j) u) (flattenNode (some j) v) ↔
      isStrictSub u v = true ∧ (splitDots u).length = j := by
  rw [hierPair_iff, isStrictSub_iff, splitDots_flatten, splitDots_flatten]
  rw [hierPair_iff] at hnp
  constructor
  · rintro ⟨t, ht⟩
    have hl := congrArg List.length ht
    simp only [List.length_take, List.length_append, List.length_singleton] at hl
    have hU : (splitDots u).length ≤ j := by omega
    rw [List.take_of_length_le (by omega : (splitDots u).length ≤ j + 1)] at ht
    have hpre : splitDots u <+: splitDots v := by
      have h1 : splitDots u <+: (splitDots v).take (j + 1) := by rw [ht]; exact List.prefix_append _ _
      exact h1.trans (List.take_prefix _ _)
    by_cases hV : (splitDots v).length ≤ j + 1
    · exfalso
      rw [List.take_of_length_le hV] at ht
      exact hnp ⟨t, ht⟩
    · refine ⟨⟨hpre, ?_⟩, by omega⟩
      rintro rfl
      omega
  · rintro ⟨⟨⟨r, hr⟩, hne⟩, hj⟩
    have hr0 : r ≠ [] := by
      rintro rfl
      rw [List.append_nil] at hr
      exact hne (splitDots_injective hr)
    rw [List.take_of_length_le (by omega : (splitDots u).length ≤ j + 1), ← hr, List.take_append, hj]
    simp only [Nat.add_sub_cancel_left]
    rw [List.take_of_length_le (by omega : (splitDots u).length ≤ j + 1)]
    cases r with
    | nil => exact absurd rfl hr0
    | cons t r' => exact ⟨t, by simp⟩

/-! ### one constructor, two limits -/

theorem nodeOf_flatten (L : Option Nat) (M : List Str) (n : Str) (h : NodeOf none M n) :
    NodeOf L M (flattenNode L n) := by
  obtain ⟨m, hm, hc⟩ := h
  exact ⟨m, hm, flatten_chain_mono L hc⟩

theorem nodeOf_unflatten (L : Option Nat) (M : List Str) (s : Str) (h : NodeOf L M s) :
    NodeOf none M s ∧ flattenNode L s = s := by
  obtain ⟨m, hm, hc⟩ := h
  exact ⟨⟨m, hm, chain_trans hc (flatten_mem_chain L m)⟩, flatten_short L s m hc⟩

/-- flattening a parent→child pair gives a parent→child pair or collapses it -/
theorem hierPair_flatten (L : Option Nat) (u v : Str) (hp : hierPair u v)
    (hne : flattenNode L u ≠ flattenNode L v) : hierPair (flattenNode L u) (flattenNode L v) :=
  ((flatten_pairs_iff L v _ _).1
    ⟨(u, v), (mem_consecutive_chain_iff v u v).2 ⟨hp, self_mem_chain v⟩, rfl, rfl, hne⟩).1

/-- the graph built with limit `L` against the graph built without limit from the same lists -/
theorem build_quotient (M : List Str) (R : List ImportRec) (L : Option Nat)
    (h0 : ∀ i ∈ R, NodeOf none M i.importer ∧ i.importeeParents = parentModules i.importee) :
    (∀ s, s ∈ (buildGraph M R L).nodes ↔ ∃ n ∈ (buildGraph M R none).nodes, s = flattenNode L n) ∧
    (∀ a b, (a, b) ∈ (buildGraph M R L).hierPairs ↔
      ∃ u v, (u, v) ∈ (buildGraph M R none).hierPairs ∧ a = flattenNode L u ∧ b = flattenNode L v ∧ a ≠ b) ∧
    (∀ a b, (a, b) ∈ (buildGraph M R L).importPairs ↔
      a ≠ b ∧ ¬ hierPair a b ∧ a ∈ (buildGraph M R L).nodes ∧ b ∈ (buildGraph M R L).nodes ∧
      ∃ i ∈ R, i.importee ∈ (buildGraph M R none).nodes ∧ a = flattenNode L i.importer ∧ b = flattenNode L i.importee) ∧
    (∀ a b, (a ≠ b ∧ ¬ hierPair a b ∧
        ∃ u v, (u, v) ∈ (buildGraph M R none).importPairs ∧ a = flattenNode L u ∧ b = flattenNode L v) →
      (a, b) ∈ (buildGraph M R L).importPairs) ∧
    (∀ a b, (a, b) ∈ (buildGraph M R L).importPairs →
        ∃ u v, (u, v) ∈ (buildGraph M R none).importPairs ∧ a = flattenNode L u ∧ b = flattenNode L v) := by
  have hL : ∀ i ∈ R, NodeOf L M (flattenNode L i.importer) ∧ i.importeeParents = parentModules i.importee :=
    fun i hi => ⟨nodeOf_flatten L M _ (h0 i hi).1, (h0 i hi).2⟩
  obtain ⟨n1, t1, f1⟩ := buildGraph_char M R L hL
  obtain ⟨n0, t0, f0⟩ := buildGraph_char M R none h0
  -- an import that is not skipped has its importee among the nodes of the full graph
  have hkn : ∀ i ∈ R, skipImportEdge L (knownModules M) i = false → NodeOf L M (flattenNode L i.importee) →
      NodeOf none M i.importee := by
    intro i _ hsk hb
    cases L with
    | none => exact hb
    | some k => exact (nodeOf_of_skip_false k M i hsk).2
  have himpsup : ∀ a b, (a ≠ b ∧ ¬ hierPair a b ∧
        ∃ u v, (u, v) ∈ (buildGraph M R none).importPairs ∧ a = flattenNode L u ∧ b = flattenNode L v) →
      (a, b) ∈ (buildGraph M R L).importPairs := by
    rintro a b ⟨hne, hnh, u, v, huv, rfl, rfl⟩
    rw [mem_importPairs] at huv ⊢
    obtain ⟨-, -, Nu, Nv, i, hi, -, hiu, hiv⟩ := (f0 u v).1 huv
    have hiu' : i.importer = u := hiu
    have hiv' : i.importee = v := hiv
    subst hiu' hiv'
    exact (f1 _ _).2 ⟨hnh, hne, nodeOf_flatten L M _ Nu, nodeOf_flatten L M _ Nv, i, hi,
      skip_false_of_nodeOf L M i Nu Nv, rfl, rfl⟩
  refine ⟨?_, ?_, ?_, himpsup, ?_⟩
  · intro s
    rw [n1]
    constructor
    · intro h
      obtain ⟨h1, h2⟩ := nodeOf_unflatten L M s h
      exact ⟨s, (n0 s).2 h1, h2.symm⟩
    · rintro ⟨n, hn, rfl⟩
      exact nodeOf_flatten L M n ((n0 n).1 hn)
  · intro a b
    rw [mem_hierPairs, t1]
    constructor
    · rintro ⟨hp, hb⟩
      obtain ⟨m, hm, hc⟩ := hb
      have hb0 : NodeOf none M b := ⟨m, hm, chain_trans hc (flatten_mem_chain L m)⟩
      refine ⟨a, b, ?_, ?_, (flatten_short L b m hc).symm, hierPair_ne hp⟩
      · rw [mem_hierPairs, t0]; exact ⟨hp, hb0⟩
      · exact (flatten_short L a m (hierPair_chain hp hc)).symm
    · rintro ⟨u, v, huv, rfl, rfl, hne⟩
      rw [mem_hierPairs, t0] at huv
      exact ⟨hierPair_flatten L u v huv.1 hne, nodeOf_flatten L M v huv.2⟩
  · intro a b
    rw [mem_importPairs, f1, n1, n1]
    constructor
    · rintro ⟨h1, h2, h3, h4, i, hi, hsk, rfl, rfl⟩
      exact ⟨h2, h1, h3, h4, i, hi, (n0 _).2 (hkn i hi hsk h4), rfl, rfl⟩
    · rintro ⟨h1, h2, h3, h4, i, hi, hnode, rfl, rfl⟩
      exact ⟨h2, h1, h3, h4, i, hi, skip_false_of_nodeOf L M i (h0 i hi).1 ((n0 _).1 hnode), rfl, rfl⟩
  · intro a b hab
    rw [mem_importPairs] at hab
    obtain ⟨hnh, hne, -, hb, i, hi, hsk, rfl, rfl⟩ := (f1 a b).1 hab
    refine ⟨i.importer, i.importee, ?_, rfl, rfl⟩
    rw [mem_importPairs, f0]
    refine ⟨?_, ?_, (h0 i hi).1, hkn i hi hsk hb, i, hi, rfl, rfl, rfl⟩
    · intro hp
      exact hnh (hierPair_flatten L _ _ hp hne)
    · intro he
      apply hne
      rw [he]

/-! ### the two scans -/

section
variable (mt : Str → Str → Bool) (base rootName : Str) (mp : List Str) (entries : List Entry) (o : ScanOptions)

theorem scanRetained_noLimit :
    scanRetained mt base rootName mp entries o.noLimit = scanRetained mt base rootName mp entries o := rfl

/-- the module list handed to the constructor -/
def scanMods (R : List ImportRec) : List Str :=
  moduleList mt base o (internalPrefix rootName mp) (scanParsed mt base rootName mp entries o).allModules R

theorem generateGraph_retained :
    generateGraph mt base rootName mp entries o =
      match scanRetained mt base rootName mp entries o with
      | .error e => .error e
      | .ok R => .ok (buildGraph (scanMods mt base rootName mp entries o R) R (shiftedLimit o mp)) := by
  rw [generateGraph_eq]
  unfold scanRetained scanMods
  split <;> simp_all

theorem generateGraph_noLimit_retained :
    generateGraph mt base rootName mp entries o.noLimit =
      match scanRetained mt base rootName mp entries o with
      | .error e => .error e
      | .ok R => .ok (buildGraph (scanMods mt base rootName mp entries o R) R none) :=
  generateGraph_retained mt base rootName mp entries o.noLimit

/-- whether the scan fails does not depend on the level limit -/
theorem error_indep_lemma (e : ErrKind) :
    generateGraph mt base rootName mp entries o = .error e ↔
      generateGraph mt base rootName mp entries o.noLimit = .error e := by
  rw [generateGraph_retained, generateGraph_noLimit_retained]
  cases scanRetained mt base rootName mp entries o with
  | error e0 => exact Iff.rfl
  | ok R => simp

/-- what the constructor's characterisation needs, for the lists of a scan -/
theorem scan_h0 (R : List ImportRec) (hR : scanRetained mt base rootName mp entries o = .ok R) :
    ∀ i ∈ R, NodeOf none (scanMods mt base rootName mp entries o R) i.importer ∧
      i.importeeParents = parentModules i.importee := by
  unfold scanRetained at hR
  cases hI : convertAll (scanParsed mt base rootName mp entries o) (absolutePrefix rootName mp)
      ((scanParsed mt base rootName mp entries o).allModules.filter fun m => isInternal m (internalPrefix rootName mp)) with
  | error e0 => rw [hI] at hR; cases hR
  | ok I =>
    rw [hI] at hR
    simp only [Except.ok.injEq] at hR
    subst hR
    exact scan_himp mt base o (internalPrefix rootName mp) _ (scanParsed_filesIn _ _ _ _ _ _) _ _ I hI none

/-- every importer of a retained record is the module of a parsed file -/
theorem scan_importer_file (R : List ImportRec) (hR : scanRetained mt base rootName mp entries o = .ok R) :
    ∀ i ∈ R, ∃ f ∈ (scanParsed mt base rootName mp entries o).files, i.importer = f.1 := by
  unfold scanRetained at hR
  cases hI : convertAll (scanParsed mt base rootName mp entries o) (absolutePrefix rootName mp)
      ((scanParsed mt base rootName mp entries o).allModules.filter fun m => isInternal m (internalPrefix rootName mp)) with
  | error e0 => rw [hI] at hR; cases hR
  | ok I =>
    rw [hI] at hR
    simp only [Except.ok.injEq] at hR
    subst hR
    intro i hi
    obtain ⟨f, hf, h1, -⟩ := convertAll_good _ _ _ I hI i ((mem_retainImports mt o _ I i).1 hi).1
    exact ⟨f, hf, h1⟩

/-- both scans succeed together and their graphs come from the same lists -/
theorem scan_pair (g g0 : PGraph Str)
    (hg : generateGraph mt base rootName mp entries o = .ok g)
    (hg0 : generateGraph mt base rootName mp entries o.noLimit = .ok g0) :
    ∃ R, scanRetained mt base rootName mp entries o = .ok R ∧
      g = buildGraph (scanMods mt base rootName mp entries o R) R (shiftedLimit o mp) ∧
      g0 = buildGraph (scanMods mt base rootName mp entries o R) R none := by
  rw [generateGraph_retained] at hg
  rw [generateGraph_noLimit_retained] at hg0
  cases hR : scanRetained mt base rootName mp entries o with
  | error e0 => rw [hR] at hg; cases hg
  | ok R =>
    rw [hR] at hg hg0
    simp only [Except.ok.injEq] at hg hg0
    exact ⟨R, rfl, hg.symm, hg0.symm⟩

theorem scan_quotient_lemma (g g0 : PGraph Str)
    (hg : generateGraph mt base rootName mp entries o = .ok g)
    (hg0 : generateGraph mt base rootName mp entries o.noLimit = .ok g0) :
    (∀ s, s ∈ g.nodes ↔ ∃ n ∈ g0.nodes, s = flattenNode (shiftedLimit o mp) n) ∧
    (∀ a b, (a, b) ∈ g.hierPairs ↔
      ∃ u v, (u, v) ∈ g0.hierPairs ∧ a = flattenNode (shiftedLimit o mp) u ∧ b = flattenNode (shiftedLimit o mp) v ∧ a ≠ b) ∧
    (∀ a b, (a ≠ b ∧ isHierPair a b = false ∧
        ∃ u v, (u, v) ∈ g0.importPairs ∧ a = flattenNode (shiftedLimit o mp) u ∧ b = flattenNode (shiftedLimit o mp) v) →
      (a, b) ∈ g.importPairs) ∧
    (∀ a b, (a, b) ∈ g.importPairs → a ≠ b ∧ isHierPair a b = false) ∧
    (∀ R, scanRetained mt base rootName mp entries o = .ok R →
      (∀ a b, (a, b) ∈ g.importPairs ↔
        a ≠ b ∧ isHierPair a b = false ∧ a ∈ g.nodes ∧ b ∈ g.nodes ∧
        ∃ i ∈ R, i.importee ∈ g0.nodes ∧
          a = flattenNode (shiftedLimit o mp) i.importer ∧ b = flattenNode (shiftedLimit o mp) i.importee)) ∧
    (∀ a b, (a, b) ∈ g.importPairs →
      ∃ u v, (u, v) ∈ g0.importPairs ∧ a = flattenNode (shiftedLimit o mp) u ∧ b = flattenNode (shiftedLimit o mp) v) := by
  obtain ⟨R, hR, rfl, rfl⟩ := scan_pair mt base rootName mp entries o g g0 hg hg0
  obtain ⟨q1, q2, q3, q4, q5⟩ := build_quotient (scanMods mt base rootName mp entries o R) R (shiftedLimit o mp)
    (scan_h0 mt base rootName mp entries o R hR)
  have hb : ∀ a b, isHierPair a b = false ↔ ¬ hierPair a b := by
    intro a b
    rw [← isHierPair_iff]
    simp
  refine ⟨q1, q2, ?_, ?_, ?_, q5⟩
  · rintro a b ⟨h1, h2, h3⟩
    exact q4 a b ⟨h1, (hb a b).1 h2, h3⟩
  · intro a b hab
    obtain ⟨h1, h2, -⟩ := (q3 a b).1 hab
    exact ⟨h1, (hb a b).2 h2⟩
  · intro R' hR'
    rw [hR] at hR'
    simp only [Except.ok.injEq] at hR'
    subst hR'
    intro a b
    rw [q3, hb]

/-- import edges of the full graph: importer of a retained record, importee a node -/
theorem full_import_facts (g0 : PGraph Str)
    (hg0 : generateGraph mt base rootName mp entries o.noLimit = .ok g0) (R : List ImportRec)
    (hR : scanRetained mt base rootName mp entries o = .ok R) (u v : Str) (huv : (u, v) ∈ g0.importPairs) :
    ¬ hierPair u v ∧ v ∈ g0.nodes ∧ ∃ i ∈ R, i.importer = u ∧ i.importee = v := by
  rw [generateGraph_noLimit_retained, hR] at hg0
  simp only [Except.ok.injEq] at hg0
  subst hg0
  obtain ⟨n0, -, f0⟩ := buildGraph_char _ R none (scan_h0 mt base rootName mp entries o R hR)
  rw [mem_importPairs] at huv
  obtain ⟨h1, -, -, h4, i, hi, -, h5, h6⟩ := (f0 u v).1 huv
  exact ⟨h1, (n0 v).2 h4, i, hi, h5, h6⟩

theorem noDownward_of_leaf_lemma (g0 : PGraph Str)
    (hg0 : generateGraph mt base rootName mp entries o.noLimit = .ok g0) (R : List ImportRec)
    (hR : scanRetained mt base rootName mp entries o = .ok R) (hleaf : leafImporters R g0 = true) :
    noDownwardImports g0 = true := by
  unfold noDownwardImports
  rw [List.all_eq_true]
  rintro ⟨u, v⟩ huv
  obtain ⟨-, hv, i, hi, rfl, rfl⟩ := full_import_facts mt base rootName mp entries o g0 hg0 R hR u v huv
  unfold leafImporters at hleaf
  simp only [List.all_eq_true] at hleaf
  exact hleaf i hi _ hv

theorem leafImporters_of_files_lemma (g0 : PGraph Str) (R : List ImportRec)
    (hR : scanRetained mt base rootName mp entries o = .ok R)
    (hleaf : leafFiles (scanParsed mt base rootName mp entries o).files g0 = true) : leafImporters R g0 = true := by
  unfold leafImporters
  rw [List.all_eq_true]
  intro i hi
  obtain ⟨f, hf, hif⟩ := scan_importer_file mt base rootName mp entries o R hR i hi
  unfold leafFiles at hleaf
  rw [List.all_eq_true] at hleaf
  rw [hif]
  exact hleaf f hf

/-- without downward imports in the full graph, no flattened import edge lands on a parent→child pair -/
theorem no_collision_lemma (g0 : PGraph Str)
    (hg0 : generateGraph mt base rootName mp entries o.noLimit = .ok g0)
    (hdown : noDownwardImports g0 = true) (u v : Str) (huv : (u, v) ∈ g0.importPairs) :
    isHierPair (flattenNode (shiftedLimit o mp) u) (flattenNode (shiftedLimit o mp) v) = false := by
  have hnp : ¬ hierPair u v := by
    rw [generateGraph_noLimit_retained] at hg0
    cases hR : scanRetained mt base rootName mp entries o with
    | error e0 => rw [hR] at hg0; cases hg0
    | ok R =>
      exact (full_import_facts mt base rootName mp entries o g0
        (by rw [generateGraph_noLimit_retained, hR]; rw [hR] at hg0; exact hg0) R hR u v huv).1
  have hd : isStrictSub u v = false := by
    unfold noDownwardImports at hdown
    rw [List.all_eq_true] at hdown
    simpa using hdown (u, v) huv
  rw [Bool.eq_false_iff]
  intro h
  rw [isHierPair_iff] at h
  cases hL : shiftedLimit o mp with
  | none => rw [hL] at h; exact hnp h
  | some j =>
    rw [hL] at h
    have := ((collision_iff j u v hnp).1 h).1
    rw [hd] at this
    cases this

end

/-! ### "k levels below module_path" -/

theorem shiftedLimit_some (o : ScanOptions) (mp : List Str) (k : Nat) (hk : o.levelLimit = some k) :
    shiftedLimit o mp = some (k + mp.length) := by
  unfold shiftedLimit
  rw [hk]
  cases mp <;> simp

/-- a module `rest` below `module_path` is truncated to its first `k` levels below `module_path` -/
theorem flatten_below_lemma (o : ScanOptions) (k : Nat) (hk : o.levelLimit = some k) (root : Comp) (mp rest : List Comp)
    (hwf : nameWF (root :: mp ++ rest) = true) :
    flattenNode (shiftedLimit o mp) (render (root :: mp ++ rest)) = render (root :: mp ++ rest.take k) := by
  rw [shiftedLimit_some o mp k hk, flattenNode_render _ _ hwf]
  congr 1
  simp only [List.cons_append, List.take_succ_cons, List.cons.injEq, true_and]
  rw [List.take_append]
  have h1 : List.take (k + mp.length) mp = mp := List.take_of_length_le (by omega)
  have h2 : k + mp.length - mp.length = k := by omega
  rw [h1, h2]

/-- `module_path` and its ancestors are unchanged -/
theorem flatten_above_lemma (o : ScanOptions) (root : Comp) (mp : List Comp) (j : Nat)
    (hwf : nameWF (root :: mp) = true) :
    flattenNode (shiftedLimit o mp) (render (root :: mp.take j)) = render (root :: mp.take j) := by
  cases hk : o.levelLimit with
  | none =>
    have : shiftedLimit o mp = none := by unfold shiftedLimit; rw [hk]; rfl
    rw [this]; rfl
  | some k =>
    have hwf' : nameWF (root :: mp.take j) = true :=
      nameWF_of_prefix hwf (by simp) ((List.prefix_cons_inj root).2 (List.take_prefix _ _))
    rw [shiftedLimit_some o mp k hk, flattenNode_render _ _ hwf']
    congr 1
    apply List.take_of_length_le
    simp only [List.length_cons, List.length_take]
    omega

end ScanLimit
end Pta
